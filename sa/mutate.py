"""Systematic AST mutation of the anchored functions (thorough tier only).

Unlike the hand-written seeds of E10 (each of which MUST be detected), these mutants are generated
mechanically and many are behaviour-preserving or irrelevant to the property, so the result is
reported as coverage evidence (how many mutants of the anchored code change the verdict, which
survive) and is not a pass/fail criterion.  Survivors are the reading list for missing rules.
Nothing is written to disk: each mutant is an in-memory overlay `Repo(root, overrides={module: src})`.
"""
import ast
import copy
import os
import warnings
from concurrent.futures import ProcessPoolExecutor

from .model import Repo, AnalysisError, FUNC
from .report import Ctx

SIMPLE = (ast.Expr, ast.Assign, ast.AugAssign, ast.Delete, ast.AnnAssign)


def _blocks(fn):
    """(owner node, field name, statement list) for every block inside fn (not nested defs)"""
    out = []
    stack = [fn]
    first = True
    while stack:
        n = stack.pop()
        if not first and isinstance(n, FUNC + (ast.ClassDef, ast.Lambda)):
            continue
        first = False
        for field in ("body", "orelse", "finalbody"):
            lst = getattr(n, field, None)
            if isinstance(lst, list) and lst and isinstance(lst[0], ast.stmt):
                out.append((n, field, lst))
        for h in getattr(n, "handlers", []) or []:
            out.append((h, "body", h.body))
        stack.extend(ast.iter_child_nodes(n))
    return out


def _find_fn(tree, qual):
    parts = qual.split(".")
    nodes = tree.body
    cur = None
    for p in parts:
        cur = None
        for n in nodes:
            if isinstance(n, FUNC + (ast.ClassDef,)) and n.name == p:
                cur = n
                break
        if cur is None:
            # nested def inside blocks of a function
            for n in nodes:
                for c in ast.walk(n):
                    if isinstance(c, FUNC + (ast.ClassDef,)) and c.name == p:
                        cur = c
                        break
                if cur is not None:
                    break
        if cur is None:
            return None
        nodes = cur.body
    return cur


def generate(repo, scope):
    """yield (description, module, new_source) for every mutant of the functions in scope (list of 'module:Qual')"""
    out = []
    for fq in scope:
        mod, qual = fq.split(":")
        m = repo.modules.get(mod)
        if m is None:
            continue
        with warnings.catch_warnings():
            warnings.simplefilter("ignore")
            base = ast.parse(m.source)
        fn0 = _find_fn(base, qual)
        if fn0 is None:
            continue
        # enumerate mutation sites on a fresh copy each time, addressed by (block index, statement index)
        nb = len(_blocks(fn0))
        for bi in range(nb):
            blk = _blocks(fn0)[bi][2]
            for si, st in enumerate(blk):
                ops = []
                if isinstance(st, ast.Expr) and isinstance(st.value, ast.Constant):
                    continue          # docstring
                if isinstance(st, SIMPLE):
                    ops.append("DEL")
                    if si + 1 < len(blk) and isinstance(blk[si + 1], SIMPLE) and not (isinstance(blk[si + 1], ast.Expr) and isinstance(blk[si + 1].value, ast.Constant)):
                        ops.append("SWAP")
                if isinstance(st, ast.Try) and st.finalbody:
                    ops.append("UNFINALLY")
                if isinstance(st, ast.Try) and st.handlers:
                    ops.append("NARROW")
                if isinstance(st, (ast.With, ast.AsyncWith)):
                    ops.append("UNWITH")
                if isinstance(st, ast.If):
                    ops.append("NEGIF")
                    if not st.orelse:
                        ops.append("DROPGUARD")
                if isinstance(st, ast.Return) and st.value is not None and not isinstance(st.value, ast.Constant):
                    ops.append("RETNONE")
                for op in ops:
                    with warnings.catch_warnings():
                        warnings.simplefilter("ignore")
                        tree = ast.parse(m.source)
                    fn = _find_fn(tree, qual)
                    b = _blocks(fn)[bi][2]
                    s = b[si]
                    desc = f"{op} {fq}:{getattr(st, 'lineno', 0)} `{ast.unparse(st).splitlines()[0][:60]}`"
                    if op == "DEL":
                        b[si] = ast.Pass()
                    elif op == "SWAP":
                        b[si], b[si + 1] = b[si + 1], b[si]
                    elif op == "UNFINALLY":
                        b[si:si + 1] = s.body + s.finalbody if not s.handlers else [ast.Try(body=s.body, handlers=s.handlers, orelse=s.orelse, finalbody=[])] + s.finalbody
                    elif op == "NARROW":
                        for h in s.handlers:
                            h.type = ast.Name(id="ZeroDivisionError", ctx=ast.Load())
                    elif op == "UNWITH":
                        b[si:si + 1] = s.body
                    elif op == "NEGIF":
                        s.test = ast.UnaryOp(op=ast.Not(), operand=s.test)
                    elif op == "DROPGUARD":
                        b[si:si + 1] = s.body
                    elif op == "RETNONE":
                        s.value = ast.Constant(value=None)
                    ast.fix_missing_locations(tree)
                    try:
                        new = ast.unparse(tree) + "\n"
                        compile(new, mod, "exec")
                    except Exception:
                        continue
                    out.append((desc, mod, new))
    return out


def _run_one(args):
    modname, root, pid, mod, new = args
    import importlib
    rule = importlib.import_module(modname)
    try:
        repo = Repo(root, overrides={mod: new})
        ctx = Ctx(pid, "quick", repo, quiet=True)
        try:
            rule.check(ctx)
        except AnalysisError as e:
            ctx.error(str(e))
        return [f.key() for f in ctx.findings], list(ctx.errors)
    except Exception as e:
        return [], [f"checker crashed: {e!r}"]


def sweep(rule_mod, repo, pid, base_ctx, scope):
    muts = generate(repo, scope)
    total_generated = len(muts)
    cap = int(os.environ.get("VERIF_MUTANT_CAP", "240"))
    if len(muts) > cap:
        import random
        rnd = random.Random(int(os.environ.get("VERIF_SEED", "0") or 0))
        muts = sorted(rnd.sample(muts, cap), key=lambda m: m[0])
    base = {f.key() for f in base_ctx.findings}
    res = {"scope": list(scope), "generated": total_generated, "mutants": len(muts), "verdict_changed": 0, "by_violation": 0, "by_analysis_error": 0, "crashed": 0, "survivors": []}
    if not muts:
        return res
    jobs = [(rule_mod.__name__, repo.root, pid, mod, new) for _d, mod, new in muts]
    with ProcessPoolExecutor(max_workers=min(16, os.cpu_count() or 1)) as ex:
        outs = list(ex.map(_run_one, jobs, chunksize=4))
    for (desc, _m, _n), (keys, errors) in zip(muts, outs):
        new = [k for k in keys if tuple(k) not in base]
        if any("crashed" in e for e in errors):
            res["crashed"] += 1
        if new:
            res["verdict_changed"] += 1
            res["by_violation"] += 1
        elif errors:
            res["verdict_changed"] += 1
            res["by_analysis_error"] += 1
        else:
            res["survivors"].append(desc)
    res["survivor_count"] = len(res["survivors"])
    res["survivors"] = res["survivors"][:80]
    return res
