"""E9: findings, known-findings matching, evidence files, exit codes.

exit 0  every obligation discharged (known findings are printed as KNOWN-FINDING and do not fail)
exit 1  at least one finding that known_findings.json does not list  -> VIOLATION line per finding
exit 2  the analysis could not decide (ANALYSIS-ERROR): vanished anchor, floor not met, control failed
"""
import hashlib
import json
import os
import time

from .model import AnalysisError, src

VERIF = os.path.dirname(os.path.dirname(os.path.abspath(__file__)))
KNOWN_PATH = os.path.join(VERIF, "known_findings.json")


class Finding:
    def __init__(self, prop, rule, where, construct, line, msg, path=None):
        self.prop, self.rule, self.where, self.construct = prop, rule, where, construct
        self.line, self.msg, self.path = line, msg, path

    def key(self):
        return (self.prop, self.rule, self.where, self.construct)

    def as_dict(self):
        d = {"property": self.prop, "rule": self.rule, "where": self.where, "construct": self.construct,
             "line": self.line, "message": self.msg}
        if self.path:
            d["path"] = self.path
        return d

    def text(self, repo_root="/repo"):
        mod = self.where.split(":")[0]
        return (f"{repo_root}/klongpy/{mod}.py:{self.line} {self.where} {self.rule} "
                f"[{self.construct}] — {self.msg}" + (f" (path: {self.path})" if self.path else ""))


def load_known():
    if not os.path.exists(KNOWN_PATH):
        return []
    with open(KNOWN_PATH) as fh:
        return json.load(fh).get("known", [])


class Ctx:
    """Collects what one run of one property's rules examined and found."""

    def __init__(self, pid, tier, repo, quiet=False):
        self.pid, self.tier, self.repo, self.quiet = pid, tier, repo, quiet
        self.findings = []
        self.obligations = 0
        self.discharged = 0
        self.evaluations = 0
        self.instance_keys = set()
        self.samples = []
        self.rules = {}          # rule -> dict(instances, obligations, discharged, text)
        self.trusted = []
        self.errors = []
        self.notes = {}
        self.t0 = time.time()

    # ---- bookkeeping
    def rule(self, rid, text):
        self.rules.setdefault(rid, {"rule": text, "instances": 0, "obligations": 0, "discharged": 0})

    def _r(self, rid):
        return self.rules.setdefault(rid, {"rule": "", "instances": 0, "obligations": 0, "discharged": 0})

    def instance(self, rid, where, what=None):
        """a rule instance (site) examined"""
        self.evaluations += 1
        self._r(rid)["instances"] += 1
        return (rid, where, what)

    def ob(self, rid, where, text, ok, node=None, msg=None, construct=None, path=None):
        """one proof obligation at one site; not ok => finding"""
        self.obligations += 1
        r = self._r(rid)
        r["obligations"] += 1
        self.instance_keys.add((rid, where, construct if construct is not None else (src(node) if node is not None else text)))
        if len(self.samples) < 400:
            self.samples.append({"rule": rid, "where": where, "obligation": text,
                                 "line": getattr(node, "lineno", None), "discharged": bool(ok)})
        if ok:
            self.discharged += 1
            r["discharged"] += 1
        else:
            c = construct if construct is not None else (src(node)[:200] if node is not None else text)
            self.findings.append(Finding(self.pid, rid, where, c, getattr(node, "lineno", 0), msg or text, path))
        return ok

    def floor(self, rid, what, found, minimum):
        """a rule matching fewer sites than were confirmed by hand would pass vacuously"""
        if found < minimum:
            self.errors.append(f"{rid}: instance floor not met for {what}: found {found}, expected >= {minimum}")

    def control(self, rid, what, ok):
        """positive control for zero-expected rules"""
        self._r(rid).setdefault("controls", []).append({"control": what, "matched": bool(ok)})
        if not ok:
            self.errors.append(f"{rid}: positive control failed: {what}")

    def error(self, msg):
        self.errors.append(msg)

    def trust(self, *facts):
        for f in facts:
            if f not in self.trusted:
                self.trusted.append(f)

    def note(self, k, v):
        self.notes[k] = v


def finish(ctx, meta, extra=None):
    """print verdict lines, write evidence, return exit code"""
    known = load_known()
    kmap = {(k["property"], k["rule"], k["where"], k["construct"]): k for k in known}
    unlisted, listed = [], []
    for f in ctx.findings:
        (listed if f.key() in kmap else unlisted).append(f)
    evdir = os.environ.get("VERIF_EVIDENCE_DIR") or os.path.join(VERIF, "evidence")
    os.makedirs(evdir, exist_ok=True)
    code = 0
    seen_keys = set()
    uniq = []
    for f in unlisted:
        if f.key() not in seen_keys:
            seen_keys.add(f.key())
            uniq.append(f)
    unlisted = uniq
    seen_l, uniq_l = set(), []
    for f in listed:
        if f.key() not in seen_l:
            seen_l.add(f.key())
            uniq_l.append(f)
    listed = uniq_l
    for f in listed:
        print(f"KNOWN-FINDING: property={ctx.pid} {f.rule} {f.where} [{f.construct}] {kmap[f.key()].get('what', f.msg)}")
    if ctx.errors:
        for e in ctx.errors:
            print(f"ANALYSIS-ERROR property={ctx.pid} {e}")
        code = 2
    if unlisted:
        rdir = os.path.join(evdir, "replay")
        os.makedirs(rdir, exist_ok=True)
        for f in unlisted:
            h = hashlib.sha1(repr(f.key()).encode()).hexdigest()[:10]
            rp = os.path.join(rdir, f"{ctx.pid}.{f.rule}.{h}.json")
            with open(rp, "w") as fh:
                json.dump(f.as_dict(), fh, indent=1)
            print(f.text(ctx.repo.root))
            print(f"VIOLATION property={ctx.pid} replay={rp}")
        code = 1 if code == 0 else code
    wall = time.time() - ctx.t0
    cov = {
        "explanation": meta["explanation"],
        "obligations": ctx.obligations,
        "discharged": ctx.discharged,
        "evaluations": ctx.evaluations,
        "distinct_nontrivial": len(ctx.instance_keys),
        "rule": "one evaluation = one rule instance (site) examined; distinct_nontrivial = distinct "
                "(rule, function, construct) triples that carry at least one obligation",
        "samples": ctx.samples[:60],
        "rules": ctx.rules,
        "checker_cmd": f"./vcheck {ctx.pid} {ctx.tier}",
        "trusted_base": ctx.trusted,
        "exhaustive": True,
        "known_findings_reported": [f.as_dict() for f in listed],
        "unlisted_findings": [f.as_dict() for f in unlisted],
        "analysis_errors": ctx.errors,
    }
    cov.update(ctx.repo.stats())
    nf = {}
    for m_ in ctx.repo.modules.values():
        for k_, v_ in getattr(m_, "normal_form", {}).items():
            nf[k_] = nf.get(k_, 0) + (len(v_) if isinstance(v_, (list, dict)) else v_)
    cov["renames_undone"] = getattr(ctx.repo, "renames", {}) or {}
    cov["normal_form_rewrites"] = nf       # what sa/normalize.py changed before the rules looked (helpers inlined, named conditions/values substituted, ...)
    cov.update(ctx.notes)
    if extra:
        cov.update(extra)
    ev = {
        "property_id": ctx.pid, "tier": ctx.tier, "seed": int(os.environ.get("VERIF_SEED", "0") or 0),
        "level": "other", "coverage": cov,
        "assumptions": meta.get("assumptions", []),
        "wall_s": round(wall, 3), "violations": len(unlisted),
    }
    with open(os.path.join(evdir, f"{ctx.pid}.json"), "w") as fh:
        json.dump(ev, fh, indent=1, default=str)
    if not ctx.quiet:
        print(f"{ctx.pid} {ctx.tier}: {ctx.discharged}/{ctx.obligations} obligations discharged over "
              f"{ctx.evaluations} rule instances; {len(listed)} known finding(s), {len(unlisted)} violation(s), "
              f"{len(ctx.errors)} analysis error(s); {wall:.2f}s")
    return code
