"""./vcheck <Cxx> quick|thorough   |   ./vcheck <Cxx> --replay <path>"""
import importlib
import json
import os
import sys
import traceback

from .model import Repo, AnalysisError
from .report import Ctx, finish
from . import selftest, mutate, corpus

REPO_ROOT = os.environ.get("VERIF_REPO", "/repo")


def run_rules(mod, repo, pid, tier, quiet=False):
    ctx = Ctx(pid, tier, repo, quiet=quiet)
    try:
        mod.check(ctx)
    except AnalysisError as e:
        ctx.error(str(e))
    return ctx


def main(argv):
    if len(argv) < 2:
        print(__doc__)
        return 2
    pid = argv[0].upper()
    try:
        mod = importlib.import_module(f"sa.rules.{pid.lower()}")
    except ImportError as e:
        print(f"ANALYSIS-ERROR property={pid} no rule module: {e}")
        return 2
    try:
        repo = Repo(REPO_ROOT)
    except AnalysisError as e:
        print(f"ANALYSIS-ERROR property={pid} {e}")
        return 2
    if argv[1] == "--replay":
        want = json.load(open(argv[2]))
        ctx = run_rules(mod, repo, pid, "quick", quiet=True)
        hit = [f for f in ctx.findings if (f.rule, f.where, f.construct) == (want["rule"], want["where"], want["construct"])]
        for e in ctx.errors:
            print(f"ANALYSIS-ERROR property={pid} {e}")
        for f in hit:
            print(f.text(repo.root))
            print(f"VIOLATION property={pid} replay={argv[2]}")
        if not hit:
            print(f"{pid}: finding no longer present on the current tree: {want['rule']} {want['where']} [{want['construct']}]")
        return 1 if hit else (2 if ctx.errors else 0)
    tier = argv[1]
    if tier not in ("quick", "thorough"):
        print(__doc__)
        return 2
    ctx = run_rules(mod, repo, pid, tier)
    extra = {}
    if tier == "thorough":
        extra["selftest"] = selftest.run(mod, repo, pid, ctx)
        scope = getattr(mod, "MUTATION_SCOPE", [])
        if scope:
            sw = mutate.sweep(mod, repo, pid, ctx, scope)
            extra["mutation_sweep"] = sw
            if sw.get("crashed"):
                ctx.error(f"mutation sweep: the checker crashed on {sw['crashed']} mechanically mutated variant(s) of the anchored code")
        if REPO_ROOT == "/repo" or os.environ.get("VERIF_CORPUS") == "1":
            extra["corpus"] = corpus.run(mod, repo, pid, ctx)
    return finish(ctx, mod.META, extra)


if __name__ == "__main__":
    try:
        code = main(sys.argv[1:])
    except Exception:
        traceback.print_exc()
        print(f"ANALYSIS-ERROR property={sys.argv[1] if len(sys.argv) > 1 else '?'} internal error in the checker (see traceback)")
        code = 2
    sys.stdout.flush()
    os._exit(code)
