"""E3/E4: structured exit-path abstract interpreter and path-condition (dominance) helpers.

`Sem.block(stmts, state)` returns (normal_completion_state | None, [Exit...]).  An Exit is an abrupt
way out of the block: return / exc / break / continue, with the abstract state at that point and the
statement that causes it.  `try` routes exception exits of its body into the handlers; `finally` is
applied to *every* exit that crosses it (the CFG-with-duplicated-finally semantics).  `except
Exception` does not catch BaseException, so with base_exc_escapes=True (default) an exception exit
also continues outward past broad handlers: this is what makes "restore on every way out" demand a
`finally` (or a bare/BaseException handler that re-establishes the state).
"""
import ast
from .model import FUNC, src, callee_name, parents, walk_local, pos


class Exit:
    __slots__ = ("kind", "state", "node", "etype")

    def __init__(self, kind, state, node, etype=None):
        self.kind = kind      # 'return' | 'exc' | 'break' | 'continue'
        self.state = state
        self.node = node
        self.etype = etype    # exception class name when syntactically known (raise X(...))

    @property
    def line(self):
        return getattr(self.node, "lineno", 0)

    def __repr__(self):
        return f"<{self.kind}@{self.line} {self.state!r}>"


_SAFE_EXPR = (ast.Constant, ast.Name)


def expr_may_raise(e):
    """conservative: anything but constants, plain names and containers/boolean ops of those may raise"""
    if e is None or isinstance(e, _SAFE_EXPR):
        return False
    if isinstance(e, (ast.Tuple, ast.List, ast.Set)):
        return any(expr_may_raise(x) for x in e.elts)
    if isinstance(e, ast.BoolOp):
        return any(expr_may_raise(x) for x in e.values)
    if isinstance(e, ast.UnaryOp) and isinstance(e.op, ast.Not):
        return expr_may_raise(e.operand)
    if isinstance(e, ast.Compare) and all(isinstance(o, (ast.Is, ast.IsNot)) for o in e.ops):
        return expr_may_raise(e.left) or any(expr_may_raise(c) for c in e.comparators)
    if isinstance(e, ast.IfExp):
        return expr_may_raise(e.test) or expr_may_raise(e.body) or expr_may_raise(e.orelse)
    if isinstance(e, ast.Lambda):
        return False
    if isinstance(e, ast.Dict):
        return any(expr_may_raise(x) for x in list(e.keys) + list(e.values) if x is not None)
    if isinstance(e, ast.Attribute) and isinstance(e.value, ast.Name) and e.value.id == "self":
        return False
    return True


def stmt_may_raise(st):
    if isinstance(st, (ast.Pass, ast.Break, ast.Continue, ast.Global, ast.Nonlocal, ast.Import, ast.ImportFrom)):
        return False
    if isinstance(st, FUNC + (ast.ClassDef,)):
        return False
    if isinstance(st, ast.Assign):
        return expr_may_raise(st.value) or any(not isinstance(t, (ast.Name, ast.Tuple)) and not (
            isinstance(t, ast.Attribute) and isinstance(t.value, ast.Name) and t.value.id == "self") for t in st.targets)
    if isinstance(st, ast.AnnAssign):
        return expr_may_raise(st.value)
    if isinstance(st, ast.Expr):
        return expr_may_raise(st.value)
    if isinstance(st, ast.Return):
        return expr_may_raise(st.value)
    return True


def handler_names(h):
    """names of the exception classes a handler lists; None for a bare except"""
    if h.type is None:
        return None
    t = h.type
    elts = t.elts if isinstance(t, ast.Tuple) else [t]
    out = []
    for e in elts:
        if isinstance(e, ast.Name):
            out.append(e.id)
        elif isinstance(e, ast.Attribute):
            out.append(e.attr)
        else:
            out.append(src(e))
    return out


BROAD = {"Exception", "BaseException"}


class Sem:
    """Subclass: transfer(stmt, state) for simple statements; join2(a, b); optionally refine(test, state),
    atomic(stmt) (statement cannot raise), with_enter/with_exit, handler_state(handler, state)."""
    base_exc_escapes = True
    max_iter = 12

    # ---- hooks
    def transfer(self, st, state):
        return state

    def atomic(self, st):
        return False

    def refine(self, test, state):
        return state, state

    def join2(self, a, b):
        raise NotImplementedError

    def with_enter(self, st, state):
        return state

    def with_exit(self, st, state, kind="normal"):
        """kind: 'normal' or the kind of the abrupt exit crossing the with ('exc', 'return', ...)"""
        return state

    def handler_state(self, h, state):
        return state

    def exc_subclass(self, a, b):
        """True/False when known whether exception class named a derives from the class named b, else None"""
        import builtins
        ca, cb = getattr(builtins, a, None), getattr(builtins, b, None)
        if isinstance(ca, type) and isinstance(cb, type):
            return issubclass(ca, cb)
        hier = getattr(self, "exc_hierarchy", None)
        if hier is not None:
            seen, work = set(), [a]
            while work:
                c = work.pop()
                if c == b:
                    return True
                if c in seen:
                    continue
                seen.add(c)
                if c in hier:
                    work += hier[c]
                else:
                    cc = getattr(builtins, c, None)
                    if isinstance(cc, type) and isinstance(cb, type):
                        if issubclass(cc, cb):
                            return True
                    elif not isinstance(cc, type):
                        return None
            return False
        return None

    def exc_state(self, st, state):
        """abstract state carried by the exceptional exit of a simple statement (default: the state before it)"""
        return state

    def test_transfer(self, test, state):
        """effect of evaluating a branch/loop test expression (default: none)"""
        return state

    # ---- machinery
    def may_raise(self, st):
        return stmt_may_raise(st) and not self.atomic(st)

    def join(self, a, b):
        if a is None:
            return b
        if b is None:
            return a
        return self.join2(a, b)

    def block(self, stmts, state):
        exits = []
        for st in stmts:
            if state is None:
                break
            state, ex = self.stmt(st, state)
            exits += ex
        return state, exits

    def run(self, fnode, state):
        """-> list of (kind, state, node) for every way out, normal fall-through included as 'return'"""
        out, exits = self.block(fnode.body, state)
        res = list(exits)
        if out is not None:
            res.append(Exit("return", out, fnode.body[-1] if fnode.body else fnode))
        return res

    def stmt(self, st, state):
        if isinstance(st, FUNC + (ast.ClassDef,)):
            return self.transfer(st, state), []
        if isinstance(st, ast.Return):
            ex = [Exit("exc", self.exc_state(st, state), st)] if (st.value is not None and expr_may_raise(st.value) and not self.atomic(st)) else []
            return None, ex + [Exit("return", self.transfer(st, state), st)]
        if isinstance(st, ast.Raise):
            et = None
            if st.exc is not None:
                e = st.exc.func if isinstance(st.exc, ast.Call) else st.exc
                et = e.id if isinstance(e, ast.Name) else (e.attr if isinstance(e, ast.Attribute) else None)
                if et is not None and not et[:1].isupper():
                    et = None     # `raise e`: a variable, not a class name
            return None, [Exit("exc", self.transfer(st, state), st, et)]
        if isinstance(st, ast.Break):
            return None, [Exit("break", state, st)]
        if isinstance(st, ast.Continue):
            return None, [Exit("continue", state, st)]
        if isinstance(st, ast.If):
            ex = [Exit("exc", state, st)] if expr_may_raise(st.test) else []
            state = self.test_transfer(st.test, state)
            T, F = self.refine(st.test, state)
            a, ea = self.block(st.body, T) if T is not None else (None, [])
            b, eb = self.block(st.orelse, F) if F is not None else (None, [])
            return self.join(a, b), ex + ea + eb
        if isinstance(st, (ast.While, ast.For, ast.AsyncFor)):
            return self._loop(st, state)
        if isinstance(st, (ast.With, ast.AsyncWith)):
            ex = [Exit("exc", state, st)]
            inner = self.with_enter(st, state)
            o, e = self.block(st.body, inner)
            e = [Exit(x.kind, self.with_exit(st, x.state, x.kind), x.node, x.etype) for x in e]
            return (self.with_exit(st, o, "normal") if o is not None else None), ex + e
        if isinstance(st, ast.Try):
            return self._try(st, state)
        new = self.transfer(st, state)
        ex = [Exit("exc", self.exc_state(st, state), st)] if self.may_raise(st) else []
        return new, ex

    def _loop(self, st, state):
        is_while = isinstance(st, ast.While)
        head = state
        for _ in range(self.max_iter):
            if is_while:
                T, _F = self.refine(st.test, self.test_transfer(st.test, head))
            else:
                T = self.loop_bind(st, head)
            body, eb = self.block(st.body, T) if T is not None else (None, [])
            nh = head
            for b in [body] + [x.state for x in eb if x.kind == "continue"]:
                nh = self.join(nh, b)
            if nh == head:
                break
            head = nh
        if is_while:
            T, F = self.refine(st.test, self.test_transfer(st.test, head))
        else:
            T, F = self.loop_bind(st, head), head
        body, eb = self.block(st.body, T) if T is not None else (None, [])
        exits = []
        test_expr = st.test if is_while else st.iter
        if expr_may_raise(test_expr) or not is_while:
            exits.append(Exit("exc", head, st))
        out = F
        if is_while and isinstance(st.test, ast.Constant) and st.test.value:
            out = None
        for x in eb:
            if x.kind == "break":
                out = self.join(out, x.state)
            elif x.kind != "continue":
                exits.append(x)
        self.loop_done(st, head, [body] + [x.state for x in eb if x.kind == "continue"])
        if st.orelse:
            # else-clause runs only on normal loop exhaustion (F), not on break
            brk = None
            for x in eb:
                if x.kind == "break":
                    brk = self.join(brk, x.state)
            fo = None if (is_while and isinstance(st.test, ast.Constant) and st.test.value) else F
            o2, e2 = self.block(st.orelse, fo) if fo is not None else (None, [])
            return self.join(o2, brk), exits + e2
        return out, exits

    def loop_bind(self, st, state):
        """state at the start of a for-body (target bound)"""
        return state

    def loop_done(self, st, head, back_states):
        pass

    def _try(self, st, state):
        body, eb = self.block(st.body, state)
        caught = [x for x in eb if x.kind == "exc"]
        passed = [x for x in eb if x.kind != "exc"]
        outs = [body]
        if st.handlers and caught:
            remaining = []
            per_handler = [[] for _ in st.handlers]
            for x in caught:
                definitely = False
                for k, h in enumerate(st.handlers):
                    names = handler_names(h)
                    if names is None or "BaseException" in names:
                        per_handler[k].append(x); definitely = True; break
                    if x.etype is not None:
                        rel = [self.exc_subclass(x.etype, nm) for nm in names]
                        if x.etype in names or True in rel:
                            per_handler[k].append(x); definitely = True; break
                        if all(r is False for r in rel):
                            continue
                        if "Exception" in names:
                            # a syntactically known class of unknown ancestry: assume it derives from Exception
                            per_handler[k].append(x); definitely = True; break
                        per_handler[k].append(x)   # may be a subclass of a listed class
                        continue
                    # unknown exception type: this handler may catch it
                    per_handler[k].append(x)
                    if "Exception" in names:
                        definitely = not self.base_exc_escapes
                        break
                if not definitely:
                    remaining.append(x)
            for h, xs in zip(st.handlers, per_handler):
                if not xs:
                    continue
                hs = None
                for x in xs:
                    hs = self.join(hs, x.state)
                hs = self.handler_state(h, hs)
                ho, he = self.block(h.body, hs)
                outs.append(ho)
                passed += he
            passed += remaining
        else:
            passed += caught
        if st.orelse:
            eo, ee = self.block(st.orelse, body) if body is not None else (None, [])
            outs[0] = eo
            passed += ee
        out = None
        for o in outs:
            out = self.join(out, o)
        if st.finalbody:
            fo, fe = self.block(st.finalbody, out) if out is not None else (None, [])
            res = list(fe)
            for x in passed:
                f2, fe2 = self.block(st.finalbody, x.state)
                res += fe2
                if f2 is not None:
                    res.append(Exit(x.kind, f2, x.node, x.etype))
            return fo, res
        return out, passed


# ------------------------------------------------------------------ path conditions

def always_exits(stmts):
    """every path through the statement list leaves the enclosing block abruptly"""
    for st in stmts:
        if isinstance(st, (ast.Return, ast.Raise, ast.Continue, ast.Break)):
            return True
        if isinstance(st, ast.If) and st.orelse and always_exits(st.body) and always_exits(st.orelse):
            return True
        if isinstance(st, ast.Try):
            if st.finalbody and always_exits(st.finalbody):
                return True
            if always_exits(st.body) and all(always_exits(h.body) for h in st.handlers) and not st.orelse:
                return True
        if isinstance(st, (ast.With, ast.AsyncWith)) and always_exits(st.body):
            return True
        if isinstance(st, ast.While) and isinstance(st.test, ast.Constant) and st.test.value and not any(
                isinstance(n, ast.Break) for n in _loop_local(st)):
            return True
    return False


def _loop_local(loop):
    """nodes of the loop body that belong to this loop (not nested loops / functions)"""
    stack = list(loop.body)
    while stack:
        n = stack.pop()
        yield n
        if isinstance(n, (ast.While, ast.For, ast.AsyncFor) + FUNC + (ast.Lambda, ast.ClassDef)):
            continue
        stack.extend(ast.iter_child_nodes(n))


def _stores_between(func, names, lo, hi):
    for n in walk_local(func):
        if isinstance(n, ast.Name) and isinstance(n.ctx, (ast.Store, ast.Del)) and n.id in names:
            if lo < pos(n) < hi:
                return True
    return False


def path_conditions(node, func=None, check_kill=True):
    """[(test_expr, polarity)] known to hold whenever `node` is evaluated, from
       (a) enclosing if / while / ifexp / boolop arms, (b) earlier `if T: <always exits>` statements in
       enclosing blocks.  A condition whose names are re-assigned between the test and the node is dropped."""
    conds = []
    child = node
    for p in parents(node):
        if isinstance(p, ast.Lambda):
            if func is None:
                func = p
            break
        if isinstance(p, ast.If):
            if child in p.body:
                conds.append((p.test, True))
            elif child in p.orelse:
                conds.append((p.test, False))
        elif isinstance(p, ast.While):
            if child in p.body:
                conds.append((p.test, True))
        elif isinstance(p, ast.IfExp):
            if child is p.body:
                conds.append((p.test, True))
            elif child is p.orelse:
                conds.append((p.test, False))
        elif isinstance(p, ast.BoolOp):
            idx = p.values.index(child) if child in p.values else -1
            for v in p.values[:max(idx, 0)]:
                conds.append((v, isinstance(p.op, ast.And)))
        elif isinstance(p, ast.Assert):
            pass
        # earlier siblings in a statement list
        for field in ("body", "orelse", "finalbody"):
            lst = getattr(p, field, None)
            if isinstance(lst, list) and child in lst:
                for prev in lst[:lst.index(child)]:
                    if isinstance(prev, ast.If):
                        be, oe = always_exits(prev.body), bool(prev.orelse) and always_exits(prev.orelse)
                        if be and not oe:
                            conds.append((prev.test, False))
                        elif oe and not be:
                            conds.append((prev.test, True))
                    elif isinstance(prev, ast.Assert):
                        conds.append((prev.test, True))
        if isinstance(p, FUNC):
            if func is None:
                func = p
            break
        child = p
    if check_kill and func is not None:
        kept = []
        for t, pol in conds:
            nm = {n.id for n in ast.walk(t) if isinstance(n, ast.Name)}
            lo = max((pos(x_) for x_ in ast.walk(t) if hasattr(x_, "_pos")), default=pos(t))
            hi = pos(node)
            if lo < hi and _stores_between(func, nm, lo, hi):
                continue
            kept.append((t, pol))
        conds = kept
    return conds


def split_conj(test, pol=True):
    """flatten a condition into atomic (expr, polarity) facts that are all known to hold"""
    out = []
    if isinstance(test, ast.UnaryOp) and isinstance(test.op, ast.Not):
        return split_conj(test.operand, not pol)
    if isinstance(test, ast.BoolOp):
        if (isinstance(test.op, ast.And) and pol) or (isinstance(test.op, ast.Or) and not pol):
            for v in test.values:
                out += split_conj(v, pol)
            return out
    return [(test, pol)]


def atoms_at(node, func=None):
    """atomic facts (expr, polarity) holding at node"""
    out = []
    for t, pol in path_conditions(node, func):
        out += split_conj(t, pol)
    return out


# ------------------------------------------------------------------ evaluation-order walk of one statement/expression

def eval_walk(node, state, visit, join):
    """Abstractly evaluate `node` in Python's evaluation order, calling state = visit(n, state) on each
    sub-node *after* its operands (post-order).  Conditional evaluation (IfExp, and/or, comprehension
    bodies) is joined with `join(a, b)`.  Does not descend into lambdas or nested definitions."""
    def ev(n, s):
        if n is None:
            return s
        if isinstance(n, FUNC + (ast.Lambda, ast.ClassDef)):
            return visit(n, s)
        if isinstance(n, ast.IfExp):
            s = ev(n.test, s)
            return visit(n, join(ev(n.body, s), ev(n.orelse, s)))
        if isinstance(n, ast.BoolOp):
            s = ev(n.values[0], s)
            for v in n.values[1:]:
                s = join(s, ev(v, s))
            return visit(n, s)
        if isinstance(n, ast.Assign):
            s = ev(n.value, s)
            for t in n.targets:
                s = ev(t, s)
            return visit(n, s)
        if isinstance(n, ast.AugAssign):
            s = ev(n.value, s)
            s = ev(n.target, s)
            return visit(n, s)
        if isinstance(n, ast.AnnAssign):
            s = ev(n.value, s)
            s = ev(n.target, s)
            return visit(n, s)
        if isinstance(n, (ast.ListComp, ast.SetComp, ast.GeneratorExp, ast.DictComp)):
            # the first iterable is always evaluated; everything else may run zero times
            s_first = ev(n.generators[0].iter, s)
            s2 = ev(n.generators[0].target, s_first)
            for c in n.generators[0].ifs:
                s2 = ev(c, s2)
            for g in n.generators[1:]:
                s2 = ev(g.iter, s2)
                s2 = ev(g.target, s2)
                for c in g.ifs:
                    s2 = ev(c, s2)
            if isinstance(n, ast.DictComp):
                s2 = ev(n.key, s2)
                s2 = ev(n.value, s2)
            else:
                s2 = ev(n.elt, s2)
            return visit(n, join(s_first, s2))
        if isinstance(n, ast.Call):
            s = ev(n.func, s)
            for a in n.args:
                s = ev(a, s)
            for k in n.keywords:
                s = ev(k.value, s)
            return visit(n, s)
        if isinstance(n, (ast.If, ast.While, ast.For, ast.AsyncFor, ast.Try, ast.With, ast.AsyncWith)):
            raise ValueError("eval_walk is for simple statements and expressions")
        for c in ast.iter_child_nodes(n):
            if isinstance(c, (ast.expr_context, ast.operator, ast.unaryop, ast.cmpop, ast.boolop)):
                continue
            s = ev(c, s)
        return visit(n, s)
    return ev(node, state)


def refine_bool(test, state, atom, join):
    """Path-sensitive refinement through not/and/or.  atom(expr, polarity, state) -> refined state or None
    (None = this arm is infeasible).  Returns (state_if_true, state_if_false)."""
    if state is None:
        return None, None
    if isinstance(test, ast.UnaryOp) and isinstance(test.op, ast.Not):
        t, f = refine_bool(test.operand, state, atom, join)
        return f, t
    if isinstance(test, ast.BoolOp):
        is_and = isinstance(test.op, ast.And)
        cur = state          # state in which the next operand is evaluated
        short = None         # join of the short-circuit exits
        for v in test.values:
            t, f = refine_bool(v, cur, atom, join)
            if is_and:
                short = f if short is None else (short if f is None else join(short, f))
                cur = t
            else:
                short = t if short is None else (short if t is None else join(short, t))
                cur = f
            if cur is None:
                break
        return (cur, short) if is_and else (short, cur)
    return atom(test, True, state), atom(test, False, state)



def count_paths(node, pred):
    """set of possible numbers of evaluated calls matching pred when `node` (a simple statement or expression)
    is evaluated once: conditional sub-expressions (a if c else b, and/or, comprehension bodies) fork"""
    def visit(n, st):
        if isinstance(n, ast.Call) and pred(n):
            return frozenset(x + 1 for x in st)
        return st
    return eval_walk(node, frozenset([0]), visit, lambda a, b: a | b)


# ------------------------------------------------------------------ spelling-independent view of a function's results

def return_alts(fnode):
    """[(facts, value expression, return node)] for every alternative result of fnode, independent of whether a choice is
    written as `if c: return A` / `return B` or as `return A if c else B`.  facts: [(expr, polarity)] holding for it."""
    out = []
    for r in [n for n in walk_local(fnode) if isinstance(n, ast.Return)]:
        base = []
        for t, pol in path_conditions(r, fnode):
            base += split_conj(t, pol)

        def alts(v, facts):
            if isinstance(v, ast.IfExp):
                return alts(v.body, facts + split_conj(v.test, True)) + alts(v.orelse, facts + split_conj(v.test, False))
            return [(facts, v, r)]
        v = r.value
        # single-exit spelling: `result = A ... result = B ... return result` -> one alternative per assignment of the result variable
        if isinstance(v, ast.Name):
            defs = [a for a in walk_local(fnode) if isinstance(a, ast.Assign) and len(a.targets) == 1 and isinstance(a.targets[0], ast.Name) and a.targets[0].id == v.id]
            if len(defs) >= 2 and all(pos(d) < pos(r) for d in defs):
                for d in defs:
                    df = list(base)
                    for t, pol in path_conditions(d, fnode):
                        df += split_conj(t, pol)
                    out += [(f_, e_, r) for f_, e_, _r in alts(d.value, df)]
                continue
        out += alts(v, base) if v is not None else [(base, None, r)]
    return out
