"""Semantics-preserving normalisation of the parsed modules, applied before any rule looks at them.

The rules of this checker reason about the *shape* of the anchored functions.  Maintenance edits that do not
change behaviour - extracting a helper, naming a condition, writing a conditional expression as a statement -
change that shape.  Instead of teaching every rule every spelling, the tree is first brought to a normal form:

N1  helpers that are NEW with respect to the reviewed function inventory (`sa/inventory.json`: every function
    of the tree the rules were confirmed on) are inlined at their call sites when that is possible without
    changing behaviour (tail call, assignment, statement, or expression-bodied helper).  Functions of the
    inventory keep their identity: rules address them by role.
N2  a local that is assigned once from a side-effect-free boolean/relational expression and only used in
    branch conditions that follow it directly ("named condition") is replaced by that expression.
(Conditional expressions versus if statements are NOT normalised: rules that look at returns enumerate the
alternatives of both spellings through flow.return_alts.)

Every pass is conservative: when a precondition is not met the code is left as it is.  The normal form is
only what the rules see; reports cite the original line numbers of the statements involved.
"""
import ast
import copy as _copy_mod
import json
import os

_SHARED = (ast.expr_context, ast.boolop, ast.operator, ast.unaryop, ast.cmpop)


def _clone(node):
    """deep copy of a syntax tree fragment (the per-interpreter singletons Load/Store/Add/... stay shared)"""
    if isinstance(node, list):
        return [_clone(x) for x in node]
    if not isinstance(node, ast.AST) or isinstance(node, _SHARED):
        return node
    new = type(node)()
    for k, v in node.__dict__.items():
        if k in ("_parent", "_fi"):
            continue
        setattr(new, k, _clone(v))
    return new


class copy:          # local stand-in so that every copy made here goes through _clone
    deepcopy = staticmethod(_clone)


FUNC = (ast.FunctionDef, ast.AsyncFunctionDef)
PURE_CALLS = {"isinstance", "issubclass", "callable", "len", "type", "bool", "hasattr", "id", "safe_eq", "is_list", "is_dict", "is_atom", "is_empty",
              "cmatch", "cmatch2", "cpeek", "cpeek2", "in_map"}

_INV = None


def _load_inventory():
    p = os.path.join(os.path.dirname(os.path.abspath(__file__)), "inventory.json")
    try:
        d = json.load(open(p))
    except Exception:
        return None
    if isinstance(d, list):
        d = {"functions": {fq: {} for fq in d}, "attrs": {}}
    return d


_INV_FULL = None


def inventory():
    """names (module:qualname) of the functions of the reviewed tree"""
    global _INV, _INV_FULL
    if _INV is None:
        _INV_FULL = _load_inventory()
        if _INV_FULL is None:
            return None
        _INV = set(_INV_FULL["functions"])
    return _INV


def fingerprint(fn):
    """what a function looks like apart from its name: number of parameters and the names it calls / attributes it touches"""
    bag = set()
    for n in ast.walk(fn):
        if isinstance(n, ast.Attribute):
            bag.add("." + n.attr)
        elif isinstance(n, ast.Call) and isinstance(n.func, ast.Name):
            bag.add(n.func.id + "()")
        elif isinstance(n, ast.Constant) and isinstance(n.value, str) and 0 < len(n.value) <= 24:
            bag.add(repr(n.value))
    return {"nparams": len(fn.args.posonlyargs + fn.args.args), "bag": sorted(bag)}


def scan(trees):
    """{module:qual: FunctionDef} for top-level functions and methods; {module:Class: set(self attributes stored)}"""
    funcs, attrs = {}, {}
    for mod, tree in trees.items():
        def visit(body, prefix, cls):
            for n in body:
                if isinstance(n, ast.ClassDef):
                    visit(n.body, prefix + n.name + ".", n.name if cls is None else cls)
                    st = attrs.setdefault(f"{mod}:{prefix}{n.name}", set())
                    for x in ast.walk(n):
                        if isinstance(x, ast.Attribute) and isinstance(x.ctx, ast.Store) and isinstance(x.value, ast.Name) and x.value.id == "self":
                            st.add(x.attr)
                elif isinstance(n, FUNC):
                    funcs[f"{mod}:{prefix}{n.name}"] = n
        visit(tree.body, "", None)
    return funcs, attrs


def undo_renames(trees):
    """N0: a function (method) or a self attribute of the reviewed tree that has vanished while a new one appeared in the same scope
    is a rename; the new name is replaced by the reviewed one everywhere, so that rules keep finding what they were confirmed on.
    Pairing: 1-1 per scope directly, otherwise by the fingerprint stored in the inventory.  -> {new name: old name}"""
    inventory()
    if _INV_FULL is None:
        return {}
    inv_f, inv_a = _INV_FULL["functions"], _INV_FULL.get("attrs", {})
    funcs, attrs = scan(trees)
    ren_f, ren_a = {}, {}
    scopes = {}
    for fq in inv_f:
        mod, qual = fq.split(":")
        if "." in qual and qual.rsplit(".", 1)[0] + "" and fq.count(".") > 1 and f"{mod}:{qual.rsplit('.', 1)[0]}" in inv_f:
            continue          # nested function (closure): its enclosing function is itself inventoried
        scopes.setdefault((mod, qual.rsplit(".", 1)[0] if "." in qual else ""), [set(), set()])[0].add(fq)
    for fq in funcs:
        mod, qual = fq.split(":")
        scopes.setdefault((mod, qual.rsplit(".", 1)[0] if "." in qual else ""), [set(), set()])[1].add(fq)
    all_old_names = {fq.split(":")[1].rsplit(".", 1)[-1] for fq in inv_f}
    for (mod, scope), (old, now) in scopes.items():
        if mod not in trees:
            continue
        vanished, new = sorted(old - now), sorted(now - old)
        if not vanished or not new:
            continue
        pairs = []
        if len(vanished) == 1 and len(new) == 1:
            pairs = [(new[0], vanished[0])]
        else:
            cand = []
            for nf in new:
                fp = fingerprint(funcs[nf])
                for vf in vanished:
                    of = inv_f.get(vf) or {}
                    if not of or of.get("nparams") != fp["nparams"]:
                        continue
                    a, b = set(fp["bag"]), set(of.get("bag", []))
                    j = len(a & b) / max(1, len(a | b))
                    cand.append((j, nf, vf))
            used_n, used_v = set(), set()
            for j, nf, vf in sorted(cand, reverse=True):
                if j >= 0.6 and nf not in used_n and vf not in used_v:
                    pairs.append((nf, vf))
                    used_n.add(nf)
                    used_v.add(vf)
        for nf, vf in pairs:
            nn, on = nf.split(":")[1].rsplit(".", 1)[-1], vf.split(":")[1].rsplit(".", 1)[-1]
            if nn not in all_old_names and nn not in ren_f:
                ren_f[nn] = on
    all_old_attrs = {a for v in inv_a.values() for a in v}
    for cls, old in inv_a.items():
        now = attrs.get(cls)
        if now is None:
            continue
        vanished, new = sorted(set(old) - now), sorted(now - set(old))
        if len(vanished) == 1 and len(new) == 1 and new[0] not in all_old_attrs and new[0] not in all_old_names:
            ren_a[new[0]] = vanished[0]
    if not ren_f and not ren_a:
        return {}
    for tree in trees.values():
        for n in ast.walk(tree):
            if isinstance(n, FUNC) and n.name in ren_f:
                n.name = ren_f[n.name]
            elif isinstance(n, ast.Attribute):
                if n.attr in ren_f:
                    n.attr = ren_f[n.attr]
                elif n.attr in ren_a:
                    n.attr = ren_a[n.attr]
            elif isinstance(n, ast.Name) and n.id in ren_f:
                n.id = ren_f[n.id]
            elif isinstance(n, ast.alias) and n.name in ren_f:
                n.name = ren_f[n.name]
            elif isinstance(n, ast.keyword) and n.arg in ren_f:
                pass
    return {"functions": ren_f, "attributes": ren_a}


# ------------------------------------------------------------------ helpers

def _always_exits(stmts):
    for st in stmts:
        if isinstance(st, (ast.Return, ast.Raise, ast.Continue, ast.Break)):
            return True
        if isinstance(st, ast.If) and st.orelse and _always_exits(st.body) and _always_exits(st.orelse):
            return True
        if isinstance(st, ast.Try) and not st.finalbody and _always_exits(st.body) and all(_always_exits(h.body) for h in st.handlers) and not st.orelse:
            return True
    return False


def _always_returns(stmts):
    """every way through ends in return/raise (no break/continue counted)"""
    for st in stmts:
        if isinstance(st, (ast.Return, ast.Raise)):
            return True
        if isinstance(st, ast.If) and st.orelse and _always_returns(st.body) and _always_returns(st.orelse):
            return True
        if isinstance(st, ast.Try) and not st.finalbody and not st.orelse and _always_returns(st.body) and all(_always_returns(h.body) for h in st.handlers):
            return True
    return False


def _walk_local(node):
    stack = [node]
    first = True
    while stack:
        n = stack.pop()
        if not first and isinstance(n, FUNC + (ast.Lambda, ast.ClassDef)):
            continue
        first = False
        yield n
        stack.extend(ast.iter_child_nodes(n))


def _walk_local_defs(node):
    """every node of a statement, nested function/class DEFINITIONS included as nodes but not entered"""
    yield node
    if isinstance(node, FUNC + (ast.Lambda, ast.ClassDef)):
        return
    for c in ast.iter_child_nodes(node):
        yield from _walk_local_defs(c)


def _has_return_in_loop_or_with(stmts, inside=False):
    for st in stmts:
        if isinstance(st, FUNC + (ast.ClassDef,)):
            continue
        if isinstance(st, ast.Return) and inside:
            return True
        if isinstance(st, (ast.With, ast.AsyncWith)) and st is stmts[-1] and not inside:
            # a with block that ends the helper: leaving it by `return` and falling out of it are the same exit (see _conv)
            if _has_return_in_loop_or_with(st.body, False):
                return True
        elif isinstance(st, (ast.For, ast.AsyncFor, ast.While, ast.With, ast.AsyncWith)):
            if _has_return_in_loop_or_with(st.body, True) or _has_return_in_loop_or_with(getattr(st, "orelse", []) or [], True):
                return True
        elif isinstance(st, ast.If):
            if _has_return_in_loop_or_with(st.body, inside) or _has_return_in_loop_or_with(st.orelse, inside):
                return True
        elif isinstance(st, ast.Try):
            if st.finalbody and any(isinstance(n, ast.Return) for s in st.body + st.finalbody for n in _walk_local(s)):
                return True
            for blk in [st.body, st.orelse] + [h.body for h in st.handlers]:
                if _has_return_in_loop_or_with(blk, inside):
                    return True
    return False


class _NotInlinable(Exception):
    pass


def _conv(stmts, mode, target):
    """rewrite the returns of a helper body.
    mode 'tail': keep returns.  mode 'assign': `return e` -> `target = e`.  mode 'stmt': `return e` -> `e` / nothing.
    Early returns are turned into if/else nesting; returns inside loops/with are not supported (caller checks)."""
    if mode == "tail":
        return stmts
    out = []
    for i, st in enumerate(stmts):
        rest = stmts[i + 1:]
        if isinstance(st, ast.Return):
            if mode == "assign":
                val = st.value if st.value is not None else ast.Constant(value=None)
                out.append(ast.copy_location(ast.Assign(targets=[copy.deepcopy(target)], value=val, lineno=st.lineno), st))
            elif st.value is not None and any(isinstance(n, (ast.Call, ast.Await)) for n in ast.walk(st.value)):
                out.append(ast.copy_location(ast.Expr(value=st.value), st))
            return out
        if isinstance(st, ast.Raise):
            out.append(st)
            return out
        if isinstance(st, ast.If):
            body = _conv(st.body, mode, target)
            orelse = _conv(st.orelse, mode, target)
            be, oe = _always_returns(st.body), bool(st.orelse) and _always_returns(st.orelse)
            has_ret = any(isinstance(n, ast.Return) for b in (st.body, st.orelse) for s in b for n in _walk_local(s))
            if has_ret and rest and not (be and oe):
                # the statements after the if belong to the branch(es) that fall through
                tail = _conv(rest, mode, target)
                if be and not oe:
                    orelse = orelse + tail
                elif oe and not be:
                    body = body + tail
                else:
                    raise _NotInlinable("conditional return followed by code on both branches")
                new = ast.copy_location(ast.If(test=st.test, body=body or [ast.Pass()], orelse=orelse), st)
                out.append(new)
                return out
            out.append(ast.copy_location(ast.If(test=st.test, body=body or [ast.Pass()], orelse=orelse), st))
            if be and oe:
                return out
            continue
        if isinstance(st, (ast.With, ast.AsyncWith)) and any(isinstance(n, ast.Return) for s in st.body for n in _walk_local(s)):
            if rest:
                raise _NotInlinable("return inside with followed by code")
            new = type(st)(items=st.items, body=_conv(st.body, mode, target) or [ast.copy_location(ast.Pass(), st)])
            out.append(ast.copy_location(new, st))
            return out
        if isinstance(st, ast.Try):
            has_ret = any(isinstance(n, ast.Return) for s in st.body + st.orelse + [x for h in st.handlers for x in h.body] for n in _walk_local(s))
            if has_ret:
                blocks_exit = _always_returns(st.body) or (bool(st.orelse) and _always_returns(st.orelse))
                all_exit = blocks_exit and all(_always_returns(h.body) for h in st.handlers)
                if rest and not all_exit:
                    # supported: the protected part falls through, every handler leaves -> the rest runs as the try's `else`
                    body_ret = any(isinstance(n, ast.Return) for s in st.body + st.orelse for n in _walk_local(s))
                    if body_ret or st.finalbody or not all(_always_returns(h.body) for h in st.handlers):
                        raise _NotInlinable("return inside try followed by code")
                    new = ast.Try(body=st.body,
                                  handlers=[ast.copy_location(ast.ExceptHandler(type=h.type, name=h.name, body=_conv(h.body, mode, target) or [ast.Pass()]), h) for h in st.handlers],
                                  orelse=st.orelse + _conv(rest, mode, target), finalbody=[])
                    out.append(ast.copy_location(new, st))
                    return out
                new = ast.Try(body=_conv(st.body, mode, target) or [ast.Pass()],
                              handlers=[ast.copy_location(ast.ExceptHandler(type=h.type, name=h.name, body=_conv(h.body, mode, target) or [ast.Pass()]), h) for h in st.handlers],
                              orelse=_conv(st.orelse, mode, target), finalbody=st.finalbody)
                out.append(ast.copy_location(new, st))
                if all_exit:
                    return out
                continue
        out.append(st)
    return out


class _Renamer(ast.NodeTransformer):
    def __init__(self, mapping):
        self.mapping = mapping     # name -> replacement expression (ast) or new name (str)

    def visit_Call(self, node):
        self.generic_visit(node)
        # f(*(a, b)) -> f(a, b)
        args = []
        for x in node.args:
            if isinstance(x, ast.Starred) and isinstance(x.value, ast.Tuple):
                args += x.value.elts
            else:
                args.append(x)
        node.args = args
        return node

    def visit_Name(self, node):
        r = self.mapping.get(node.id)
        if r is None:
            return node
        if isinstance(r, str):
            return ast.copy_location(ast.Name(id=r, ctx=node.ctx), node)
        if isinstance(node.ctx, ast.Load):
            return ast.copy_location(copy.deepcopy(r), node)
        return node

    def visit_ExceptHandler(self, node):
        self.generic_visit(node)
        r = self.mapping.get(node.name) if node.name else None
        if isinstance(r, str):
            node.name = r
        return node

    def visit_FunctionDef(self, node):
        return node           # nested scopes keep their own names (free variables of closures are not renamed here)

    visit_AsyncFunctionDef = visit_FunctionDef
    visit_Lambda = visit_FunctionDef


def _simple_arg(e):
    if isinstance(e, (ast.Name, ast.Constant)):
        return True
    if isinstance(e, ast.Attribute):
        return _simple_arg(e.value)
    return False


def _bind(helper, call, is_method, keep=()):
    """-> (prefix assignments, mapping for the helper body) or raise _NotInlinable"""
    a = helper.args
    if a.kwarg or a.kwonlyargs or a.posonlyargs:
        raise _NotInlinable("signature")
    params = [p.arg for p in a.args]
    if is_method:
        if not params:
            raise _NotInlinable("no self")
        params = params[1:]
    if any(isinstance(x, ast.Starred) for x in call.args) or any(k.arg is None for k in call.keywords):
        raise _NotInlinable("star args")
    defaults = dict(zip(reversed(params), reversed(a.defaults)))
    bound = {}
    extra = None
    if len(call.args) > len(params):
        if not a.vararg:
            raise _NotInlinable("arity")
        extra = list(call.args[len(params):])
    if a.vararg:
        # *rest receives the surplus positional arguments as a tuple
        if any(isinstance(n, ast.Name) and n.id == a.vararg.arg and isinstance(n.ctx, (ast.Store, ast.Del)) for s_ in helper.body for n in ast.walk(s_)):
            raise _NotInlinable("vararg rebound")
        if any(not _simple_arg(x) for x in (extra or [])):
            raise _NotInlinable("vararg with non-trivial arguments")
    for p, v in zip(params, call.args):
        bound[p] = v
    for k in call.keywords:
        if k.arg not in params or k.arg in bound:
            raise _NotInlinable("keyword")
        bound[k.arg] = k.value
    for p in params:
        if p not in bound:
            if p not in defaults:
                raise _NotInlinable("missing argument")
            if not isinstance(defaults[p], ast.Constant):
                # a default is evaluated ONCE, when the function is defined (`def h(e, route=route)` pins the route of that iteration;
                # `def f(x, acc=[])` shares one list): putting its expression at the call site would evaluate it later and again
                raise _NotInlinable("default value is not a literal")
            bound[p] = defaults[p]
    body_nodes = [n for s in helper.body for n in _walk_local(s)]
    stored = {n.id for n in body_nodes if isinstance(n, ast.Name) and isinstance(n.ctx, (ast.Store, ast.Del))}
    for s in helper.body:
        for n in _walk_local(s):
            if isinstance(n, ast.ExceptHandler) and n.name:
                stored.add(n.name)
            if isinstance(n, (ast.Global, ast.Nonlocal)):
                raise _NotInlinable("global/nonlocal")
    # nested closures of the helper reading its parameters/locals: leave alone
    for s in helper.body:
        for n in ast.walk(s):
            if isinstance(n, FUNC + (ast.Lambda,)):
                raise _NotInlinable("nested scope in helper")
    loads = {}
    for n in body_nodes:
        if isinstance(n, ast.Name) and isinstance(n.ctx, ast.Load):
            loads[n.id] = loads.get(n.id, 0) + 1
    prefix, mapping = [], {}
    _bind.counter[helper.name] = _bind.counter.get(helper.name, 0) + 1
    suffix = "__" + helper.name.lstrip("_") + ("" if _bind.counter[helper.name] == 1 else str(_bind.counter[helper.name]))
    if a.vararg:
        mapping[a.vararg.arg] = ast.Tuple(elts=[copy.deepcopy(x) for x in (extra or [])], ctx=ast.Load())
    for p in params:
        v = bound[p]
        if p not in stored and (_simple_arg(v) or loads.get(p, 0) <= 1 and not any(isinstance(x, (ast.Call, ast.Await)) for x in ast.walk(v))):
            mapping[p] = v
        else:
            nm = p + suffix
            mapping[p] = nm
            prefix.append(ast.copy_location(ast.Assign(targets=[ast.Name(id=nm, ctx=ast.Store())], value=copy.deepcopy(v), lineno=call.lineno), call))
    for loc in stored - set(params):
        if loc not in keep:
            mapping[loc] = loc + suffix
    return prefix, mapping


_bind.counter = {}


def _would_capture(helper, caller):
    """a global / builtin name the helper body reads is a LOCAL name of the function it would be inlined into"""
    if caller is None or helper is caller:
        return False
    for anc in ast.walk(caller):
        if anc is helper:
            return False              # a closure of the caller: its free names are the caller's on purpose
    own = {a.arg for a in helper.args.posonlyargs + helper.args.args + helper.args.kwonlyargs}
    if helper.args.vararg:
        own.add(helper.args.vararg.arg)
    if helper.args.kwarg:
        own.add(helper.args.kwarg.arg)
    own |= {n.id for s_ in helper.body for n in _walk_local(s_) if isinstance(n, ast.Name) and isinstance(n.ctx, (ast.Store, ast.Del))}
    free = {n.id for s_ in helper.body for n in ast.walk(s_) if isinstance(n, ast.Name) and isinstance(n.ctx, ast.Load)} - own
    local = {a.arg for a in caller.args.posonlyargs + caller.args.args + caller.args.kwonlyargs}
    if caller.args.vararg:
        local.add(caller.args.vararg.arg)
    if caller.args.kwarg:
        local.add(caller.args.kwarg.arg)
    local |= {n.id for n in _walk_local(caller) if isinstance(n, ast.Name) and isinstance(n.ctx, (ast.Store, ast.Del))}
    local |= {n.name for n in _walk_local(caller) if isinstance(n, FUNC + (ast.ClassDef,)) and n is not caller}
    return bool(free & local)


class _FactoryShell:
    """what _bind needs to know of a closure factory: its signature, and a body without the nested definition"""
    def __init__(self, helper):
        self.args = helper.args
        self.name = helper.name
        self.body = [ast.Pass()]


def _helper_body(helper):
    body = list(helper.body)
    if body and isinstance(body[0], ast.Expr) and isinstance(body[0].value, ast.Constant) and isinstance(body[0].value.value, str):
        body = body[1:]
    return body


def _expr_bodied(helper):
    b = _helper_body(helper)
    if len(b) == 1 and isinstance(b[0], ast.Return) and b[0].value is not None:
        return b[0].value
    return None


class _Inliner:
    def __init__(self, modname, tree, inv):
        self.modname, self.tree, self.inv = modname, tree, inv
        self.count = 0
        self.inlined_helpers = {}      # id(helper node) -> number of call sites it was inlined at

    def new_helpers(self):
        """{(kind, owner, name): FunctionDef} for functions not in the inventory.
        A new name in a scope from which an inventory function has vanished is taken for a RENAME of that function and keeps its
        identity (rules find functions by role as well as by name); only names added on top of the reviewed ones are helpers."""
        out = {}
        present = set()
        for n in ast.walk(self.tree):
            pass
        def quals(body, prefix):
            for n in body:
                if isinstance(n, ast.ClassDef):
                    quals(n.body, prefix + n.name + ".")
                elif isinstance(n, FUNC):
                    present.add(prefix + n.name)
                    for c in ast.walk(n):
                        if isinstance(c, FUNC) and c is not n:
                            present.add(prefix + n.name + "." + c.name)
        quals(self.tree.body, "")
        vanished_scopes = set()
        klass = {c.name: c for c in self.tree.body if isinstance(c, ast.ClassDef)}

        def moved_to_base(qual):
            """Class.m is gone from Class but a base class of this module now defines m: pulled up, not renamed"""
            if qual.count(".") != 1:
                return False
            cname, m = qual.split(".")
            seen = set()
            while cname in klass and cname not in seen:
                seen.add(cname)
                bases = [b.id for b in klass[cname].bases if isinstance(b, ast.Name) and b.id in klass]
                if len(bases) != 1:
                    return False
                cname = bases[0]
                if f"{cname}.{m}" in present:
                    return True
            return False
        for fq in self.inv:
            mod, qual = fq.split(":")
            if mod == self.modname and qual not in present and not moved_to_base(qual):
                vanished_scopes.add(qual.rsplit(".", 1)[0] if "." in qual else "")
        self.vanished_scopes = vanished_scopes
        # a reviewed function that has vanished while a new one with the same make-up exists elsewhere in the module has MOVED
        # (method -> module function, class -> base class): it keeps its identity as a unit, rules find it by role
        gone = [(_INV_FULL["functions"].get(fq) or {}) for fq in self.inv if fq.split(":")[0] == self.modname and fq.split(":")[1] not in present] if _INV_FULL else []
        gone = [g for g in gone if g.get("bag")]

        def moved(n):
            if not gone:
                return False
            b_ = _helper_body(n)
            if len(b_) == 2 and isinstance(b_[0], FUNC) and isinstance(b_[1], ast.Return) and isinstance(b_[1].value, ast.Name) and b_[1].value.id == b_[0].name:
                return False          # a closure factory wrapped around a reviewed closure: taken apart at its call sites (see _hoist)
            fp = fingerprint(n)
            a = set(fp["bag"])
            return len(a) >= 4 and any(abs(g.get("nparams", -9) - fp["nparams"]) <= 1 and len(a & set(g["bag"])) / max(1, len(a | set(g["bag"]))) >= 0.8 for g in gone)

        def visit(body, prefix, cls, parent_fn):
            for n in body:
                if isinstance(n, ast.ClassDef):
                    visit(n.body, prefix + n.name + ".", n.name if cls is None else cls, parent_fn)
                elif isinstance(n, FUNC):
                    qual = prefix + n.name
                    if prefix.rstrip(".") in vanished_scopes or (f"{self.modname}:{qual}" not in self.inv and moved(n)):
                        nested(n, prefix + n.name + ".", cls, n)
                        continue
                    if f"{self.modname}:{qual}" not in self.inv and not n.decorator_list or \
                            (f"{self.modname}:{qual}" not in self.inv and all(isinstance(d, ast.Name) and d.id == "staticmethod" for d in n.decorator_list)):
                        static = any(isinstance(d, ast.Name) and d.id == "staticmethod" for d in n.decorator_list)
                        if parent_fn is not None:
                            out[("closure", parent_fn, n.name)] = (n, False)
                        elif cls is not None:
                            out[("method", cls, n.name)] = (n, not static)
                        else:
                            out[("function", None, n.name)] = (n, False)
                    nested(n, prefix + n.name + ".", cls, n)

        def nested(fnode, prefix, cls, parent):
            for st in fnode.body:
                for c in ast.walk(st):
                    if isinstance(c, FUNC) and c is not fnode:
                        qual = prefix + c.name
                        if f"{self.modname}:{qual}" not in self.inv and not c.decorator_list:
                            out.setdefault(("closure", parent, c.name), (c, False))
        visit(self.tree.body, "", None, None)
        # a name that is defined more than once in its scope (conditional definitions), or that is also bound by an assignment /
        # import / loop there, does not denote ONE function: calls of it are left alone
        for key in list(out):
            kind, owner, name = key
            node = out[key][0]
            if kind == "closure":
                scope_nodes = [x for st_ in owner.body for x in _walk_local_defs(st_)]
            elif kind == "method":
                scope_nodes = [x for c_ in ast.walk(self.tree) if isinstance(c_, ast.ClassDef) and c_.name == owner for x in c_.body]
            else:
                scope_nodes = list(self.tree.body) + [x for st_ in self.tree.body if isinstance(st_, (ast.If, ast.Try)) for x in _walk_local_defs(st_)]
            n_defs = sum(1 for x in scope_nodes if isinstance(x, FUNC + (ast.ClassDef,)) and x.name == name)
            rebound = any(isinstance(x, ast.Name) and x.id == name and isinstance(x.ctx, (ast.Store, ast.Del)) for x in scope_nodes) or \
                any(isinstance(x, ast.alias) and (x.asname or x.name) == name for x in scope_nodes)
            if n_defs != 1 or rebound:
                del out[key]
        return out

    def resolve(self, call, cls, fn_stack, helpers):
        f = call.func
        if isinstance(f, ast.Name):
            for owner in reversed(fn_stack):
                h = helpers.get(("closure", owner, f.id))
                if h:
                    return h
            return helpers.get(("function", None, f.id))
        if isinstance(f, ast.Attribute) and isinstance(f.value, ast.Name) and cls is not None and f.value.id in ("self", cls):
            return self._method_helper(cls, f.attr, helpers)
        if isinstance(f, ast.Attribute) and isinstance(f.value, ast.Name) and ("method", f.value.id, f.attr) in helpers and not any(
                f.value.id in {a.arg for a in o.args.args} for o in fn_stack):
            # Class.method(obj, ..) / Class.static_method(..): the receiver, if any, is an ordinary first argument
            return (helpers[("method", f.value.id, f.attr)][0], False)
        return None

    def _class_table(self):
        if not hasattr(self, "_classes"):
            self._classes = {c.name: c for c in ast.walk(self.tree) if isinstance(c, ast.ClassDef)}
        return self._classes

    def _method_helper(self, cls, name, helpers):
        """the new method `self.<name>` denotes inside class cls: defined by cls itself or inherited from a base class of this module,
        and overridden by no class of the module that derives from where it is defined (a virtual call is not ONE function)"""
        classes = self._class_table()

        def defines(cname):
            c = classes.get(cname)
            return c is not None and any((isinstance(x, FUNC) and x.name == name) or
                                         (isinstance(x, ast.Assign) and any(isinstance(t, ast.Name) and t.id == name for t in x.targets)) for x in c.body)
        owner, seen = cls, set()
        while owner is not None and not defines(owner) and owner not in seen:
            seen.add(owner)
            c = classes.get(owner)
            bases = [b.id for b in (c.bases if c is not None else []) if isinstance(b, ast.Name)]
            if len(bases) != 1 or bases[0] not in classes:
                return None
            owner = bases[0]
        h = helpers.get(("method", owner, name))
        if h is None:
            return None
        # every class below the owner (and the class the call is made from lies below it) must leave the method alone
        below, changed = {owner}, True
        while changed:
            changed = False
            for cname, c in classes.items():
                if cname not in below and any(isinstance(b, ast.Name) and b.id in below for b in c.bases):
                    below.add(cname)
                    changed = True
        if any(defines(cname) for cname in below if cname != owner):
            return None
        return h

    def run(self):
        _bind.counter = {}
        helpers = self.new_helpers()
        # recursive helpers (directly or through other new helpers) cannot be inlined away
        names = {}
        for key, (node, _m) in helpers.items():
            names.setdefault(key[2], []).append(key)
        calls = {}
        for key, (node, _m) in helpers.items():
            cs = set()
            for x in ast.walk(node):
                if isinstance(x, ast.Call):
                    nm = x.func.id if isinstance(x.func, ast.Name) else (x.func.attr if isinstance(x.func, ast.Attribute) else None)
                    if nm in names:
                        cs |= set(names[nm])
            calls[key] = cs
        for key in list(helpers):
            seen, work = set(), list(calls[key])
            while work:
                k2 = work.pop()
                if k2 in seen:
                    continue
                seen.add(k2)
                work += list(calls.get(k2, ()))
            if key in seen:
                del helpers[key]
        if not helpers:
            return 0
        for _ in range(3):
            before = self.count
            self._block_owner(self.tree.body, None, [], helpers)
            if self.count == before:
                break
        # a new helper that has been inlined at every place it is mentioned no longer exists as a unit of its own
        self.removed = []
        for (kind, owner, name), (node, _m) in list(helpers.items()):
            inside = {id(x) for x in ast.walk(node)}
            refs = 0
            for x in ast.walk(self.tree):
                if id(x) in inside:
                    continue
                if kind == "method" and isinstance(x, ast.Attribute) and x.attr == name:
                    refs += 1
                elif kind in ("function", "closure") and isinstance(x, ast.Name) and x.id == name:
                    refs += 1
            if refs == 0 and self.inlined_helpers.get(id(node)):
                for parent in ast.walk(self.tree):
                    for fld in ("body", "orelse", "finalbody"):
                        lst = getattr(parent, fld, None)
                        if isinstance(lst, list) and node in lst:
                            lst[lst.index(node)] = ast.copy_location(ast.Pass(), node)
                            self.removed.append(name)
        return self.count

    # -- statement-level inlining
    def _block_owner(self, body, cls, fn_stack, helpers):
        i = 0
        while i < len(body):
            st = body[i]
            if isinstance(st, ast.ClassDef):
                self._block_owner(st.body, st.name if cls is None else cls, fn_stack, helpers)
            elif isinstance(st, FUNC):
                self._block_owner(st.body, cls, fn_stack + [st], helpers)
            elif fn_stack:
                repl = self._try_generator(st, cls, fn_stack, helpers) if isinstance(st, ast.For) else None
                if repl is not None:
                    body[i:i + 1] = repl
                    self.count += 1
                    continue
                repl = self._try_stmt(st, cls, fn_stack, helpers)
                if repl is not None:
                    body[i:i + 1] = repl
                    self.count += 1
                    continue          # re-examine the spliced statements
                self._expr_inline(st, cls, fn_stack, helpers)
                hoisted = self._hoist(st, cls, fn_stack, helpers)
                if hoisted is not None:
                    body[i:i + 1] = hoisted
                    continue          # the hoisted `tmp = helper(..)` is inlined on re-examination
                for fld in ("body", "orelse", "finalbody"):
                    sub = getattr(st, fld, None)
                    if isinstance(sub, list) and sub and isinstance(sub[0], ast.stmt):
                        self._block_owner(sub, cls, fn_stack, helpers)
                for h in getattr(st, "handlers", []) or []:
                    self._block_owner(h.body, cls, fn_stack, helpers)
            i += 1

    def _try_generator(self, st, cls, fn_stack, helpers):
        """`for T in gen(args): B` with gen a NEW generator function: gen's text with every `yield e` replaced by `T = e; B`.
        gen: yields only as statements, no return, no yield from; the loop: no else, and B does not break/continue/return/yield
        (B runs where the yield stood, so leaving it early would have to close the generator)."""
        if st.orelse or not isinstance(st.iter, ast.Call):
            return None
        h = self.resolve(st.iter, cls, fn_stack, helpers)
        if h is None:
            return None
        helper, is_method = h
        if helper in fn_stack or isinstance(helper, ast.AsyncFunctionDef) or _would_capture(helper, fn_stack[-1]):
            return None
        gbody = _helper_body(helper)
        nodes = [n for s_ in gbody for n in _walk_local(s_)]
        yields = [n for n in nodes if isinstance(n, ast.Yield)]
        if not yields or len(yields) > 3 or any(isinstance(n, (ast.YieldFrom, ast.Return)) for n in nodes):
            return None
        ystmts = [n for n in nodes if isinstance(n, ast.Expr) and isinstance(n.value, ast.Yield)]
        if len(ystmts) != len(yields) or any(y.value is None for y in yields):
            return None
        if not (isinstance(st.target, ast.Name) or (isinstance(st.target, ast.Tuple) and all(isinstance(x, ast.Name) for x in st.target.elts))):
            return None
        for n in [x for s_ in st.body for x in _walk_local(s_)]:
            if isinstance(n, (ast.Break, ast.Continue, ast.Return, ast.Yield, ast.YieldFrom, ast.Await)):
                return None
        try:
            prefix, mapping = _bind(helper, st.iter, is_method)
        except _NotInlinable:
            return None
        tnames = {x.id for x in ast.walk(st.target) if isinstance(x, ast.Name)}
        if tnames & set(v for v in mapping.values() if isinstance(v, str)):
            return None
        new = [_Renamer(mapping).visit(copy.deepcopy(s_)) for s_ in gbody]

        def put(stmts):
            out = []
            for s_ in stmts:
                if isinstance(s_, ast.Expr) and isinstance(s_.value, ast.Yield):
                    out.append(ast.copy_location(ast.Assign(targets=[copy.deepcopy(st.target)], value=s_.value.value, lineno=s_.lineno), s_))
                    out += [copy.deepcopy(b_) for b_ in st.body]
                    continue
                for fld in ("body", "orelse", "finalbody"):
                    sub = getattr(s_, fld, None)
                    if isinstance(sub, list) and sub and isinstance(sub[0], ast.stmt):
                        setattr(s_, fld, put(sub))
                for h_ in getattr(s_, "handlers", []) or []:
                    h_.body = put(h_.body)
                out.append(s_)
            return out
        out = prefix + put(new)
        for s_ in out:
            ast.fix_missing_locations(s_)
        self.inlined_helpers[id(helper)] = self.inlined_helpers.get(id(helper), 0) + 1
        return out

    def _call_of(self, e):
        if isinstance(e, ast.Await):
            e = e.value
        return e if isinstance(e, ast.Call) else None

    def _try_stmt(self, st, cls, fn_stack, helpers):
        mode = target = call = None
        if isinstance(st, ast.Return) and st.value is not None and self._call_of(st.value) is not None:
            mode, call = "tail", self._call_of(st.value)
        elif isinstance(st, ast.Assign) and len(st.targets) == 1 and self._call_of(st.value) is not None:
            mode, call, target = "assign", self._call_of(st.value), st.targets[0]
        elif isinstance(st, ast.Expr) and self._call_of(st.value) is not None:
            mode, call = "stmt", self._call_of(st.value)
        if call is None:
            return None
        h = self.resolve(call, cls, fn_stack, helpers)
        if h is None:
            return None
        helper, is_method = h
        if helper in fn_stack:
            return None               # recursion
        if _would_capture(helper, fn_stack[-1] if fn_stack else None):
            return None
        awaited = isinstance(getattr(st, "value", None), ast.Await)
        if isinstance(helper, ast.AsyncFunctionDef) != awaited:
            return None
        if any(isinstance(n, (ast.Yield, ast.YieldFrom)) for s in helper.body for n in _walk_local(s)):
            return None
        body = _helper_body(helper)
        if _expr_bodied(helper) is not None and mode != "tail":
            try:
                if not _bind(helper, call, is_method)[0]:
                    return None               # no temporaries needed: handled by the expression inliner
            except _NotInlinable:
                return None
        try:
            if mode != "tail" and _has_return_in_loop_or_with(body):
                raise _NotInlinable("return in loop/with")
            if mode == "tail" and not _always_returns(body):
                # falling off the end returns None: make it explicit
                body = body + [ast.copy_location(ast.Return(value=ast.Constant(value=None)), st)]
            # a helper local named like the variable the result is assigned to can keep its name: that variable is dead here
            keep = (target.id,) if mode == "assign" and isinstance(target, ast.Name) and not any(
                isinstance(x, ast.Name) and x.id == target.id for a in list(call.args) + [k.value for k in call.keywords] for x in ast.walk(a)) else ()
            prefix, mapping = _bind(helper, call, is_method, keep)
            body = [copy.deepcopy(s) for s in body]
            rets = [n for s_ in body for n in _walk_local(s_) if isinstance(n, ast.Return)]
            same = {n.value.id for n in rets if isinstance(n.value, ast.Name)} if rets and all(isinstance(n.value, ast.Name) for n in rets) else set()
            single_result = mode == "assign" and len(same) == 1 and _always_returns(body) and not any(p_.arg == next(iter(same)) for p_ in helper.args.args)
            # the helper's names are renamed BEFORE the caller's assignment target is put in: the target belongs to the caller
            rn = _Renamer(mapping)
            body = [rn.visit(s) for s in body]
            if single_result:
                # every exit returns the same local: run the body for its effects, then bind the result once
                rv = next(iter(same))
                rv = mapping.get(rv, rv)
                if not isinstance(rv, str):
                    raise _NotInlinable("result variable")
                new = _conv(body, "stmt", None) + [ast.copy_location(ast.Assign(targets=[copy.deepcopy(target)], value=ast.Name(id=rv, ctx=ast.Load()), lineno=st.lineno), st)]
            else:
                new = _conv(body, mode, target)
            if mode == "assign" and not _always_assigns(new, target):
                new = [ast.copy_location(ast.Assign(targets=[copy.deepcopy(target)], value=ast.Constant(value=None), lineno=st.lineno), st)] + new
        except _NotInlinable:
            return None
        _drop_self_assign(new)
        out = prefix + new
        for s in out:
            ast.fix_missing_locations(s)
        self.inlined_helpers[id(helper)] = self.inlined_helpers.get(id(helper), 0) + 1
        return out or [ast.copy_location(ast.Pass(), st)]

    def _is_factory(self, call, cls, fn_stack, helpers):
        h = self.resolve(call, cls, fn_stack, helpers)
        if h is None or h[1]:
            return False
        b = _helper_body(h[0])
        return len(b) == 2 and isinstance(b[0], FUNC) and isinstance(b[1], ast.Return) and isinstance(b[1].value, ast.Name) and b[1].value.id == b[0].name

    # -- a helper call in the middle of an expression: `return helper(a) + b` -> `tmp = helper(a); return tmp + b`
    def _hoist(self, st, cls, fn_stack, helpers):
        """only when the call is evaluated unconditionally and nothing but plain names / constants is evaluated before it"""
        if isinstance(st, (ast.Return, ast.Expr)):
            root = st.value
        elif isinstance(st, ast.Assign):
            root = st.value
        elif isinstance(st, ast.AugAssign) and isinstance(st.target, ast.Name):
            root = st.value
        elif isinstance(st, ast.If):
            root = st.test
        else:
            return None
        if root is None or (not isinstance(st, ast.If) and self._call_of(root) is not None and self.resolve(self._call_of(root), cls, fn_stack, helpers) is not None
                            and not self._is_factory(self._call_of(root), cls, fn_stack, helpers)):
            return None          # (a statement that IS the call is the statement inliner's business; an `if` test that is the call is taken out here)
        FOUND, CLEAN, DIRTY = "found", "clean", "dirty"
        outer = self

        def factory_of(call):
            """the helper is a closure factory: `def make(a, b): def inner(..): ...; return inner` -> its inner function"""
            h = outer.resolve(call, cls, fn_stack, helpers)
            if h is None or h[1]:
                return None
            helper = h[0]
            b = _helper_body(helper)
            if len(b) != 2 or not isinstance(b[0], FUNC) or not (isinstance(b[1], ast.Return) and isinstance(b[1].value, ast.Name) and b[1].value.id == b[0].name):
                return None
            inner = b[0]
            a = helper.args
            if a.vararg or a.kwarg or a.kwonlyargs or a.posonlyargs or inner.decorator_list or inner.args.vararg or inner.args.kwarg or inner.args.kwonlyargs:
                return None
            hp = {x.arg for x in a.args}
            if any(isinstance(n, ast.Name) and n.id in hp and isinstance(n.ctx, (ast.Store, ast.Del)) for n in ast.walk(inner)) or \
                    any(isinstance(n, (ast.Nonlocal, ast.Global)) for n in ast.walk(inner)):
                return None
            if hp & {x.arg for x in inner.args.args}:
                return None
            if _would_capture(helper, fn_stack[-1]):
                return None
            return helper, inner

        def usable(call):
            if factory_of(call) is not None:
                return not any(isinstance(a, ast.Starred) for a in call.args) and not any(k.arg is None for k in call.keywords)
            h = outer.resolve(call, cls, fn_stack, helpers)
            if h is None:
                return False
            helper, _m = h
            if helper in fn_stack or isinstance(helper, ast.AsyncFunctionDef) or _would_capture(helper, fn_stack[-1]):
                return False
            if any(isinstance(n, (ast.Yield, ast.YieldFrom)) for s_ in helper.body for n in _walk_local(s_)):
                return False
            if _has_return_in_loop_or_with(_helper_body(helper)):
                return False
            return not any(isinstance(a, ast.Starred) for a in call.args) and not any(k.arg is None for k in call.keywords)

        def seq(parts):
            for p_ in parts:
                r = find(p_)
                if r[0] != CLEAN:
                    return r
            return (CLEAN, None)

        def find(e):
            if e is None or isinstance(e, (ast.Name, ast.Constant)):
                return (CLEAN, None)
            if isinstance(e, ast.Call):
                if usable(e):
                    return (FOUND, e)
                if isinstance(e.func, ast.Name):
                    r = seq(list(e.args) + [k.value for k in e.keywords])
                else:
                    r = seq([e.func] + list(e.args) + [k.value for k in e.keywords])
                return r if r[0] == FOUND else (DIRTY, None)
            if isinstance(e, ast.BinOp):
                return seq([e.left, e.right])
            if isinstance(e, ast.UnaryOp):
                return find(e.operand)
            if isinstance(e, ast.Compare) and len(e.ops) == 1:
                return seq([e.left, e.comparators[0]])
            if isinstance(e, (ast.Tuple, ast.List, ast.Set)) and isinstance(getattr(e, "ctx", ast.Load()), ast.Load):
                return seq(e.elts)
            if isinstance(e, ast.Starred):
                return find(e.value)
            if isinstance(e, ast.Subscript) and isinstance(e.ctx, ast.Load):
                r = seq([e.value, e.slice])
                return r if r[0] == FOUND else (DIRTY, None)
            if isinstance(e, ast.Attribute):
                r = find(e.value)
                return r if r[0] == FOUND else (DIRTY, None)
            if isinstance(e, ast.IfExp):
                r = find(e.test)
                return r if r[0] == FOUND else (DIRTY, None)
            if isinstance(e, ast.BoolOp):
                r = find(e.values[0])
                return r if r[0] == FOUND else (DIRTY, None)
            if isinstance(e, ast.JoinedStr):
                return seq([v.value for v in e.values if isinstance(v, ast.FormattedValue)])
            return (DIRTY, None)
        kind, call = find(root)
        if kind != FOUND:
            # a closure factory has no effects of its own (it defines a function over plain arguments): it may be taken out from
            # anywhere in the statement that is evaluated unconditionally
            def uncond(e):
                yield e
                if isinstance(e, (ast.IfExp, ast.BoolOp, ast.Lambda, ast.ListComp, ast.SetComp, ast.DictComp, ast.GeneratorExp, ast.Await, ast.NamedExpr)):
                    if isinstance(e, ast.IfExp):
                        yield from uncond(e.test)
                    elif isinstance(e, ast.BoolOp):
                        yield from uncond(e.values[0])
                    return
                for c in ast.iter_child_nodes(e):
                    if isinstance(c, ast.expr):
                        yield from uncond(c)
                    elif isinstance(c, ast.keyword):
                        yield from uncond(c.value)
            call = next((c for c in uncond(root) if isinstance(c, ast.Call) and factory_of(c) is not None and c is not root and usable(c)), None)
            if call is None:
                return None
        helper = self.resolve(call, cls, fn_stack, helpers)[0]
        self._hoist_n = getattr(self, "_hoist_n", 0) + 1
        fac = factory_of(call)
        if fac is not None:
            # the inner function is defined here; what the factory's parameters were bound to becomes default values, evaluated - like
            # the factory's arguments - when this statement is reached
            _h, inner = fac
            try:
                prefix, mapping = _bind(_FactoryShell(helper), call, False)
            except _NotInlinable:
                return None
            if prefix:
                return None
            new_def = copy.deepcopy(inner)
            new_def.name = f"{inner.name}__{helper.name.lstrip('_')}{self._hoist_n}"
            used = [p_.arg for p_ in helper.args.args if any(isinstance(n, ast.Name) and n.id == p_.arg for n in ast.walk(inner))]
            for p_ in used:
                v = mapping.get(p_)
                if v is None or isinstance(v, str):
                    return None
                new_def.args.args.append(ast.arg(arg=p_, annotation=None))
                new_def.args.defaults.append(copy.deepcopy(v))
            ast.copy_location(new_def, st)
            ast.fix_missing_locations(new_def)
            _replace_node(st, call, ast.copy_location(ast.Name(id=new_def.name, ctx=ast.Load()), call))
            self.count += 1
            self.inlined_helpers[id(helper)] = self.inlined_helpers.get(id(helper), 0) + 1
            return [new_def, st]
        tmp = f"{helper.name}__r{self._hoist_n}"
        asg = ast.copy_location(ast.Assign(targets=[ast.Name(id=tmp, ctx=ast.Store())], value=call, lineno=st.lineno), st)
        _replace_node(st, call, ast.copy_location(ast.Name(id=tmp, ctx=ast.Load()), call))
        ast.fix_missing_locations(asg)
        return [asg, st]

    # -- expression-bodied helpers anywhere in an expression
    def _expr_inline(self, st, cls, fn_stack, helpers):
        outer = self

        class T(ast.NodeTransformer):
            def visit_FunctionDef(self, node):
                return node
            visit_AsyncFunctionDef = visit_FunctionDef
            visit_Lambda = visit_FunctionDef

            def visit_Await(self, node):
                # `await helper(..)` with an async helper whose body is one returned expression: that expression, evaluated here
                if isinstance(node.value, ast.Call):
                    h = outer.resolve(node.value, cls, fn_stack, helpers)
                    if h is not None and isinstance(h[0], ast.AsyncFunctionDef) and h[0] not in fn_stack and isinstance(fn_stack[-1], ast.AsyncFunctionDef) and \
                            not _would_capture(h[0], fn_stack[-1]):
                        e = _expr_bodied(h[0])
                        if e is not None:
                            for k, a in enumerate(node.value.args):
                                node.value.args[k] = self.visit(a)
                            try:
                                prefix, mapping = _bind(h[0], node.value, h[1])
                            except _NotInlinable:
                                return node
                            if not prefix:
                                outer.count += 1
                                outer.inlined_helpers[id(h[0])] = outer.inlined_helpers.get(id(h[0]), 0) + 1
                                return ast.copy_location(_Renamer(mapping).visit(copy.deepcopy(e)), node)
                            return node
                self.generic_visit(node)
                return node

            def visit_Call(self, node):
                self.generic_visit(node)
                h = outer.resolve(node, cls, fn_stack, helpers)
                if h is None:
                    return node
                helper, is_method = h
                if helper in fn_stack or isinstance(helper, ast.AsyncFunctionDef) or _would_capture(helper, fn_stack[-1]):
                    return node
                e = _expr_bodied(helper)
                if e is None:
                    return node
                try:
                    prefix, mapping = _bind(helper, node, is_method)
                except _NotInlinable:
                    return node
                if prefix:
                    return node
                outer.count += 1
                outer.inlined_helpers[id(helper)] = outer.inlined_helpers.get(id(helper), 0) + 1
                return ast.copy_location(_Renamer(mapping).visit(copy.deepcopy(e)), node)
        # only the expressions of this statement itself, not nested statement blocks
        for fld, val in ast.iter_fields(st):
            if fld in ("body", "orelse", "finalbody", "handlers"):
                continue
            if isinstance(val, ast.AST):
                setattr(st, fld, T().visit(val))
            elif isinstance(val, list):
                setattr(st, fld, [T().visit(v) if isinstance(v, ast.AST) else v for v in val])


def _drop_self_assign(stmts):
    for i, st in enumerate(stmts):
        if isinstance(st, ast.Assign) and len(st.targets) == 1 and isinstance(st.targets[0], ast.Name) and isinstance(st.value, ast.Name) and st.value.id == st.targets[0].id:
            stmts[i] = ast.copy_location(ast.Pass(), st)
        for fld in ("body", "orelse", "finalbody"):
            sub = getattr(st, fld, None)
            if isinstance(sub, list):
                _drop_self_assign(sub)
        for h in getattr(st, "handlers", []) or []:
            _drop_self_assign(h.body)


def _always_assigns(stmts, target):
    """every path through stmts that falls out of them has assigned target (or left by raise)"""
    tsrc = ast.dump(target)
    for st in stmts:
        if isinstance(st, ast.Assign) and any(ast.dump(t) == tsrc for t in st.targets):
            return True
        if isinstance(st, ast.Raise):
            return True
        if isinstance(st, ast.If) and st.orelse and _always_assigns(st.body, target) and _always_assigns(st.orelse, target):
            return True
        if isinstance(st, ast.Try) and _always_assigns(st.body, target) and all(_always_assigns(h.body, target) for h in st.handlers):
            return True
    return False


# ------------------------------------------------------------------ N2 named conditions

def _pure_cond(e, ok_names):
    if isinstance(e, ast.Constant):
        return True
    if isinstance(e, ast.Name):
        return e.id in ok_names
    if isinstance(e, ast.Attribute):
        return _pure_cond(e.value, ok_names)
    if isinstance(e, ast.BoolOp):
        return all(_pure_cond(v, ok_names) for v in e.values)
    if isinstance(e, ast.UnaryOp) and isinstance(e.op, ast.Not):
        return _pure_cond(e.operand, ok_names)
    if isinstance(e, ast.Compare):
        return _pure_cond(e.left, ok_names) and all(_pure_cond(c, ok_names) for c in e.comparators)
    if isinstance(e, ast.Subscript):
        return _pure_cond(e.value, ok_names) and (isinstance(e.slice, (ast.Constant, ast.UnaryOp)) or (isinstance(e.slice, ast.Name) and e.slice.id in ok_names))
    if isinstance(e, ast.Tuple):
        return all(_pure_cond(x, ok_names) for x in e.elts)
    if isinstance(e, ast.BinOp) and isinstance(e.op, (ast.Add, ast.Sub)):
        return _pure_cond(e.left, ok_names) and _pure_cond(e.right, ok_names)
    if isinstance(e, ast.Call):
        f = e.func
        nm = f.id if isinstance(f, ast.Name) else (f.attr if isinstance(f, ast.Attribute) else None)
        if nm in PURE_CALLS or (isinstance(f, ast.Attribute) and nm and nm.startswith(("is_", "has_"))):
            return all(_pure_cond(a, ok_names) for a in e.args) and not e.keywords and (isinstance(f, ast.Name) or _pure_cond(f.value, ok_names))
    return False


def _is_boolish(e):
    # (a plain load such as `table[key][0]` named and tested in the next statement is a named condition too)
    return isinstance(e, (ast.BoolOp, ast.Compare, ast.Subscript)) or (isinstance(e, ast.UnaryOp) and isinstance(e.op, ast.Not)) or \
        (isinstance(e, ast.Call) and ((isinstance(e.func, ast.Name) and e.func.id in ("isinstance", "issubclass", "callable", "hasattr", "cmatch", "cmatch2", "safe_eq", "in_map")) or
                                      (isinstance(e.func, ast.Attribute) and e.func.attr.startswith(("is_", "has_")))))


def _named_conditions(fn):
    """substitute single-assignment boolean locals used only in the tests that directly follow their definition"""
    n_done = 0
    for _ in range(4):
        changed = False
        stores, loads = {}, {}
        for n in _walk_local(fn):
            if isinstance(n, ast.Name):
                (stores if isinstance(n.ctx, (ast.Store, ast.Del)) else loads).setdefault(n.id, []).append(n)
        params = {a.arg for a in fn.args.posonlyargs + fn.args.args + fn.args.kwonlyargs}
        nested_reads = {x.id for n in ast.walk(fn) if isinstance(n, FUNC + (ast.Lambda,)) and n is not fn for x in ast.walk(n) if isinstance(x, ast.Name)}
        for blk in _blocks(fn):
            for i, st in enumerate(blk):
                if not (isinstance(st, ast.Assign) and len(st.targets) == 1 and isinstance(st.targets[0], ast.Name)):
                    continue
                v = st.targets[0].id
                if len(stores.get(v, [])) != 1 or v in params or v in nested_reads or not _is_boolish(st.value):
                    continue
                # the uses directly follow the definition (checked below), so the operands cannot change in between: any name may occur
                if not _pure_cond(st.value, {x.id for x in ast.walk(st.value) if isinstance(x, ast.Name)}):
                    continue
                # uses: only in tests / other named conditions of the statements that directly follow, in the same block
                uses = loads.get(v, [])
                if not uses:
                    continue
                allowed = set()
                j = i + 1
                while j < len(blk):
                    nxt = blk[j]
                    if isinstance(nxt, ast.Assign) and len(nxt.targets) == 1 and isinstance(nxt.targets[0], ast.Name) and _is_boolish(nxt.value):
                        allowed |= {id(x) for x in ast.walk(nxt.value)}
                        j += 1
                        continue
                    if isinstance(nxt, ast.Assert):
                        allowed |= {id(x) for x in ast.walk(nxt.test)}
                        j += 1
                        continue
                    if isinstance(nxt, (ast.If, ast.While)):
                        allowed |= {id(x) for x in ast.walk(nxt.test)}
                        # elif chains: tests of nested orelse ifs are evaluated without anything in between
                        o = nxt
                        while isinstance(o, ast.If) and len(o.orelse) == 1 and isinstance(o.orelse[0], ast.If):
                            o = o.orelse[0]
                            allowed |= {id(x) for x in ast.walk(o.test)}
                    elif isinstance(nxt, (ast.Return, ast.Assign, ast.Expr)) and isinstance(getattr(nxt, "value", None), ast.IfExp):
                        allowed |= {id(x) for x in ast.walk(nxt.value.test)}
                    break
                if not all(id(u) in allowed for u in uses):
                    continue
                for u in uses:
                    _replace_node(fn, u, copy.deepcopy(st.value))
                blk[i] = ast.copy_location(ast.Pass(), st)
                changed = True
                n_done += 1
                break
            if changed:
                break
        if not changed:
            break
    return n_done


def _blocks(fn):
    out = []
    stack = [fn]
    first = True
    while stack:
        n = stack.pop()
        if not first and isinstance(n, FUNC + (ast.Lambda, ast.ClassDef)):
            continue
        first = False
        for fld in ("body", "orelse", "finalbody"):
            lst = getattr(n, fld, None)
            if isinstance(lst, list) and lst and isinstance(lst[0], ast.stmt):
                out.append(lst)
        for h in getattr(n, "handlers", []) or []:
            out.append(h.body)
        stack.extend(ast.iter_child_nodes(n))
    return out


def _replace_node(root, old, new):
    for parent in ast.walk(root):
        for fld, val in ast.iter_fields(parent):
            if val is old:
                setattr(parent, fld, ast.copy_location(new, old))
                return True
            if isinstance(val, list):
                for k, x in enumerate(val):
                    if x is old:
                        val[k] = ast.copy_location(new, old)
                        return True
    return False


# ------------------------------------------------------------------ which parameters can a repo function change? (by function name, over all modules)

_CLASS_CTORS = set()
PARAM_MUTATION = None        # {function name: set of parameter names that may be changed in place, "*" = unknown}, filled by summarize_mutation()
_BUILTIN_READONLY = PURE_CALLS | {"len", "str", "repr", "int", "float", "list", "tuple", "sorted", "min", "max", "sum", "any", "all", "enumerate", "zip", "range",
                                  "print", "format", "ord", "chr", "abs", "iter", "next", "reversed", "set", "frozenset", "dict", "getattr", "hasattr"}


def summarize_mutation(trees):
    """fixpoint over all functions of all modules: a parameter may be changed if the function stores into it / calls a mutator on it /
    hands it to a callee that may change the corresponding parameter (unknown callees are assumed to)"""
    global PARAM_MUTATION
    fns = {}
    for tree in trees:
        for n in ast.walk(tree):
            if isinstance(n, FUNC):
                fns.setdefault(n.name, []).append(n)
            elif isinstance(n, ast.ClassDef):
                # calling a class runs its __init__ (or an inherited one: unknown -> conservative)
                inits = [m for m in n.body if isinstance(m, FUNC) and m.name == "__init__"]
                if inits:
                    fns.setdefault(n.name, []).extend(inits)
                    _CLASS_CTORS.add(n.name)
    summ = {name: set() for name in fns}

    def params_of(fn):
        a = fn.args
        ps = [p.arg for p in a.posonlyargs + a.args]
        return ps

    changed = True
    rounds = 0
    while changed and rounds < 8:
        changed = False
        rounds += 1
        for name, defs in fns.items():
            for fn in defs:
                ps = params_of(fn)
                pset = set(ps)
                for x in _walk_local(fn):
                    hit = set()
                    if isinstance(x, (ast.Subscript, ast.Attribute)) and isinstance(x.ctx, (ast.Store, ast.Del)):
                        b_ = x.value
                        while isinstance(b_, (ast.Subscript, ast.Attribute)):
                            b_ = b_.value
                        if isinstance(b_, ast.Name) and b_.id in pset:
                            hit.add(b_.id)
                    elif isinstance(x, ast.Call):
                        f_ = x.func
                        nm = f_.id if isinstance(f_, ast.Name) else (f_.attr if isinstance(f_, ast.Attribute) else None)
                        if isinstance(f_, ast.Attribute) and nm in MUTATORS and isinstance(f_.value, ast.Name) and f_.value.id in pset:
                            hit.add(f_.value.id)
                        if nm in _BUILTIN_READONLY or (isinstance(f_, ast.Attribute) and nm and nm.startswith(("is_", "has_", "starts", "ends", "isnumeric", "isalpha", "isdigit"))):
                            continue
                        callee_defs = fns.get(nm)
                        for k, a_ in enumerate(x.args):
                            if isinstance(a_, ast.Name) and a_.id in pset:
                                if not callee_defs:
                                    hit.add(a_.id)          # unknown callee
                                else:
                                    for cd in callee_defs:
                                        cps = params_of(cd)
                                        off = 1 if (cps[:1] == ["self"] and (isinstance(f_, ast.Attribute) or nm in _CLASS_CTORS)) else 0
                                        if k + off >= len(cps) or cps[k + off] in summ[nm] or cd.args.vararg:
                                            hit.add(a_.id)
                        for kw in x.keywords:
                            if isinstance(kw.value, ast.Name) and kw.value.id in pset:
                                if not callee_defs or kw.arg is None or kw.arg in summ.get(nm, ()):
                                    hit.add(kw.value.id)
                    new = hit - summ[name]
                    if new:
                        summ[name] |= new
                        changed = True
    PARAM_MUTATION = summ
    return summ


def _call_may_change(call, operand_names, length_only=False):
    """may this call change an object bound to one of operand_names (handed as argument or used as receiver)?
    length_only: the value in question depends on the operand only through len(): handing an ELEMENT of it to a callee cannot change that"""
    f_ = call.func
    nm = f_.id if isinstance(f_, ast.Name) else (f_.attr if isinstance(f_, ast.Attribute) else None)
    if nm in _BUILTIN_READONLY or (isinstance(f_, ast.Attribute) and nm and nm.startswith(("is_", "has_", "starts", "ends", "isnumeric", "isalpha", "isdigit"))):
        return False
    if isinstance(f_, ast.Attribute) and any(isinstance(n_, ast.Name) and n_.id in operand_names for n_ in ast.walk(f_.value)):
        return True               # a method of the object itself
    summ = PARAM_MUTATION
    for k, a_ in enumerate(call.args):
        names = {n_.id for n_ in ast.walk(a_) if isinstance(n_, ast.Name)} & operand_names
        if not names:
            continue
        if length_only and isinstance(a_, ast.Subscript) and isinstance(a_.value, ast.Name) and not isinstance(a_.slice, ast.Slice) and \
                not ({n_.id for n_ in ast.walk(a_.slice) if isinstance(n_, ast.Name)} & operand_names):
            continue
        if summ is None or nm not in summ or not isinstance(a_, ast.Name):
            return True
        ok_all = True
        for cd_params in _PARAMS_BY_NAME.get(nm, []):
            off = 1 if (cd_params[:1] == ["self"] and (isinstance(f_, ast.Attribute) or nm in _CLASS_CTORS)) else 0
            if k + off >= len(cd_params) or cd_params[k + off] in summ[nm]:
                ok_all = False
        if not ok_all or not _PARAMS_BY_NAME.get(nm):
            return True
    for kw in call.keywords:
        names = {n_.id for n_ in ast.walk(kw.value) if isinstance(n_, ast.Name)} & operand_names
        if names and (summ is None or nm not in summ or kw.arg is None or kw.arg in summ[nm]):
            return True
    return False


_PARAMS_BY_NAME = {}


_BUILTIN_BASES = {"dict": dict, "list": list, "object": object, "set": set, "tuple": tuple, "str": str, "Exception": Exception}


def flatten_new_bases(modname, tree, inv):
    """N19: a NEW class of this module (none of its functions is in the reviewed inventory) that is used for nothing but as a base
    class (a mixin, a pulled-up base): its methods are copied into each class deriving from it and it is dropped from their bases.
    Sound when the methods do not use super()/__class__, the new class has no bases of its own (or only `object`), holds nothing but
    methods, and no base listed BEFORE it in a subclass defines a copied name (the copy must win exactly where the mixin won)."""
    if inv is None:
        return 0
    classes = {c.name: c for c in tree.body if isinstance(c, ast.ClassDef)}
    n_done = 0
    for bname, B in list(classes.items()):
        if any(k.startswith(f"{modname}:{bname}.") for k in inv) or B.decorator_list or B.keywords:
            continue
        if any(not (isinstance(b, ast.Name) and b.id == "object") for b in B.bases):
            continue
        items = [x for x in B.body if not (isinstance(x, ast.Pass) or (isinstance(x, ast.Expr) and isinstance(x.value, ast.Constant)))]
        if not items or not all(isinstance(x, FUNC) for x in items):
            continue
        if any(isinstance(n, ast.Name) and n.id in ("super", "__class__") for x in items for n in ast.walk(x)):
            continue
        inside = {id(x) for x in ast.walk(B)}
        mentions = [x for x in ast.walk(tree) if id(x) not in inside and ((isinstance(x, ast.Name) and x.id == bname) or (isinstance(x, ast.Attribute) and x.attr == bname))]
        subs = [c for c in classes.values() if any(isinstance(b, ast.Name) and b.id == bname for b in c.bases)]
        base_mentions = {id(b) for c in subs for b in c.bases if isinstance(b, ast.Name) and b.id == bname}
        if not subs or any(id(x) not in base_mentions for x in mentions):
            continue
        names = {x.name for x in items}
        ok = True
        # nobody below may reach the base through super(): derive the set of classes below the new base
        below, grew = {bname}, True
        while grew:
            grew = False
            for cn, c in classes.items():
                if cn not in below and any(isinstance(b, ast.Name) and b.id in below for b in c.bases):
                    below.add(cn)
                    grew = True
        # ... except for the one idiom `super().__init__(..)` as a statement of a direct subclass's __init__, which is replaced by the
        # base initialiser's text
        b_init = next((x for x in items if x.name == "__init__"), None)
        init_calls = {}
        bad_super = False
        for cn in below:
            if cn == bname:
                continue
            c = classes[cn]
            sup = [n for n in ast.walk(c) if isinstance(n, ast.Name) and n.id in ("super", "__class__")]
            if not sup:
                continue
            if c not in subs or b_init is None or len(sup) != 1 or len(c.bases) != 1:
                if c in subs:
                    bad_super = True
                continue              # deeper classes reach their own parent through super(): unaffected
            k_init = next((x for x in c.body if isinstance(x, ast.FunctionDef) and x.name == "__init__"), None)
            st_ = next((x for x in (k_init.body if k_init else []) if isinstance(x, ast.Expr) and isinstance(x.value, ast.Call) and isinstance(x.value.func, ast.Attribute) and
                        x.value.func.attr == "__init__" and isinstance(x.value.func.value, ast.Call) and x.value.func.value.func is sup[0] and not x.value.func.value.args), None)
            if st_ is None:
                bad_super = True
            else:
                init_calls[cn] = (k_init, st_)
        if bad_super:
            continue
        if b_init is not None:
            if any(isinstance(n, ast.Return) and n.value is not None for n in ast.walk(b_init)) or _has_return_in_loop_or_with(_helper_body(b_init)):
                continue
            # a subclass with an __init__ of its own that does not call the base initialiser never ran it: nothing to copy there
        ok_bind = True
        bound = {}
        for cn, (k_init, st_) in init_calls.items():
            try:
                _bind.counter = getattr(_bind, "counter", {})
                prefix, mapping = _bind(b_init, st_.value, True)
                body_ = [copy.deepcopy(x) for x in _helper_body(b_init)]
                body_ = [_Renamer(mapping).visit(x) for x in body_]
                body_ = _conv(body_, "stmt", None)
                # the base initialiser's `self` is the subclass initialiser's first parameter
                kself = k_init.args.args[0].arg
                bself = b_init.args.args[0].arg
                if kself != bself:
                    body_ = [_Renamer({bself: kself}).visit(x) for x in body_]
                bound[cn] = prefix + body_
            except _NotInlinable:
                ok_bind = False
        if not ok_bind:
            continue
        for c in subs:
            for b in c.bases:
                if isinstance(b, ast.Name) and b.id == bname:
                    break
                # a base listed before the mixin: it must not define any of the names
                if isinstance(b, ast.Name) and b.id in _BUILTIN_BASES:
                    if names & set(dir(_BUILTIN_BASES[b.id])):
                        ok = False
                elif isinstance(b, ast.Name) and b.id in classes:
                    if names & {x.name for x in ast.walk(classes[b.id]) if isinstance(x, FUNC)}:
                        ok = False
                else:
                    ok = False
        if not ok:
            continue
        for c in subs:
            if c.name in init_calls:
                k_init, st_ = init_calls[c.name]
                k_init.body[k_init.body.index(st_):k_init.body.index(st_) + 1] = bound[c.name] or [ast.copy_location(ast.Pass(), st_)]
                ast.fix_missing_locations(k_init)
            own = {x.name for x in c.body if isinstance(x, FUNC)} | {t.id for x in c.body if isinstance(x, ast.Assign) for t in x.targets if isinstance(t, ast.Name)}
            add = [copy.deepcopy(x) for x in items if x.name not in own]
            # keep a leading docstring in place
            at = 1 if c.body and isinstance(c.body[0], ast.Expr) and isinstance(c.body[0].value, ast.Constant) else 0
            c.body[at:at] = add
            c.bases = [b for b in c.bases if not (isinstance(b, ast.Name) and b.id == bname)]
        tree.body[tree.body.index(B)] = ast.copy_location(ast.Pass(), B)
        n_done += 1
    return n_done


FLATTENED = {}


# ------------------------------------------------------------------ N27 definitions moved to (or new helpers written in) another module

MOVED = {}


def _top_bindings(tree):
    out = {}
    for n in tree.body:
        if isinstance(n, FUNC + (ast.ClassDef,)):
            out[n.name] = n
        elif isinstance(n, ast.Assign):
            for t in n.targets:
                if isinstance(t, ast.Name):
                    out[t.id] = n
        elif isinstance(n, (ast.Import, ast.ImportFrom)):
            for a in n.names:
                out[(a.asname or a.name).split(".")[0]] = n
    return out


def _import_target(mod, node):
    """module name (key of trees) an ImportFrom of module `mod` refers to, or None"""
    if node.level:
        base = mod.split("/")[:-1]
        up = node.level - 1
        if up > len(base):
            return None
        base = base[:len(base) - up] if up else base
        return "/".join(base + (node.module.split(".") if node.module else []))
    if node.module and (node.module == "klongpy" or node.module.startswith("klongpy.")):
        return "/".join(node.module.split(".")[1:])
    return None


def undo_moves(trees, inv):
    """A definition the reviewed tree had in module M that now lives in another module X and is imported back by name, and a NEW top-level
    helper of another module that M imports by name (or reaches as X.helper through `from . import X` of a new module X), is copied into M
    where the import stood, with the new top-level definitions and constants of X it refers to.  Python resolves the imported name to
    exactly that definition, so M's functions mean the same; the copy is abandoned when a copied name collides with a binding of M."""
    if inv is None:
        return {}
    top = (_INV_FULL or {}).get("toplevel")
    if top is None:
        return {}
    known = {m: set(v) for m, v in top.items()}
    known_mods = set(known)
    done = {}
    for _round in range(3):
        changed = False
        for mod, tree in trees.items():
            if mod not in known_mods:
                continue
            for stmt in list(tree.body):
                if not isinstance(stmt, ast.ImportFrom):
                    continue
                tgt = _import_target(mod, stmt)
                if tgt is None:
                    continue
                wanted = []          # (source module, definition name, alias node, via-attribute module name or None)
                for a in stmt.names:
                    if tgt in trees and tgt != mod and a.name != "*":
                        xb = _top_bindings(trees[tgt])
                        if (a.asname or a.name) == a.name and isinstance(xb.get(a.name), FUNC + (ast.ClassDef,)) and a.name not in known.get(tgt, ()):
                            wanted.append((tgt, a.name, a, None))
                            continue
                    sub = (tgt + "/" if tgt else "") + a.name
                    if sub in trees and sub not in known_mods and sub != mod:
                        wanted.append((sub, None, a, a.asname or a.name))
                for src_mod, dname, alias, via in wanted:
                    x = trees[src_mod]
                    xb = _top_bindings(x)
                    mb = _top_bindings(tree)
                    newx = {k: v for k, v in xb.items() if not isinstance(v, (ast.Import, ast.ImportFrom)) and k not in known.get(src_mod, ())}
                    if via is not None:
                        used = {n.attr for n in ast.walk(tree) if isinstance(n, ast.Attribute) and isinstance(n.value, ast.Name) and n.value.id == via}
                        roots = [k for k in used if isinstance(newx.get(k), FUNC + (ast.ClassDef,) + (ast.Assign,))]
                        if used - set(roots):
                            continue          # something else of that module is used through the attribute: leave it
                    else:
                        roots = [dname]
                    have = set(x_.split(":", 1)[1] for x_ in done.get(mod, ()) if x_.startswith(src_mod + ":"))
                    take, work = [], list(roots)
                    while work:
                        k = work.pop()
                        if k in take or k not in newx or k in have:
                            continue
                        take.append(k)
                        for n in ast.walk(newx[k]):
                            if isinstance(n, ast.Name) and n.id in newx and n.id not in take:
                                work.append(n.id)
                    clash = [k for k in take if k in mb and not (mb[k] is stmt)]
                    if clash:
                        continue
                    if not take:
                        if via is None and dname in have:          # already brought in with an earlier name of this import
                            stmt.names = [a for a in stmt.names if a is not alias]
                            if not stmt.names:
                                tree.body.remove(stmt)
                                break
                        continue
                    # imports of X that the copied text needs and M does not bind (same package directory only: relative imports keep their meaning)
                    extra = []
                    if src_mod.rsplit("/", 1)[0:-1] == mod.rsplit("/", 1)[0:-1]:
                        need = {n.id for k in take for n in ast.walk(newx[k]) if isinstance(n, ast.Name)}
                        for n in x.body:
                            if isinstance(n, (ast.Import, ast.ImportFrom)) and not (isinstance(n, ast.ImportFrom) and n.module == "__future__"):
                                keep = [a2 for a2 in n.names if (a2.asname or a2.name).split(".")[0] in need and (a2.asname or a2.name).split(".")[0] not in mb
                                        and not (isinstance(n, ast.ImportFrom) and _import_target(src_mod, n) == mod)]
                                if keep:
                                    c = _copy_mod.deepcopy(n)
                                    c.names = [_copy_mod.deepcopy(a2) for a2 in keep]
                                    extra.append(c)
                    order = [n for n in x.body if any(newx.get(k) is n for k in take)]
                    copies = [_copy_mod.deepcopy(n) for n in order]
                    at = tree.body.index(stmt)
                    stmt.names = [a for a in stmt.names if a is not alias]
                    tree.body[at:at + 1] = extra + copies + ([stmt] if stmt.names else [])
                    if via is not None:
                        for n in ast.walk(tree):
                            for f, v in ast.iter_fields(n):
                                if isinstance(v, ast.Attribute) and isinstance(v.value, ast.Name) and v.value.id == via and v.attr in take:
                                    setattr(n, f, ast.copy_location(ast.Name(id=v.attr, ctx=v.ctx), v))
                                elif isinstance(v, list):
                                    for i, e in enumerate(v):
                                        if isinstance(e, ast.Attribute) and isinstance(e.value, ast.Name) and e.value.id == via and e.attr in take:
                                            v[i] = ast.copy_location(ast.Name(id=e.attr, ctx=e.ctx), e)
                    done.setdefault(mod, []).extend(f"{src_mod}:{k}" for k in take)
                    changed = True
                    if stmt not in tree.body:
                        break
        if not changed:
            break
    return done


def prepare(trees):
    """called once per repository load, before the modules are normalised.  trees: {module name: ast.Module} (or a list of trees)"""
    renames = {}
    if isinstance(trees, dict):
        FLATTENED.clear()
        inv = inventory()
        MOVED.clear()
        MOVED.update(undo_moves(trees, inv))
        for mod, tree in trees.items():
            k = flatten_new_bases(mod, tree, inv)
            if k:
                FLATTENED[mod] = k
        renames = undo_renames(trees)
        trees = list(trees.values())
    _prepare_summaries(trees)
    return renames


def _prepare_summaries(trees):
    _PARAMS_BY_NAME.clear()
    _CLASS_CTORS.clear()
    for tree in trees:
        for n in ast.walk(tree):
            if isinstance(n, FUNC):
                _PARAMS_BY_NAME.setdefault(n.name, []).append([p.arg for p in n.args.posonlyargs + n.args.args])
            elif isinstance(n, ast.ClassDef):
                for m in n.body:
                    if isinstance(m, FUNC) and m.name == "__init__":
                        _PARAMS_BY_NAME.setdefault(n.name, []).append([p.arg for p in m.args.posonlyargs + m.args.args])
    summarize_mutation(trees)


# ------------------------------------------------------------------ N6 named values (aliases of stable pure expressions)

_CONTENT_PREDICATES = {"safe_eq", "is_list", "is_dict", "is_atom", "is_empty", "in_map", "bool"}
PURE_DOTTED = {"os.path.join", "os.path.dirname", "os.path.basename", "os.path.exists"}
MUTATORS = {"append", "extend", "insert", "pop", "remove", "clear", "update", "add", "discard", "sort", "reverse", "popitem", "setdefault", "appendleft", "popleft"}


_MODULE_ATTR_STORES = set()


def _dotted(node):
    parts = []
    while isinstance(node, ast.Attribute):
        parts.append(node.attr)
        node = node.value
    if isinstance(node, ast.Name):
        parts.append(node.id)
        return ".".join(reversed(parts))
    return None


_ADJACENT_ONLY = set()


def _stable_expr(e, stable, mutated, attr_stores, self_unstable=None):
    return _stable_expr0(e, stable, mutated, attr_stores, self_unstable)


def _stable_expr0(e, stable, mutated, attr_stores, self_unstable):
    """e is a side-effect-free expression whose value cannot change while the function runs (as far as the function itself is concerned)"""
    if isinstance(e, ast.Constant):
        return True
    if isinstance(e, ast.Name):
        return e.id in stable
    if isinstance(e, ast.Attribute):
        if isinstance(e.value, ast.Name) and e.value.id == "self":
            # an attribute of self can be rebound by any method called in between: stable only if no method but __init__ stores it
            return self_unstable is not None and e.attr not in self_unstable and e.attr not in attr_stores
        # attributes of other objects: stable only if nothing in this module ever rebinds an attribute of that name outside a constructor
        return e.attr not in attr_stores and e.attr not in _MODULE_ATTR_STORES and _stable_expr0(e.value, stable, mutated, attr_stores, self_unstable)
    if isinstance(e, ast.Subscript):
        base = e.value
        if isinstance(e.slice, ast.Name) and e.slice.id in stable and isinstance(base, ast.Name) and base.id in stable and base.id not in mutated:
            _ADJACENT_ONLY.add(id(e))          # keyed read: only moved into the statement that directly follows (see _named_values)
            return True
        return isinstance(e.slice, ast.Constant) and isinstance(base, ast.Name) and base.id in stable and base.id not in mutated
    if isinstance(e, (ast.BoolOp,)):
        return all(_stable_expr0(v, stable, mutated, attr_stores, self_unstable) for v in e.values)
    if isinstance(e, ast.Tuple) and isinstance(getattr(e, "ctx", None), ast.Load):
        return all(not isinstance(v, ast.Starred) and _stable_expr0(v, stable, mutated, attr_stores, self_unstable) for v in e.elts)
    if isinstance(e, ast.UnaryOp):
        return _stable_expr0(e.operand, stable, mutated, attr_stores, self_unstable)
    if isinstance(e, ast.Compare):
        return _stable_expr0(e.left, stable, mutated, attr_stores, self_unstable) and all(_stable_expr0(c, stable, mutated, attr_stores, self_unstable) for c in e.comparators)
    if isinstance(e, ast.BinOp) and isinstance(e.op, (ast.Add, ast.Sub, ast.Mult)):
        return _stable_expr0(e.left, stable, mutated, attr_stores, self_unstable) and _stable_expr0(e.right, stable, mutated, attr_stores, self_unstable) and \
            all(isinstance(x, (ast.Constant, ast.Name, ast.BinOp, ast.Call, ast.Attribute, ast.operator, ast.expr_context)) for x in ast.walk(e))
    if isinstance(e, ast.Call) and not e.keywords:
        d = _dotted(e.func)
        if d == "len" and len(e.args) == 1 and isinstance(e.args[0], ast.Name):
            return e.args[0].id in stable and e.args[0].id not in mutated
        if d in ("isinstance", "issubclass", "callable", "type") or d in PURE_DOTTED:
            return all(_stable_expr0(a, stable, mutated, attr_stores, self_unstable) for a in e.args)
        if d in _CONTENT_PREDICATES:
            # reads the contents of its operands: the caller (_named_values) checks that nothing changes them up to the last use
            return all(_stable_expr0(a, stable, mutated, attr_stores, self_unstable) for a in e.args)
    return False


def _regionwise(fn, v, stores, loads):
    """a name bound several times is still 'single assignment' per region when every binding is a plain statement-level
    assignment and every load lies, in the same block, after exactly one binding and before the next one (no load can see two)"""
    regions = []
    for blk in _blocks(fn):
        for i, st in enumerate(blk):
            if isinstance(st, ast.Assign) and len(st.targets) == 1 and isinstance(st.targets[0], ast.Name) and st.targets[0].id == v:
                ids = set()
                for s2 in blk[i + 1:]:
                    if any(isinstance(x, ast.Name) and x.id == v and isinstance(x.ctx, ast.Store) for x in ast.walk(s2)):
                        break
                    ids |= {id(x) for x in ast.walk(s2)}
                regions.append((st, ids))
    if len(regions) != len(stores.get(v, [])):
        return False          # some binding is not a plain statement-level assignment (loop target, with-as, augmented, ...)
    for u in loads.get(v, []):
        if sum(1 for _st, ids in regions if id(u) in ids) != 1:
            return False
    return True


def _named_values(fn, self_unstable=None):
    n_done = 0
    _ADJACENT_ONLY.clear()
    for _ in range(40):
        stores, loads = {}, {}
        for n in _walk_local(fn):
            if isinstance(n, ast.Name):
                (stores if isinstance(n.ctx, (ast.Store, ast.Del)) else loads).setdefault(n.id, []).append(n)
            elif isinstance(n, ast.ExceptHandler) and n.name:
                stores.setdefault(n.name, []).append(n)
        params = {a.arg for a in fn.args.posonlyargs + fn.args.args + fn.args.kwonlyargs}
        if fn.args.vararg:
            params.add(fn.args.vararg.arg)
        if fn.args.kwarg:
            params.add(fn.args.kwarg.arg)
        nested_names = {x.id for n in ast.walk(fn) if isinstance(n, FUNC + (ast.Lambda,)) and n is not fn for x in ast.walk(n) if isinstance(x, ast.Name)}
        mutated, attr_stores = set(), set()
        for n in ast.walk(fn):
            if isinstance(n, ast.Call) and isinstance(n.func, ast.Attribute) and n.func.attr in MUTATORS and isinstance(n.func.value, ast.Name):
                mutated.add(n.func.value.id)
            if isinstance(n, (ast.Subscript, ast.Attribute)) and isinstance(n.ctx, (ast.Store, ast.Del)):
                b = n.value
                if isinstance(n, ast.Attribute):
                    attr_stores.add(n.attr)
                while isinstance(b, (ast.Subscript, ast.Attribute)):
                    b = b.value
                if isinstance(b, ast.Name):
                    mutated.add(b.id)
            if isinstance(n, (ast.For, ast.AsyncFor)):
                for x in ast.walk(n.target):
                    if isinstance(x, ast.Name):
                        stores.setdefault(x.id, []).append(x)
                        stores.setdefault(x.id, []).append(x)     # loop targets are re-bound every iteration
        loop_targets = {x.id for n in _walk_local(fn) if isinstance(n, (ast.For, ast.AsyncFor)) for x in ast.walk(n.target) if isinstance(x, ast.Name)}
        loop_targets |= {x.id for n in _walk_local(fn) if isinstance(n, (ast.While, ast.For, ast.AsyncFor)) for s_ in n.body for x in ast.walk(s_) if isinstance(x, ast.Name) and isinstance(x.ctx, ast.Store)}
        never_stored = {p for p in params if p not in stores} | {"self"}
        scoped_decl = {nm for n in ast.walk(fn) if isinstance(n, (ast.Nonlocal, ast.Global)) for nm in n.names}
        free = {k for k in loads if k not in stores and k not in params}      # globals / builtins / enclosing names
        changed = False
        # inside the body of a for loop, a target name bound by that loop only is one value per iteration
        loop_stable = {}
        for lp_ in _walk_local(fn):
            if isinstance(lp_, (ast.For, ast.AsyncFor)):
                own = {x.id for x in ast.walk(lp_.target) if isinstance(x, ast.Name) and len(stores.get(x.id, [])) == 3}
                if own:
                    holder = ast.Module(body=lp_.body, type_ignores=[])
                    for b_ in _blocks(holder):
                        loop_stable.setdefault(id(b_), set()).update(own)
        for blk in _blocks(fn):
            for i, st in enumerate(blk):
                if not (isinstance(st, ast.Assign) and len(st.targets) == 1 and isinstance(st.targets[0], ast.Name)):
                    continue
                v = st.targets[0].id
                if v in params or v in nested_names:
                    continue
                multi = len(stores.get(v, [])) != 1
                if multi and not _regionwise(fn, v, stores, loads):
                    continue
                if isinstance(st.value, (ast.Constant,)) and not isinstance(st.value.value, (str, bytes, int)):
                    continue
                # operands: parameters that are never rebound, globals, and locals bound exactly once by an earlier plain assignment
                single_before = {k for k, v_ in stores.items() if len(v_) == 1 and isinstance(v_[0], ast.Name) and k != v and
                                 (getattr(v_[0], "lineno", 10**9), getattr(v_[0], "col_offset", 0)) < (st.lineno, st.col_offset) and k not in loop_targets}
                stable = never_stored | free | single_before | loop_stable.get(id(blk), set())
                # any other local: its value is one value between the definition and the last use as long as nothing in between stores it
                # (checked below, statement by statement, nested blocks included)
                stable |= {k for k in stores if k != v and k not in scoped_decl}
                # mutation of the operands is judged for the statements between the definition and its last use (below)
                if not _stable_expr(st.value, stable, set(), set(), self_unstable):
                    continue
                if sum(1 for _x in ast.walk(st.value)) > 25:
                    continue
                uses = loads.get(v, [])
                if not uses:
                    continue
                later = set()
                for s2 in blk[i + 1:]:
                    if multi and any(isinstance(x, ast.Name) and x.id == v and isinstance(x.ctx, ast.Store) for x in ast.walk(s2)):
                        break
                    later |= {id(x) for x in ast.walk(s2)}
                if multi:
                    uses = [u for u in uses if id(u) in later]       # the loads of this definition's own region
                    if not uses:
                        continue
                if not all(id(u) in later for u in uses):
                    continue
                # no statement from the definition up to the last use changes an object the expression reads
                use_ids = {id(u) for u in uses}
                last = max((k for k in range(i + 1, len(blk)) if any(id(x) in use_ids for x in ast.walk(blk[k]))), default=i)
                rhs_names = {x.id for x in ast.walk(st.value) if isinstance(x, ast.Name)}
                rhs_attrs = {x.attr for x in ast.walk(st.value) if isinstance(x, ast.Attribute)}
                content_names = set()
                for x in ast.walk(st.value):
                    if isinstance(x, ast.Subscript):
                        content_names |= {n_.id for n_ in ast.walk(x.value) if isinstance(n_, ast.Name)}
                    elif isinstance(x, ast.Call) and isinstance(x.func, ast.Name) and (x.func.id == "len" or x.func.id in _CONTENT_PREDICATES):
                        content_names |= {n_.id for a_ in x.args for n_ in ast.walk(a_) if isinstance(n_, ast.Name)}
                content_dependent = bool(content_names)
                dirty = False
                for k in range(i + 1, last + 1):
                    scope_ = blk[k]
                    if k == last and isinstance(scope_, ast.If):
                        in_test = {id(x) for x in ast.walk(scope_.test)}
                        if all(id(u) in in_test for u in uses if any(u is y for y in ast.walk(scope_))):
                            scope_ = scope_.test          # the branches run after the last read of the value
                    for x in ast.walk(scope_):
                        if isinstance(x, (ast.Subscript, ast.Attribute)) and isinstance(x.ctx, (ast.Store, ast.Del)):
                            b_ = x.value
                            while isinstance(b_, (ast.Subscript, ast.Attribute)):
                                b_ = b_.value
                            # a store INTO an object matters only if the expression reads that object's contents / that attribute;
                            # a plain alias (`k = klong`) still denotes the same object afterwards
                            if (isinstance(x, ast.Subscript) and isinstance(b_, ast.Name) and b_.id in content_names) or (isinstance(x, ast.Attribute) and x.attr in rhs_attrs):
                                dirty = True
                        elif isinstance(x, ast.Call) and isinstance(x.func, ast.Attribute) and x.func.attr in MUTATORS and isinstance(x.func.value, ast.Name) and x.func.value.id in content_names:
                            dirty = True
                        elif isinstance(x, ast.Name) and isinstance(x.ctx, ast.Store) and x.id in rhs_names:
                            dirty = True
                        elif content_dependent and isinstance(x, ast.Call) and _call_may_change(x, content_names, length_only=not any(isinstance(y, ast.Subscript) for y in ast.walk(st.value))):
                            # the value depends on the CONTENTS of an object (len / element) and this call may change that object
                            dirty = True
                # a use inside a loop body that also mutates the operands later in the same iteration would see the old value: require the loop-free case
                if dirty:
                    continue
                if any(id(x) in _ADJACENT_ONLY for x in ast.walk(st.value)):
                    nxt = next((k for k in range(i + 1, len(blk)) if not isinstance(blk[k], ast.Pass)), None)
                    if nxt is None or last != nxt or isinstance(blk[nxt], (ast.For, ast.While, ast.AsyncFor, ast.Try, ast.With, ast.If)):
                        continue
                # inside a loop the defining statement runs again each iteration: fine, uses follow it in the same block
                for u in uses:
                    _replace_node(fn, u, copy.deepcopy(st.value))
                blk[i] = ast.copy_location(ast.Pass(), st)
                changed = True
                n_done += 1
                break
            if changed:
                break
        if not changed:
            break
    return n_done


# ------------------------------------------------------------------ N4 container-building loops -> comprehensions

def _read_before_rebound(stmts, names):
    """some name of `names` can be read by stmts before it is bound again (events in evaluation order; a loop target re-binds)"""
    live = set(names)

    def visit(n):
        if not live:
            return False
        if isinstance(n, (ast.For, ast.AsyncFor)):
            if visit(n.iter):
                return True
            for x in ast.walk(n.target):
                if isinstance(x, ast.Name):
                    live.discard(x.id)
            return any(visit(c) for c in n.body + n.orelse)
        if isinstance(n, ast.Assign):
            if visit(n.value):
                return True
            for t in n.targets:
                if isinstance(t, ast.Name):
                    live.discard(t.id)
                elif visit(t):
                    return True
            return False
        if isinstance(n, ast.Name):
            return isinstance(n.ctx, ast.Load) and n.id in live
        if isinstance(n, (ast.If, ast.While, ast.Try, ast.With, ast.AsyncWith)):
            # a binding made inside one branch does not protect the other paths: judge each part with the current live set, kill nothing
            saved = set(live)
            hit = False
            for c in ast.iter_child_nodes(n):
                live.clear()
                live.update(saved)
                if visit(c):
                    hit = True
                    break
            live.clear()
            live.update(saved)
            return hit
        return any(visit(c) for c in ast.iter_child_nodes(n))
    return any(visit(s) for s in stmts)


def _loops_to_comprehensions(fn):
    """`r = []` + `for v in it: r.append(e)` -> `r = [e for v in it]`;  `d = {}` + `for v in it: d[k] = e` -> `d = {k: e for v in it}`
    (one optional `if c:` around the single statement becomes the comprehension's filter).  Only when the loop directly follows
    the empty initialisation, has no else, and the loop variables are not used after the loop."""
    n_done = 0
    for blk in _blocks(fn):
        i = 0
        while i + 1 < len(blk):
            a, lp = blk[i], blk[i + 1]
            i += 1
            if not (isinstance(a, ast.Assign) and len(a.targets) == 1 and isinstance(a.targets[0], ast.Name) and isinstance(lp, ast.For) and not lp.orelse):
                continue
            name = a.targets[0].id
            empty_list = isinstance(a.value, ast.List) and not a.value.elts
            empty_dict = isinstance(a.value, ast.Dict) and not a.value.keys
            lbody = [x for x in lp.body if not isinstance(x, ast.Pass)]
            if not (empty_list or empty_dict) or len(lbody) != 1:
                continue
            st, cond = lbody[0], None
            if isinstance(st, ast.If) and not st.orelse and len(st.body) == 1:
                st, cond = st.body[0], st.test
            tvars = {x.id for x in ast.walk(lp.target) if isinstance(x, ast.Name)}
            if _read_before_rebound(blk[i + 1:], tvars):
                continue
            if any(isinstance(x, ast.Name) and x.id == name for x in ast.walk(lp.iter)) or (cond is not None and any(isinstance(x, ast.Name) and x.id == name for x in ast.walk(cond))):
                continue
            gen = ast.comprehension(target=lp.target, iter=lp.iter, ifs=[cond] if cond is not None else [], is_async=0)
            new = None
            if empty_list and isinstance(st, ast.Expr) and isinstance(st.value, ast.Call) and isinstance(st.value.func, ast.Attribute) and st.value.func.attr == "append" and \
                    isinstance(st.value.func.value, ast.Name) and st.value.func.value.id == name and len(st.value.args) == 1 and \
                    not any(isinstance(x, ast.Name) and x.id == name for x in ast.walk(st.value.args[0])):
                new = ast.ListComp(elt=st.value.args[0], generators=[gen])
            elif empty_dict and isinstance(st, ast.Assign) and len(st.targets) == 1 and isinstance(st.targets[0], ast.Subscript) and isinstance(st.targets[0].value, ast.Name) and \
                    st.targets[0].value.id == name and not any(isinstance(x, ast.Name) and x.id == name for x in ast.walk(st.value)) and \
                    not any(isinstance(x, ast.Name) and x.id == name for x in ast.walk(st.targets[0].slice)):
                new = ast.DictComp(key=st.targets[0].slice, value=st.value, generators=[gen])
            if new is None:
                continue
            blk[i - 1] = ast.copy_location(ast.Assign(targets=[a.targets[0]], value=ast.copy_location(new, lp), lineno=a.lineno), a)
            blk[i] = ast.copy_location(ast.Pass(), lp)
            n_done += 1
    return n_done


# ------------------------------------------------------------------ N10 jump threading: decide (bind a verdict) then act (test it)

def _static_truth(test, name, value):
    """truth of `test` (a predicate over the single local `name`) when name is bound to the literal expression `value`; None = unknown"""
    def kind(v):
        if isinstance(v, ast.Constant):
            return ("const", v.value)
        if isinstance(v, (ast.Tuple, ast.List)) and not any(isinstance(x, ast.Starred) for x in v.elts):
            return ("seq", len(v.elts))
        if isinstance(v, ast.Dict) and all(k is not None for k in v.keys):
            return ("seq", len(v.keys))
        return None
    k = kind(value)
    if k is None:
        return None
    is_name = lambda e: isinstance(e, ast.Name) and e.id == name
    if is_name(test):
        return bool(k[1])
    if isinstance(test, ast.UnaryOp) and isinstance(test.op, ast.Not):
        r = _static_truth(test.operand, name, value)
        return None if r is None else not r
    if isinstance(test, ast.BoolOp):
        rs = [_static_truth(v, name, value) for v in test.values]
        if isinstance(test.op, ast.And):
            return False if False in rs else (True if all(r is True for r in rs) else None)
        return True if True in rs else (False if all(r is False for r in rs) else None)
    if isinstance(test, ast.Compare) and len(test.ops) == 1 and is_name(test.left):
        op, c = test.ops[0], test.comparators[0]
        if isinstance(c, ast.Constant):
            if isinstance(op, (ast.Is, ast.IsNot)) and c.value is None:
                r = k == ("const", None)
                return r if isinstance(op, ast.Is) else not r
            if isinstance(op, (ast.Eq, ast.NotEq)) and k[0] == "const" and type(k[1]) is type(c.value):
                r = k[1] == c.value
                return r if isinstance(op, ast.Eq) else not r
        if isinstance(c, (ast.Tuple, ast.List, ast.Set)) and all(isinstance(x, ast.Constant) for x in c.elts) and isinstance(op, (ast.In, ast.NotIn)) and k[0] == "const":
            r = any(type(x.value) is type(k[1]) and x.value == k[1] for x in c.elts)
            return r if isinstance(op, ast.In) else not r
    return None


def _falling_arms(st):
    """the statement lists an if-chain can fall out of (arms that always leave are skipped); None when it has an implicit empty arm"""
    arms, implicit = [], False

    def rec(node):
        nonlocal implicit
        for blk in (node.body, node.orelse):
            if not blk:
                implicit = True
                continue
            if len(blk) == 1 and isinstance(blk[0], ast.If) and blk is node.orelse:
                rec(blk[0])
                continue
            if _always_exits(blk):
                continue
            if isinstance(blk[-1], ast.If) and blk[-1].orelse:
                rec(blk[-1])              # the arm ends in a decision of its own: its arms are the places control falls out of
                continue
            arms.append(blk)
    rec(st)
    return arms, implicit


def _thread_jumps(fn):
    """`if c1: t = V1 elif c2: t = V2 else: t = V3` directly followed by `if <predicate over t>: A else: B` where the predicate is decided
    by each literal Vi: A / B is moved to the end of each arm (the way the code reads when the decision and the action are written
    together).  Each arm's binding of t must be its last top-level store to t; the predicate must mention nothing but t."""
    n_done = 0
    for _ in range(8):
        changed = False
        for blk in _blocks(fn):
            for i in range(len(blk) - 1):
                a, b = blk[i], blk[i + 1]
                if not (isinstance(a, ast.If) and isinstance(b, ast.If)):
                    continue
                names = {x.id for x in ast.walk(b.test) if isinstance(x, ast.Name)}
                if len(names) != 1 or any(isinstance(x, (ast.Call, ast.Attribute, ast.Subscript, ast.Await, ast.NamedExpr)) for x in ast.walk(b.test)):
                    continue
                t = next(iter(names))
                arms, implicit = _falling_arms(a)
                if any(isinstance(x, ast.NamedExpr) for tst in _chain_tests(a) for x in ast.walk(tst)):
                    continue
                prev = blk[i - 1] if i > 0 else None
                prev_value = prev.value if (isinstance(prev, ast.Assign) and len(prev.targets) == 1 and isinstance(prev.targets[0], ast.Name) and prev.targets[0].id == t) else None
                values = []
                for arm in arms:
                    last_store = None
                    for k, st in enumerate(arm):
                        if any(isinstance(x, ast.Name) and x.id == t and isinstance(x.ctx, (ast.Store, ast.Del)) for x in ast.walk(st)):
                            last_store = k
                    if last_store is None:
                        values.append(prev_value)          # the arm leaves the earlier binding alone
                    else:
                        st = arm[last_store]
                        values.append(st.value if (isinstance(st, ast.Assign) and len(st.targets) == 1 and isinstance(st.targets[0], ast.Name)) else None)
                if implicit:
                    values.append(prev_value)              # the arm that is not written
                if not values or any(v is None for v in values):
                    continue
                verdicts = [_static_truth(b.test, t, v) for v in values]
                if any(v is None for v in verdicts):
                    continue
                size = sum(1 for s_ in b.body + b.orelse for _x in ast.walk(s_))
                if size * len(values) > 600:
                    continue
                for arm, v in zip(arms, verdicts):
                    arm.extend(copy.deepcopy(s_) for s_ in (b.body if v else b.orelse))
                if implicit:
                    taken = b.body if verdicts[-1] else b.orelse
                    if taken:
                        last = a
                        while len(last.orelse) == 1 and isinstance(last.orelse[0], ast.If):
                            last = last.orelse[0]
                        last.orelse = [copy.deepcopy(s_) for s_ in taken]
                blk[i + 1] = ast.copy_location(ast.Pass(), b)
                changed = True
                n_done += 1
                break
            if changed:
                break
        if not changed:
            break
    return n_done


def _expand_callable_choice(fn):
    """`do = self._a if c else self._b` ... `do(x)`: the choice is written as a statement (`if c: do = self._a else: do = self._b`), so that
    the tail-duplication below can put the call into each arm"""
    n = 0
    for blk in _blocks(fn):
        for i, st in enumerate(blk):
            if not (isinstance(st, ast.Assign) and len(st.targets) == 1 and isinstance(st.targets[0], ast.Name) and isinstance(st.value, ast.IfExp)):
                continue
            ref = lambda e: isinstance(e, ast.Name) or (isinstance(e, ast.Attribute) and isinstance(e.value, ast.Name) and e.value.id == "self")
            if not (ref(st.value.body) and ref(st.value.orelse)):
                continue
            v = st.targets[0].id
            if not any(isinstance(c, ast.Call) and isinstance(c.func, ast.Name) and c.func.id == v for s_ in blk[i + 1:] for c in ast.walk(s_)):
                continue
            mk = lambda val: ast.copy_location(ast.Assign(targets=[ast.Name(id=v, ctx=ast.Store())], value=val, lineno=st.lineno), st)
            new = ast.copy_location(ast.If(test=st.value.test, body=[mk(st.value.body)], orelse=[mk(st.value.orelse)]), st)
            ast.fix_missing_locations(new)
            blk[i] = new
            n += 1
    return n


def _duplicate_tail(fn):
    """an if-chain whose every falling arm ends by binding the same local to a literal, followed by a short tail that ends in
    return/raise and reads that local: the tail is copied to the end of each arm (where the value-naming pass then puts the literal in).
    This is how `kind = classify(..); return TABLE[kind](..)` reads once classify has been inlined."""
    n_done = 0
    for blk in _blocks(fn):
        for i in range(len(blk) - 1):
            a, rest = blk[i], [s_ for s_ in blk[i + 1:] if not isinstance(s_, ast.Pass)]
            if not isinstance(a, ast.If) or not rest or len(rest) > 3:
                continue
            if any(isinstance(x, FUNC + (ast.Lambda, ast.NamedExpr)) for s_ in rest for x in ast.walk(s_)):
                continue
            arms, implicit = _falling_arms(a)
            if implicit or len(arms) < 2 or len(arms) > 16:
                continue
            t = None
            ok = True
            for arm in arms:
                last = arm[-1]
                is_lit = isinstance(getattr(last, "value", None), ast.Constant) and isinstance(last.value.value, (str, int)) and not isinstance(last.value.value, bool)
                is_fnref = isinstance(getattr(last, "value", None), ast.Name) or (isinstance(getattr(last, "value", None), ast.Attribute) and isinstance(last.value.value, ast.Name) and last.value.value.id == "self")
                if not (isinstance(last, ast.Assign) and len(last.targets) == 1 and isinstance(last.targets[0], ast.Name) and (is_lit or is_fnref)):
                    ok = False
                    break
                if is_fnref and not any(isinstance(c, ast.Call) and isinstance(c.func, ast.Name) and c.func.id == last.targets[0].id for s_ in rest for c in ast.walk(s_)):
                    ok = False          # a chosen function: only worth it when the tail CALLS it
                    break
                if t is None:
                    t = last.targets[0].id
                elif t != last.targets[0].id:
                    ok = False
                    break
            if not ok or t is None:
                continue
            reads = any(isinstance(x, ast.Name) and x.id == t and isinstance(x.ctx, ast.Load) for s_ in rest for x in ast.walk(s_))
            writes = any(isinstance(x, ast.Name) and x.id == t and isinstance(x.ctx, (ast.Store, ast.Del)) for s_ in rest for x in ast.walk(s_))
            size = sum(1 for s_ in rest for _x in ast.walk(s_))
            if not reads or writes or size * len(arms) > 1500:
                continue
            for arm in arms:
                arm.extend(copy.deepcopy(s_) for s_ in rest)
            del blk[i + 1:]
            n_done += 1
            break
    return n_done


def _module_tables(tree):
    """module-level `NAME = {constant: <lambda | name | constant>, ...}` bound once and only ever read by subscription / .get"""
    stores, tables = {}, {}
    for n in ast.walk(tree):
        if isinstance(n, ast.Name) and isinstance(n.ctx, (ast.Store, ast.Del)):
            stores[n.id] = stores.get(n.id, 0) + 1
        elif isinstance(n, (ast.Global, ast.Nonlocal)):
            for x in n.names:
                stores[x] = stores.get(x, 0) + 2
        elif isinstance(n, ast.arg):
            stores[n.arg] = stores.get(n.arg, 0) + 2
    for st in tree.body:
        if isinstance(st, ast.Assign) and len(st.targets) == 1 and isinstance(st.targets[0], ast.Name) and isinstance(st.value, ast.Dict) and st.value.keys and \
                all(isinstance(k, ast.Constant) and isinstance(k.value, (str, int)) for k in st.value.keys) and \
                all(isinstance(v, (ast.Lambda, ast.Name, ast.Constant)) for v in st.value.values):
            tables[st.targets[0].id] = st.value
    tables = {k: v for k, v in tables.items() if stores.get(k, 0) == 1}
    if not tables:
        return {}
    # every other mention must be NAME[...] (load) or NAME.get(...)
    parents = {}
    for p_ in ast.walk(tree):
        for c in ast.iter_child_nodes(p_):
            parents[id(c)] = p_
    for n in ast.walk(tree):
        if isinstance(n, ast.Name) and n.id in tables and isinstance(n.ctx, ast.Load):
            p_ = parents.get(id(n))
            ok = (isinstance(p_, ast.Subscript) and p_.value is n and isinstance(p_.ctx, ast.Load)) or \
                (isinstance(p_, ast.Attribute) and p_.attr == "get" and isinstance(parents.get(id(p_)), ast.Call) and parents[id(p_)].func is p_)
            if not ok:
                tables.pop(n.id, None)
    return tables


def _fold_table_lookups(tree):
    """TABLE['k'] -> the entry;  (lambda a, b: e)(x, y) with plain arguments -> e[a:=x, b:=y]"""
    tables = _module_tables(tree)
    n_done = 0
    for fn in [x for x in ast.walk(tree) if isinstance(x, FUNC)]:
        local = {x.id for x in _walk_local(fn) if isinstance(x, ast.Name) and isinstance(x.ctx, (ast.Store, ast.Del))} | \
            {a.arg for a in fn.args.posonlyargs + fn.args.args + fn.args.kwonlyargs} | ({fn.args.vararg.arg} if fn.args.vararg else set()) | ({fn.args.kwarg.arg} if fn.args.kwarg else set())
        for sub in [x for x in _walk_local(fn) if isinstance(x, ast.Subscript) and isinstance(x.ctx, ast.Load) and isinstance(x.value, ast.Name) and x.value.id in tables
                    and x.value.id not in local and isinstance(x.slice, ast.Constant)]:
            d = tables[sub.value.id]
            hit = [v for k, v in zip(d.keys, d.values) if type(k.value) is type(sub.slice.value) and k.value == sub.slice.value]
            if len(hit) != 1:
                continue
            v = hit[0]
            free = {x.id for x in ast.walk(v) if isinstance(x, ast.Name)} - ({a.arg for a in v.args.args} if isinstance(v, ast.Lambda) else set())
            if free & local:
                continue               # a global the entry mentions is shadowed here
            _replace_node(fn, sub, copy.deepcopy(v))
            n_done += 1
        for call in [x for x in _walk_local(fn) if isinstance(x, ast.Call) and isinstance(x.func, ast.Lambda)]:
            lam = call.func
            a = lam.args
            if a.vararg or a.kwarg or a.kwonlyargs or a.posonlyargs or a.defaults or call.keywords or len(a.args) != len(call.args):
                continue
            if not all(_simple_arg(x) for x in call.args):
                continue
            if any(isinstance(x, (ast.Lambda, ast.NamedExpr, ast.ListComp, ast.SetComp, ast.DictComp, ast.GeneratorExp)) for x in ast.walk(lam.body)):
                continue
            mapping = {p_.arg: x for p_, x in zip(a.args, call.args)}
            _replace_node(fn, call, _Renamer(mapping).visit(copy.deepcopy(lam.body)))
            n_done += 1
    return n_done


class _NotConst(Exception):
    pass


def _const_eval(e, env):
    """value of a module-level expression built from literals, displays, comprehensions and names already evaluated (constant
    folding of the SOURCE: nothing of the analysed program is imported or run)"""
    if isinstance(e, ast.Constant):
        return e.value
    if isinstance(e, ast.Name):
        if e.id in env:
            return env[e.id]
        raise _NotConst(e.id)
    if isinstance(e, (ast.Tuple, ast.List, ast.Set)):
        vals = []
        for x in e.elts:
            if isinstance(x, ast.Starred):
                vals += list(_const_eval(x.value, env))
            else:
                vals.append(_const_eval(x, env))
        return tuple(vals) if isinstance(e, ast.Tuple) else (list(vals) if isinstance(e, ast.List) else frozenset(vals))
    if isinstance(e, ast.Dict):
        out = {}
        for k, v in zip(e.keys, e.values):
            if k is None:
                d = _const_eval(v, env)
                if not isinstance(d, dict):
                    raise _NotConst("** of a non-dict")
                out.update(d)
            else:
                out[_const_eval(k, env)] = _const_eval(v, env)
        return out
    if isinstance(e, (ast.DictComp, ast.SetComp, ast.ListComp)) and len(e.generators) == 1 and not e.generators[0].is_async and isinstance(e.generators[0].target, ast.Name):
        g = e.generators[0]
        it = _const_eval(g.iter, env)
        if isinstance(it, frozenset):
            it = sorted(it, key=repr)         # iteration order of a set is not fixed: only order-free results are accepted below
        out_d, out_l = {}, []
        for x in it:
            env2 = dict(env)
            env2[g.target.id] = x
            if not all(_const_eval(c, env2) for c in g.ifs):
                continue
            if isinstance(e, ast.DictComp):
                out_d[_const_eval(e.key, env2)] = _const_eval(e.value, env2)
            else:
                out_l.append(_const_eval(e.elt, env2))
        if isinstance(e, ast.DictComp):
            return out_d
        if isinstance(e, ast.SetComp):
            return frozenset(out_l)
        if isinstance(_const_eval(g.iter, env), frozenset):
            raise _NotConst("list built from a set: order not fixed")
        return out_l
    if isinstance(e, ast.Compare) and len(e.ops) == 1:
        a, b = _const_eval(e.left, env), _const_eval(e.comparators[0], env)
        op = e.ops[0]
        if isinstance(op, ast.In):
            return a in b
        if isinstance(op, ast.NotIn):
            return a not in b
        if isinstance(op, ast.Eq):
            return a == b
        if isinstance(op, ast.NotEq):
            return a != b
    if isinstance(e, ast.BinOp) and isinstance(e.op, (ast.BitOr, ast.BitAnd, ast.Sub)):
        a, b = _const_eval(e.left, env), _const_eval(e.right, env)
        if isinstance(a, frozenset) and isinstance(b, frozenset):
            return a | b if isinstance(e.op, ast.BitOr) else (a & b if isinstance(e.op, ast.BitAnd) else a - b)
    raise _NotConst(type(e).__name__)


def _module_const_env(tree):
    """{name: value} for module-level names bound once to a constant-foldable expression (sets as frozenset)"""
    stores = {}
    for n in ast.walk(tree):
        if isinstance(n, ast.Name) and isinstance(n.ctx, (ast.Store, ast.Del)):
            stores[n.id] = stores.get(n.id, 0) + 1
        elif isinstance(n, (ast.Global, ast.Nonlocal)):
            for x in n.names:
                stores[x] = stores.get(x, 0) + 2
        elif isinstance(n, ast.arg):
            stores[n.arg] = stores.get(n.arg, 0) + 2
    env = {}
    for st in tree.body:
        if isinstance(st, ast.Assign) and len(st.targets) == 1 and isinstance(st.targets[0], ast.Name) and stores.get(st.targets[0].id) == 1:
            try:
                env[st.targets[0].id] = _const_eval(st.value, env)
            except (_NotConst, TypeError, ValueError, KeyError):
                pass
    return env


def _expand_value_tables(tree):
    """`v = TABLE.get(x)` / `TABLE[x]` where TABLE is a module constant {literal: one of a few literals} and x a plain name:
    `if x in <keys of value 1>: v = <value 1> elif ...: ... else: v = None` (a key set equal to a named module-level set is written
    by that name).  The decision the table encodes becomes branches again, which the passes above then thread into its uses."""
    env = _module_const_env(tree)
    tables = {k: v for k, v in env.items() if isinstance(v, dict) and v and all(isinstance(x, (str, int)) and not isinstance(x, bool) for x in v)
              and all(x is None or (isinstance(x, (str, int)) and not isinstance(x, bool)) for x in v.values()) and len(set(v.values())) <= 4}
    if not tables:
        return 0
    named_sets = {frozenset(v): k for k, v in env.items() if isinstance(v, frozenset) and v}
    # the table is only ever read by .get / subscription
    parents = {}
    for p_ in ast.walk(tree):
        for c in ast.iter_child_nodes(p_):
            parents[id(c)] = p_
    for n in ast.walk(tree):
        if isinstance(n, ast.Name) and n.id in tables and isinstance(n.ctx, ast.Load):
            p_ = parents.get(id(n))
            ok = (isinstance(p_, ast.Subscript) and p_.value is n and isinstance(p_.ctx, ast.Load)) or \
                (isinstance(p_, ast.Attribute) and p_.attr == "get" and isinstance(parents.get(id(p_)), ast.Call) and parents[id(p_)].func is p_)
            if not ok:
                tables.pop(n.id, None)
    n_done = 0
    for fn in [x for x in ast.walk(tree) if isinstance(x, FUNC)]:
        local = {x.id for x in _walk_local(fn) if isinstance(x, ast.Name) and isinstance(x.ctx, (ast.Store, ast.Del))} | {a.arg for a in fn.args.posonlyargs + fn.args.args + fn.args.kwonlyargs}
        for blk in _blocks(fn):
            for i, st in enumerate(blk):
                if not (isinstance(st, ast.Assign) and len(st.targets) == 1 and isinstance(st.targets[0], ast.Name)):
                    continue
                v, key, default, strict = st.value, None, None, False
                if isinstance(v, ast.Call) and isinstance(v.func, ast.Attribute) and v.func.attr == "get" and isinstance(v.func.value, ast.Name) and v.func.value.id in tables \
                        and not v.keywords and 1 <= len(v.args) <= 2 and _simple_arg(v.args[0]) and not isinstance(v.args[0], ast.Constant):
                    tname, key = v.func.value.id, v.args[0]
                    if len(v.args) == 2:
                        if not isinstance(v.args[1], ast.Constant):
                            continue
                        default = v.args[1].value
                elif isinstance(v, ast.Subscript) and isinstance(v.value, ast.Name) and v.value.id in tables and _simple_arg(v.slice) and not isinstance(v.slice, ast.Constant):
                    tname, key, strict = v.value.id, v.slice, True
                else:
                    continue
                if tname in local or any(nm in local for nm in named_sets.values() if nm in {x.id for x in ast.walk(fn) if isinstance(x, ast.Name)} and False):
                    continue
                groups = {}
                for k_, val in tables[tname].items():
                    groups.setdefault(val, []).append(k_)
                target = st.targets[0]

                def member(keys):
                    nm = named_sets.get(frozenset(keys))
                    if nm is not None and nm not in local:
                        rhs = ast.Name(id=nm, ctx=ast.Load())
                    else:
                        rhs = ast.Set(elts=[ast.Constant(value=k_) for k_ in keys])
                    return ast.Compare(left=copy.deepcopy(key), ops=[ast.In()], comparators=[rhs])

                def bind(val):
                    return ast.copy_location(ast.Assign(targets=[copy.deepcopy(target)], value=ast.Constant(value=val), lineno=st.lineno), st)
                if strict:
                    tail = [ast.copy_location(ast.Raise(exc=ast.Call(func=ast.Name(id="KeyError", ctx=ast.Load()), args=[copy.deepcopy(key)], keywords=[]), cause=None), st)]
                else:
                    tail = [bind(default)]
                chain = tail
                for val, keys in reversed(list(groups.items())):
                    chain = [ast.copy_location(ast.If(test=member(keys), body=[bind(val)], orelse=chain), st)]
                ast.fix_missing_locations(chain[0])
                blk[i] = chain[0]
                n_done += 1
    return n_done


def _chain_tests(st):
    out = [st.test]
    while len(st.orelse) == 1 and isinstance(st.orelse[0], ast.If):
        st = st.orelse[0]
        out.append(st.test)
    return out


def _splice_starred_literals(fn):
    """f(*(a, b)) -> f(a, b)"""
    n = 0
    for c in ast.walk(fn):
        if isinstance(c, ast.Call) and any(isinstance(a, ast.Starred) and isinstance(a.value, (ast.Tuple, ast.List)) and not any(isinstance(x, ast.Starred) for x in a.value.elts) for a in c.args):
            new = []
            for a in c.args:
                if isinstance(a, ast.Starred) and isinstance(a.value, (ast.Tuple, ast.List)) and not any(isinstance(x, ast.Starred) for x in a.value.elts):
                    new += a.value.elts
                    n += 1
                else:
                    new.append(a)
            c.args = new
    # (a, b)[0] -> a   (elements that are plain names / constants: nothing is lost by not evaluating the others)
    for sub in [x for x in ast.walk(fn) if isinstance(x, ast.Subscript) and isinstance(x.ctx, ast.Load) and isinstance(x.value, (ast.Tuple, ast.List))
                and isinstance(x.slice, ast.Constant) and isinstance(x.slice.value, int) and not isinstance(x.slice.value, bool)]:
        elts = sub.value.elts
        if all(isinstance(e, (ast.Name, ast.Constant)) for e in elts) and -len(elts) <= sub.slice.value < len(elts):
            _replace_node(fn, sub, elts[sub.slice.value])
            n += 1
    return n


# ------------------------------------------------------------------ N11 rotated loops: `while True: if c: break; body` -> `while not c: body`

def _negate(t):
    if isinstance(t, ast.UnaryOp) and isinstance(t.op, ast.Not):
        return t.operand
    if isinstance(t, ast.BoolOp):
        return ast.copy_location(ast.BoolOp(op=ast.Or() if isinstance(t.op, ast.And) else ast.And(), values=[_negate(v) for v in t.values]), t)
    if isinstance(t, ast.Compare) and len(t.ops) == 1:
        flip = {ast.Is: ast.IsNot, ast.IsNot: ast.Is, ast.Eq: ast.NotEq, ast.NotEq: ast.Eq, ast.In: ast.NotIn, ast.NotIn: ast.In}.get(type(t.ops[0]))
        if flip is not None:
            return ast.copy_location(ast.Compare(left=t.left, ops=[flip()], comparators=t.comparators), t)
    return ast.copy_location(ast.UnaryOp(op=ast.Not(), operand=t), t)


def _rotate_loops(fn):
    n = 0
    for w in [x for x in _walk_local(fn) if isinstance(x, ast.While)]:
        if not (isinstance(w.test, ast.Constant) and w.test.value is True) or w.orelse:
            continue
        body = [s_ for s_ in w.body if not isinstance(s_, ast.Pass)]
        if len(body) < 2:
            continue
        first = body[0]
        if isinstance(first, ast.If) and not first.orelse and len(first.body) == 1 and isinstance(first.body[0], ast.Break) and \
                not any(isinstance(x, (ast.NamedExpr, ast.Await, ast.Yield, ast.YieldFrom)) for x in ast.walk(first.test)):
            w.test = _negate(first.test)
            w.body = body[1:]
            n += 1
    return n


# ------------------------------------------------------------------ N13 `a, b = x, y` -> `a = x; b = y` when no value reads a target

def _split_parallel_assign(fn):
    n = 0
    for blk in _blocks(fn):
        i = 0
        while i < len(blk):
            st = blk[i]
            if isinstance(st, ast.Assign) and len(st.targets) == 1 and isinstance(st.targets[0], ast.Tuple) and isinstance(st.value, ast.Tuple) and \
                    len(st.targets[0].elts) == len(st.value.elts) and all(isinstance(t, ast.Name) for t in st.targets[0].elts) and \
                    not any(isinstance(v, ast.Starred) for v in st.value.elts):
                tnames = {t.id for t in st.targets[0].elts}
                read = {x.id for v in st.value.elts for x in ast.walk(v) if isinstance(x, ast.Name)}
                if len(tnames) == len(st.targets[0].elts) and not (tnames & read):
                    blk[i:i + 1] = [ast.copy_location(ast.Assign(targets=[t], value=v, lineno=st.lineno), st) for t, v in zip(st.targets[0].elts, st.value.elts)]
                    n += 1
                    continue
            i += 1
    return n


# ------------------------------------------------------------------ N14 new methods called under an isinstance guard -> per-class calls

def _devirtualise(modname, tree, inv):
    """`if isinstance(x, (A, B)): r = x.m(a)` where m is a NEW method (not in the inventory) that A and B each define themselves, and no
    class of the module derives from A or B:  `if isinstance(x, A): r = A.m(x, a) else: r = B.m(x, a)` - which the inliner then resolves."""
    if inv is None:
        return 0
    classes = {c.name: c for c in tree.body if isinstance(c, ast.ClassDef)}
    derived = {b.id for c in classes.values() for b in c.bases if isinstance(b, ast.Name)}

    def new_method(cname, m):
        c = classes.get(cname)
        if c is None or cname in derived:
            return None
        if sum(1 for x in ast.walk(c) if (isinstance(x, FUNC) and x.name == m) or (isinstance(x, ast.Name) and x.id == m and isinstance(x.ctx, ast.Store))) != 1:
            return None               # defined twice / conditionally / also assigned: not one method
        for x in c.body:
            if isinstance(x, ast.FunctionDef) and x.name == m and not x.decorator_list and f"{modname}:{cname}.{m}" not in inv:
                return x
        return None
    n_done = 0
    for fn in [x for x in ast.walk(tree) if isinstance(x, FUNC)]:
        for guard in [x for x in _walk_local(fn) if isinstance(x, ast.If)]:
            t = guard.test
            if not (isinstance(t, ast.Call) and isinstance(t.func, ast.Name) and t.func.id == "isinstance" and len(t.args) == 2 and isinstance(t.args[0], ast.Name)):
                continue
            recv = t.args[0].id
            kinds = t.args[1].elts if isinstance(t.args[1], ast.Tuple) else [t.args[1]]
            if not kinds or not all(isinstance(k, ast.Name) and k.id in classes for k in kinds) or len({k.id for k in kinds}) != len(kinds):
                continue
            for i, st in enumerate(guard.body):
                if any(isinstance(x, ast.Name) and x.id == recv and isinstance(x.ctx, (ast.Store, ast.Del)) for x in ast.walk(st)):
                    break
                call = st.value if isinstance(st, (ast.Assign, ast.Expr, ast.Return)) and isinstance(getattr(st, "value", None), ast.Call) else None
                if call is None or not (isinstance(call.func, ast.Attribute) and isinstance(call.func.value, ast.Name) and call.func.value.id == recv):
                    continue
                m = call.func.attr
                if not all(new_method(k.id, m) is not None for k in kinds):
                    continue

                def variant(kname):
                    v = copy.deepcopy(st)
                    c2 = v.value
                    c2.func = ast.copy_location(ast.Attribute(value=ast.Name(id=kname, ctx=ast.Load()), attr=m, ctx=ast.Load()), call.func)
                    c2.args = [ast.Name(id=recv, ctx=ast.Load())] + c2.args
                    ast.fix_missing_locations(v)
                    return v
                chain = [variant(kinds[-1].id)]
                for k in reversed(kinds[:-1]):
                    test = ast.Call(func=ast.Name(id="isinstance", ctx=ast.Load()), args=[ast.Name(id=recv, ctx=ast.Load()), ast.Name(id=k.id, ctx=ast.Load())], keywords=[])
                    chain = [ast.copy_location(ast.If(test=test, body=[variant(k.id)], orelse=chain), st)]
                    ast.fix_missing_locations(chain[0])
                guard.body[i] = chain[0]
                n_done += 1
    return n_done


# ------------------------------------------------------------------ N15 loops over a small literal collection are unrolled

def _doc_precedes(fn, a, b):
    """statement a comes before statement b in the text of fn (document order of the tree as it is now, not line numbers)"""
    order = {}

    def rec(n):
        order[id(n)] = len(order)
        for c in ast.iter_child_nodes(n):
            rec(c)
    rec(fn)
    return id(a) in order and id(b) in order and order[id(a)] < order[id(b)]


def _unroll_literal_loops(fn):
    """`saved = {s: orig}` ... `for k, v in saved.items(): store[k] = v`  ->  `store[s] = orig`.
    Only when the collection is a literal of at most 4 entries made of plain names / constants / attribute chains, the name holding
    it (if any) is bound once and used for nothing but such loops, the body has no break/continue and does not rebind what it reads
    from the entries, and the loop variables are not read after the loop."""
    n_done = 0

    def simple(e):
        while isinstance(e, ast.Attribute):
            e = e.value
        return isinstance(e, (ast.Name, ast.Constant))
    stores, loads = {}, {}
    for n in _walk_local(fn):
        if isinstance(n, ast.Name):
            (stores if isinstance(n.ctx, (ast.Store, ast.Del)) else loads).setdefault(n.id, []).append(n)
    nested_names = {x.id for n in ast.walk(fn) if isinstance(n, FUNC + (ast.Lambda,)) and n is not fn for x in ast.walk(n) if isinstance(x, ast.Name)}
    for blk in _blocks(fn):
        i = 0
        while i < len(blk):
            lp = blk[i]
            i += 1
            if not isinstance(lp, ast.For) or lp.orelse:
                continue
            it, view = lp.iter, None
            if isinstance(it, ast.Call) and isinstance(it.func, ast.Attribute) and it.func.attr in ("items", "keys", "values") and not it.args and not it.keywords:
                it, view = it.func.value, it.func.attr
            lit = it
            if isinstance(it, ast.Name):
                defs = stores.get(it.id, [])
                if len(defs) != 1 or it.id in nested_names:
                    continue
                # the defining assignment: a plain statement of this function, before the loop
                d = next((x for b_ in _blocks(fn) for x in b_ if isinstance(x, ast.Assign) and len(x.targets) == 1 and x.targets[0] is defs[0]), None)
                if d is None or not _doc_precedes(fn, d, lp):
                    continue
                # every read of the name is the iterable of a for loop (directly or through .items()/.keys()/.values())
                iters = set()
                for f_ in _walk_local(fn):
                    if isinstance(f_, ast.For):
                        x = f_.iter
                        if isinstance(x, ast.Call) and isinstance(x.func, ast.Attribute) and x.func.attr in ("items", "keys", "values") and not x.args:
                            x = x.func.value
                        iters.add(id(x))
                if any(id(u) not in iters for u in loads.get(it.id, [])):
                    continue
                lit = d.value
            if isinstance(lit, ast.Dict):
                if any(k is None for k in lit.keys) or len(lit.keys) > 4 or not all(simple(x) for x in list(lit.keys) + list(lit.values)):
                    continue
                if len(lit.keys) > 1 and not (all(isinstance(k, ast.Constant) for k in lit.keys) and len({repr(k.value) for k in lit.keys}) == len(lit.keys)):
                    continue          # keys that may be equal at run time collapse into one entry
                entries = {"items": [ast.Tuple(elts=[k, v], ctx=ast.Load()) for k, v in zip(lit.keys, lit.values)], "keys": list(lit.keys), None: list(lit.keys), "values": list(lit.values)}[view]
            elif isinstance(lit, (ast.List, ast.Tuple)) and view is None:
                if len(lit.elts) > 4 or not all(simple(x) or (isinstance(x, ast.Tuple) and all(simple(y) for y in x.elts)) for x in lit.elts):
                    continue
                entries = list(lit.elts)
            else:
                continue
            tnames = [x.id for x in ast.walk(lp.target) if isinstance(x, ast.Name)]
            if not (isinstance(lp.target, ast.Name) or (isinstance(lp.target, ast.Tuple) and all(isinstance(x, ast.Name) for x in lp.target.elts))):
                continue
            body_nodes = [x for s_ in lp.body for x in ast.walk(s_)]
            if any(isinstance(x, (ast.Break, ast.Continue, ast.Yield, ast.YieldFrom) + FUNC + (ast.Lambda,)) for x in body_nodes):
                continue          # (a `return` in the body is fine: the copies run in the same order)
            stored_in_body = {x.id for x in body_nodes if isinstance(x, ast.Name) and isinstance(x.ctx, (ast.Store, ast.Del))}
            entry_names = {x.id for e in entries for x in ast.walk(e) if isinstance(x, ast.Name)}
            if stored_in_body & (entry_names | set(tnames)):
                continue
            if _read_before_rebound(blk[i:], set(tnames)):
                continue
            new = []
            ok = True
            for e in entries:
                if isinstance(lp.target, ast.Tuple):
                    if not (isinstance(e, ast.Tuple) and len(e.elts) == len(lp.target.elts)):
                        ok = False
                        break
                    mapping = {t.id: v for t, v in zip(lp.target.elts, e.elts)}
                else:
                    mapping = {lp.target.id: e}
                rn = _Renamer(mapping)
                new += [rn.visit(copy.deepcopy(s_)) for s_ in lp.body]
            if not ok:
                continue
            blk[i - 1:i] = new or [ast.copy_location(ast.Pass(), lp)]
            i = i - 1 + len(new or [1])
            n_done += 1
    return n_done


# ------------------------------------------------------------------ N18 an object that stands in for a closure -> closures

def _objects_to_closures(modname, tree, inv):
    """A NEW plain class whose __init__ only stores its parameters, whose fields are never written again, and that is instantiated at
    exactly one place, inside a function:  each method becomes a nested function of that function (`self.f` -> the value the field was
    given, `self.m(..)` -> the nested function, bare `self` -> the nested function made from __call__), and the instantiation
    disappears.  `_Runner(loop, cb).arm(h)` reads `arm(h)` with `arm` and the runner defined in place, which is what it was before
    somebody turned the closures into an object."""
    if inv is None:
        return 0
    n_done = 0
    for cls in [c for c in tree.body if isinstance(c, ast.ClassDef)]:
        if cls.bases or cls.keywords or cls.decorator_list or any(k.startswith(f"{modname}:{cls.name}.") for k in inv):
            continue
        meths = {}
        plain = True
        for x in cls.body:
            if isinstance(x, ast.FunctionDef) and not x.decorator_list:
                meths[x.name] = x
            elif isinstance(x, ast.Expr) and isinstance(x.value, ast.Constant):
                continue
            elif isinstance(x, ast.Pass):
                continue
            else:
                plain = False
        if not plain or "__init__" not in meths or len(meths) < 2:
            continue
        if any(n_.startswith("__") and n_ not in ("__init__", "__call__") for n_ in meths):
            continue
        init = meths["__init__"]
        fields = {}
        ok = True
        for st in _helper_body(init):
            if isinstance(st, ast.Assign) and len(st.targets) == 1 and isinstance(st.targets[0], ast.Attribute) and isinstance(st.targets[0].value, ast.Name) and st.targets[0].value.id == "self" \
                    and st.targets[0].attr not in fields and not any(isinstance(x, ast.Name) and x.id == "self" for x in ast.walk(st.value)):
                fields[st.targets[0].attr] = st.value
            else:
                ok = False
        if not ok or not fields:
            continue
        # fields are never written outside __init__ (anywhere in the module), methods use self only as self.<field> / self.<method>(..) / the object itself
        own_ids = {id(x) for x in ast.walk(cls)}
        if any(isinstance(x, ast.Attribute) and isinstance(x.ctx, (ast.Store, ast.Del)) and x.attr in fields and
               ((id(x) in own_ids) or not (isinstance(x.value, ast.Name) and x.value.id == "self"))
               for f_ in ast.walk(tree) if isinstance(f_, FUNC) and f_ is not init for x in ast.walk(f_)):
            continue          # a method of the class, or code holding some object by another name, writes a field of that name
        bare_self = False
        for nm, m in meths.items():
            if nm == "__init__":
                continue
            if not m.args.args or m.args.args[0].arg != "self" or m.args.vararg or m.args.kwarg or m.args.kwonlyargs:
                ok = False
                break
            par = {}
            for p_ in ast.walk(m):
                for c in ast.iter_child_nodes(p_):
                    par[id(c)] = p_
            for x in ast.walk(m):
                if isinstance(x, FUNC + (ast.Lambda,)) and x is not m:
                    ok = False
                if isinstance(x, ast.Name) and x.id == "self":
                    p_ = par.get(id(x))
                    if isinstance(p_, ast.Attribute) and p_.value is x:
                        if p_.attr in fields and isinstance(p_.ctx, ast.Load):
                            continue
                        if p_.attr in meths and p_.attr != "__init__" and isinstance(par.get(id(p_)), ast.Call) and par[id(p_)].func is p_:
                            continue
                        ok = False
                    elif isinstance(x.ctx, ast.Load):
                        bare_self = True
                    else:
                        ok = False
        if not ok or (bare_self and "__call__" not in meths):
            continue
        # exactly one mention of the class outside itself: a call, inside a function
        inside = {id(x) for x in ast.walk(cls)}
        mentions = [x for x in ast.walk(tree) if id(x) not in inside and ((isinstance(x, ast.Name) and x.id == cls.name) or (isinstance(x, ast.Attribute) and x.attr == cls.name))]
        if len(mentions) != 1 or not isinstance(mentions[0], ast.Name):
            continue
        site_fn = site_blk = site_idx = site_call = None
        for fn in [x for x in ast.walk(tree) if isinstance(x, FUNC) and id(x) not in inside]:
            for blk in _blocks(fn):
                for i, st in enumerate(blk):
                    if isinstance(st, FUNC + (ast.ClassDef, ast.If, ast.For, ast.AsyncFor, ast.While, ast.Try, ast.With, ast.AsyncWith)):
                        continue
                    for c in ast.walk(st):
                        if isinstance(c, ast.Call) and c.func is mentions[0]:
                            site_fn, site_blk, site_idx, site_call = fn, blk, i, c
        if site_call is None:
            continue
        st = site_blk[site_idx]
        try:
            prefix, mapping = _bind(init, site_call, True)
        except _NotInlinable:
            continue
        suffix = "__" + cls.name.lstrip("_")
        fn_locals_multi = {}
        for x in _walk_local(site_fn):
            if isinstance(x, ast.Name) and isinstance(x.ctx, (ast.Store, ast.Del)):
                fn_locals_multi[x.id] = fn_locals_multi.get(x.id, 0) + 1
        field_expr, field_pre = {}, []
        for f_, v in fields.items():
            e = _Renamer(mapping).visit(copy.deepcopy(v))
            names = {x.id for x in ast.walk(e) if isinstance(x, ast.Name)}
            if _simple_arg(e) and all(fn_locals_multi.get(n_, 0) <= 1 for n_ in names):
                field_expr[f_] = e                    # a plain name that this function binds at most once: the field IS that value
            else:
                nm = f_ + suffix
                field_pre.append(ast.copy_location(ast.Assign(targets=[ast.Name(id=nm, ctx=ast.Store())], value=e, lineno=st.lineno), st))
                field_expr[f_] = ast.Name(id=nm, ctx=ast.Load())
        fname = {nm: (("call" if nm == "__call__" else nm.lstrip("_")) + suffix) for nm in meths if nm != "__init__"}

        class Conv(ast.NodeTransformer):
            def visit_Attribute(self, node):
                if isinstance(node.value, ast.Name) and node.value.id == "self":
                    if node.attr in fields:
                        return ast.copy_location(copy.deepcopy(field_expr[node.attr]), node)
                    return ast.copy_location(ast.Name(id=fname[node.attr], ctx=ast.Load()), node)
                self.generic_visit(node)
                return node

            def visit_Name(self, node):
                if node.id == "self":
                    return ast.copy_location(ast.Name(id=fname["__call__"], ctx=ast.Load()), node)
                return node
        defs = []
        clash = False
        site_names = {x.id for x in ast.walk(site_fn) if isinstance(x, ast.Name)} | {a.arg for a in site_fn.args.args}
        for nm, m in meths.items():
            if nm == "__init__":
                continue
            own = {a.arg for a in m.args.args} | {x.id for x in _walk_local(m) if isinstance(x, ast.Name) and isinstance(x.ctx, (ast.Store, ast.Del))}
            used_outer = {x.id for e in field_expr.values() for x in ast.walk(e) if isinstance(x, ast.Name)}
            if own & used_outer or fname[nm] in site_names:
                clash = True                          # a local of the method would shadow what a field stands for
            d = copy.deepcopy(m)
            d.name = fname[nm]
            d.args.args = d.args.args[1:]
            d.body = [Conv().visit(s_) for s_ in d.body]
            ast.copy_location(d, st)
            ast.fix_missing_locations(d)
            defs.append(d)
        if clash:
            continue
        # the use: K(args).m(...)  |  K(args) as a value (callable)  |  v = K(args) with v.m(...) / v(...) / v
        par = {}
        for p_ in ast.walk(st):
            for c in ast.iter_child_nodes(p_):
                par[id(c)] = p_
        up = par.get(id(site_call))
        if isinstance(up, ast.Attribute) and up.value is site_call and up.attr in fname and isinstance(par.get(id(up)), ast.Call) and par[id(up)].func is up:
            _replace_node(st, up, ast.copy_location(ast.Name(id=fname[up.attr], ctx=ast.Load()), up))
        elif isinstance(st, ast.Assign) and st.value is site_call and len(st.targets) == 1 and isinstance(st.targets[0], ast.Name) and fn_locals_multi.get(st.targets[0].id) == 1:
            v = st.targets[0].id
            bad = False
            fpar = {}
            for p_ in ast.walk(site_fn):
                for c in ast.iter_child_nodes(p_):
                    fpar[id(c)] = p_
            uses = [x for x in ast.walk(site_fn) if isinstance(x, ast.Name) and x.id == v and isinstance(x.ctx, ast.Load)]
            for u in uses:
                p_ = fpar.get(id(u))
                if isinstance(p_, ast.Attribute) and p_.value is u:
                    if p_.attr in fname and isinstance(fpar.get(id(p_)), ast.Call) and fpar[id(p_)].func is p_:
                        continue
                    bad = True
                elif "__call__" not in meths:
                    bad = True
            if bad:
                continue
            for u in uses:
                p_ = fpar.get(id(u))
                if isinstance(p_, ast.Attribute) and p_.value is u:
                    _replace_node(site_fn, p_, ast.copy_location(ast.Name(id=fname[p_.attr], ctx=ast.Load()), p_))
                else:
                    _replace_node(site_fn, u, ast.copy_location(ast.Name(id=fname["__call__"], ctx=ast.Load()), u))
            site_blk[site_idx] = ast.copy_location(ast.Pass(), st)
        elif "__call__" in meths:
            _replace_node(st, site_call, ast.copy_location(ast.Name(id=fname["__call__"], ctx=ast.Load()), site_call))
        else:
            continue
        for x in prefix + field_pre:
            ast.fix_missing_locations(x)
        site_blk[site_idx:site_idx] = prefix + field_pre + defs
        tree.body[tree.body.index(cls)] = ast.copy_location(ast.Pass(), cls)
        n_done += 1
    return n_done


# ------------------------------------------------------------------ N17 functions defined differently in the two arms of an `if`

def _merge_conditional_defs(fn):
    """`if c: def f(h): A  else: def f(h): B`  ->  `def f(h): if c: A else: B`   (an arm may also say `g = f` for a function of the same arm).
    Only when c reads nothing but parameters of the enclosing function that are never re-bound (so deciding at call time is deciding
    at definition time), both arms define exactly the same names with the same parameter lists, and nothing else binds those names."""
    n_done = 0
    params = {a.arg for a in fn.args.posonlyargs + fn.args.args + fn.args.kwonlyargs}
    stored = {}
    for x in _walk_local(fn):
        if isinstance(x, ast.Name) and isinstance(x.ctx, (ast.Store, ast.Del)):
            stored[x.id] = stored.get(x.id, 0) + 1
    for blk in _blocks(fn):
        for i, st in enumerate(blk):
            if not isinstance(st, ast.If) or not st.orelse:
                continue
            if any(not isinstance(x, (ast.Name, ast.Constant, ast.Compare, ast.BoolOp, ast.UnaryOp, ast.boolop, ast.unaryop, ast.cmpop, ast.expr_context)) for x in ast.walk(st.test)):
                continue
            if any(isinstance(x, ast.Name) and (x.id not in params or x.id in stored) for x in ast.walk(st.test)):
                continue

            def arm(stmts):
                out = {}
                for s_ in stmts:
                    if isinstance(s_, ast.FunctionDef) and not s_.decorator_list and not s_.args.defaults and not s_.args.vararg and not s_.args.kwarg and not s_.args.kwonlyargs:
                        if s_.name in out:
                            return None
                        out[s_.name] = s_
                    elif isinstance(s_, ast.Assign) and len(s_.targets) == 1 and isinstance(s_.targets[0], ast.Name) and isinstance(s_.value, ast.Name) and s_.value.id in out \
                            and isinstance(out[s_.value.id], ast.FunctionDef) and s_.targets[0].id not in out:
                        out[s_.targets[0].id] = ("alias", s_.value.id)
                    elif isinstance(s_, ast.Pass) or (isinstance(s_, ast.Expr) and isinstance(s_.value, ast.Constant)):
                        continue
                    else:
                        return None
                return out
            A, B = arm(st.body), arm(st.orelse)
            if not A or not B or set(A) != set(B):
                continue
            # nothing else in the function binds these names (the two definitions / aliases are their only bindings)
            n_bind = {}
            for x in ast.walk(fn):
                if isinstance(x, FUNC) and x is not fn and x.name in A:
                    n_bind[x.name] = n_bind.get(x.name, 0) + 1
                elif isinstance(x, ast.Name) and x.id in A and isinstance(x.ctx, (ast.Store, ast.Del)):
                    n_bind[x.id] = n_bind.get(x.id, 0) + 1
            if any(n_bind.get(nm, 0) != 2 for nm in A):
                continue

            def sig(nm, M):
                d = M[nm]
                if isinstance(d, tuple):
                    d = M[d[1]]
                return [a.arg for a in d.args.args]
            if any(sig(nm, A) != sig(nm, B) for nm in A):
                continue
            merged = []
            for nm in A:
                proto = A[nm] if not isinstance(A[nm], tuple) else (B[nm] if not isinstance(B[nm], tuple) else A[A[nm][1]])
                ps = sig(nm, A)

                def body_of(M):
                    d = M[nm]
                    if isinstance(d, tuple):
                        return [ast.Return(value=ast.Call(func=ast.Name(id=d[1], ctx=ast.Load()), args=[ast.Name(id=p_, ctx=ast.Load()) for p_ in ps], keywords=[]))]
                    return [copy.deepcopy(s_) for s_ in d.body]
                new = ast.FunctionDef(name=nm, args=copy.deepcopy(proto.args), decorator_list=[], returns=None, type_comment=None,
                                      body=[ast.If(test=copy.deepcopy(st.test), body=body_of(A), orelse=body_of(B))])
                if hasattr(proto, "type_params"):
                    new.type_params = []
                ast.copy_location(new, st)
                ast.fix_missing_locations(new)
                merged.append(new)
            blk[i:i + 1] = merged
            n_done += 1
            break
    return n_done


def _fold_repeated_tests(fn, inherited=frozenset()):
    """`if c: (if c: A else: B)` -> `if c: A` when c reads only parameters (of this function or of the functions around it) that are
    never re-bound: its value cannot change in between"""
    params = {a.arg for a in fn.args.posonlyargs + fn.args.args + fn.args.kwonlyargs}
    stored = {x.id for x in _walk_local(fn) if isinstance(x, ast.Name) and isinstance(x.ctx, (ast.Store, ast.Del))}
    if any(isinstance(x, (ast.Nonlocal, ast.Global)) for x in ast.walk(fn)):
        return 0
    good = ({p_ for p_ in params if p_ not in stored} | {x for x in inherited if x not in stored and x not in params})
    n = 0

    def stable(t):
        return all(isinstance(x, (ast.Name, ast.Constant, ast.Compare, ast.BoolOp, ast.UnaryOp, ast.boolop, ast.unaryop, ast.cmpop, ast.expr_context)) for x in ast.walk(t)) and \
            all(x.id in good for x in ast.walk(t) if isinstance(x, ast.Name))

    def rec(stmts, known):
        nonlocal n
        out = []
        for st in stmts:
            if isinstance(st, ast.If) and stable(st.test):
                key = ast.dump(st.test)
                if key in known:
                    out += rec(st.body if known[key] else st.orelse, known)
                    n += 1
                    continue
                st.body = rec(st.body, {**known, key: True}) or [ast.copy_location(ast.Pass(), st)]
                st.orelse = rec(st.orelse, {**known, key: False})
            elif isinstance(st, FUNC):
                n += _fold_repeated_tests(st, frozenset(good))
            elif isinstance(st, ast.ClassDef):
                pass
            else:
                for fld in ("body", "orelse", "finalbody"):
                    sub = getattr(st, fld, None)
                    if isinstance(sub, list) and sub and isinstance(sub[0], ast.stmt):
                        setattr(st, fld, rec(sub, known))
                for h in getattr(st, "handlers", []) or []:
                    h.body = rec(h.body, known)
            out.append(st)
        return out
    fn.body = rec(fn.body, {})
    return n


# ------------------------------------------------------------------ N20 new read-only properties used only on self -> methods

def _properties_to_methods(modname, tree, inv):
    """a NEW `@property def p(self)` whose every mention in the module is a read `self.p` inside the class that defines it:
    the decorator goes and each read becomes the call `self.p()` - which the inliner then treats like any other new helper"""
    if inv is None:
        return 0
    n_done = 0
    for cls in [c for c in ast.walk(tree) if isinstance(c, ast.ClassDef)]:
        for m in [x for x in cls.body if isinstance(x, ast.FunctionDef)]:
            if not (len(m.decorator_list) == 1 and isinstance(m.decorator_list[0], ast.Name) and m.decorator_list[0].id == "property"):
                continue
            if f"{modname}:{cls.name}.{m.name}" in inv or len(m.args.args) != 1:
                continue
            if sum(1 for x in cls.body if isinstance(x, ast.FunctionDef) and x.name == m.name) != 1:
                continue            # setter / deleter
            own = {id(x) for x in ast.walk(cls)}
            sites, ok = [], True
            parents = {}
            for p_ in ast.walk(tree):
                for c in ast.iter_child_nodes(p_):
                    parents[id(c)] = p_
            for x in ast.walk(tree):
                if isinstance(x, ast.Attribute) and x.attr == m.name:
                    if id(x) in own and isinstance(x.ctx, ast.Load) and isinstance(x.value, ast.Name) and x.value.id == "self" and \
                            not (isinstance(parents.get(id(x)), ast.Call) and parents[id(x)].func is x):
                        sites.append(x)
                    else:
                        ok = False
                elif isinstance(x, ast.Constant) and x.value == m.name:
                    ok = False          # getattr(obj, "p") and the like
            if not ok or not sites:
                continue
            # subclasses in this module must not redefine the name
            if any(isinstance(c, ast.ClassDef) and c is not cls and any(isinstance(f_, FUNC) and f_.name == m.name for f_ in c.body) for c in ast.walk(tree)):
                continue
            m.decorator_list = []
            for x in sites:
                call = ast.copy_location(ast.Call(func=ast.Attribute(value=ast.Name(id="self", ctx=ast.Load()), attr=m.name, ctx=ast.Load()), args=[], keywords=[]), x)
                _replace_node(tree, x, call)
            n_done += 1
    if n_done:
        ast.fix_missing_locations(tree)
    return n_done


# ------------------------------------------------------------------ N21 new wrapping decorators are applied to the text

def _apply_new_decorators(modname, tree, inv):
    """`def deco(method): @wraps(method) def w(self, *args, **kwargs): <pre>; return method(self, *args, **kwargs)  [inside with/try]; return w`
    with deco NEW: a function decorated with it becomes that function with the wrapper's text around its body (`with self.lock: body`,
    `assert ...; body`).  The wrapper must forward exactly (self, *args, **kwargs), call the method once, in return position, and use
    args/kwargs for nothing else."""
    if inv is None:
        return 0
    decos = {}
    for f in [x for x in tree.body if isinstance(x, ast.FunctionDef)]:
        if f"{modname}:{f.name}" in inv or f.decorator_list or len(f.args.args) != 1 or f.args.vararg or f.args.kwarg:
            continue
        b = _helper_body(f)
        if len(b) != 2 or not isinstance(b[0], ast.FunctionDef) or not (isinstance(b[1], ast.Return) and isinstance(b[1].value, ast.Name) and b[1].value.id == b[0].name):
            continue
        w, mname = b[0], f.args.args[0].arg
        if any(not (isinstance(d, ast.Call) and _dotted(d.func) in ("functools.wraps", "wraps") and len(d.args) == 1 and isinstance(d.args[0], ast.Name) and d.args[0].id == mname)
               for d in w.decorator_list):
            continue
        a = w.args
        if a.kwonlyargs or a.posonlyargs or a.defaults or not a.vararg or not a.kwarg or len(a.args) > 1:
            continue
        selfname = a.args[0].arg if a.args else None
        va, kw = a.vararg.arg, a.kwarg.arg
        calls = [c for c in ast.walk(w) if isinstance(c, ast.Call) and isinstance(c.func, ast.Name) and c.func.id == mname]
        if len(calls) != 1:
            continue
        c = calls[0]
        want = ([selfname] if selfname else [])
        got = [x.id for x in c.args if isinstance(x, ast.Name)]
        star = [x for x in c.args if isinstance(x, ast.Starred)]
        if got != want or len(star) != 1 or not (isinstance(star[0].value, ast.Name) and star[0].value.id == va) or len(c.args) != len(want) + 1 or \
                len(c.keywords) != 1 or c.keywords[0].arg is not None or not (isinstance(c.keywords[0].value, ast.Name) and c.keywords[0].value.id == kw):
            continue
        uses = [x for x in ast.walk(w) if isinstance(x, ast.Name) and x.id in (va, kw, mname)]
        if len(uses) != 3 + len(w.decorator_list):
            continue          # args / kwargs / the method are used for something besides the one forwarding call
        # the call is the value of a `return` statement
        ret = next((r for r in ast.walk(w) if isinstance(r, ast.Return) and r.value is c), None)
        if ret is None or any(isinstance(x, FUNC + (ast.Lambda,)) for x in ast.walk(w) if x is not w):
            continue
        if any(isinstance(x, (ast.For, ast.AsyncFor, ast.While)) and any(y is ret for y in ast.walk(x)) for x in ast.walk(w)):
            continue
        decos[f.name] = (f, w, selfname, ret)
    if not decos:
        return 0
    n_done = 0
    for fn in [x for x in ast.walk(tree) if isinstance(x, ast.FunctionDef)]:
        while fn.decorator_list and isinstance(fn.decorator_list[-1], ast.Name) and fn.decorator_list[-1].id in decos:
            f, w, selfname, ret = decos[fn.decorator_list[-1].id]
            if fn.args.vararg and False:
                break
            own_first = fn.args.args[0].arg if fn.args.args else None
            if selfname and own_first is None:
                break
            # names: the wrapper's locals must not collide with the function's
            wl = {x.id for x in ast.walk(w) if isinstance(x, ast.Name) and isinstance(x.ctx, (ast.Store, ast.Del))}
            fl = {x.id for x in ast.walk(fn) if isinstance(x, ast.Name)} | {a_.arg for a_ in fn.args.args}
            if wl & fl:
                break
            if _would_capture(w, fn):
                break
            wbody = [copy.deepcopy(s_) for s_ in _helper_body(w)]
            body = list(fn.body)
            doc = []
            if body and isinstance(body[0], ast.Expr) and isinstance(body[0].value, ast.Constant) and isinstance(body[0].value.value, str):
                doc, body = [body[0]], body[1:]
            if not _always_returns(body):
                body = body + [ast.copy_location(ast.Return(value=ast.Constant(value=None)), fn)]
            done = [False]

            def splice(stmts):
                out = []
                for s_ in stmts:
                    if isinstance(s_, ast.Return) and isinstance(s_.value, ast.Call) and isinstance(s_.value.func, ast.Name) and s_.value.func.id == f.args.args[0].arg:
                        out += body
                        done[0] = True
                        continue
                    for fld in ("body", "orelse", "finalbody"):
                        sub = getattr(s_, fld, None)
                        if isinstance(sub, list) and sub and isinstance(sub[0], ast.stmt):
                            setattr(s_, fld, splice(sub))
                    for h in getattr(s_, "handlers", []) or []:
                        h.body = splice(h.body)
                    out.append(s_)
                return out
            new_body = splice(wbody)
            if not done[0]:
                break
            if selfname and own_first != selfname:
                new_body = [_Renamer({selfname: own_first}).visit(s_) if not any(s_ is b_ for b_ in body) else s_ for s_ in new_body]
            fn.body = doc + new_body
            fn.decorator_list.pop()
            ast.fix_missing_locations(fn)
            n_done += 1
    if n_done:
        for name, (f, *_r) in decos.items():
            inside = {id(x) for x in ast.walk(f)}
            if not any(isinstance(x, ast.Name) and x.id == name and id(x) not in inside for x in ast.walk(tree)) and f in tree.body:
                tree.body[tree.body.index(f)] = ast.copy_location(ast.Pass(), f)
    return n_done


# ------------------------------------------------------------------ N23 new NamedTuple records -> plain tuples

def _named_tuples_to_tuples(modname, tree, inv):
    """a NEW `class R(NamedTuple)` with annotated fields only, used for nothing but construction `R(..)` and field reads `x.f`:
    constructions become tuple displays in field order and `x.f` becomes `x[k]`.  A field name must not be an attribute anybody
    defines or stores in this module (then `.f` can only be a read of such a record) and must not be spelled on a module alias."""
    if inv is None:
        return 0
    n_done = 0
    imported = {a.asname or a.name.split(".")[0] for n in ast.walk(tree) if isinstance(n, (ast.Import, ast.ImportFrom)) for a in n.names}
    for cls in [c for c in tree.body if isinstance(c, ast.ClassDef)]:
        if len(cls.bases) != 1 or _dotted(cls.bases[0]) not in ("NamedTuple", "typing.NamedTuple") or cls.decorator_list:
            continue
        if any(k.startswith(f"{modname}:{cls.name}.") for k in inv):
            continue
        fields = []
        ok = True
        for x in cls.body:
            if isinstance(x, ast.AnnAssign) and isinstance(x.target, ast.Name) and x.value is None:
                fields.append(x.target.id)
            elif isinstance(x, ast.Expr) and isinstance(x.value, ast.Constant):
                continue
            elif isinstance(x, ast.Pass):
                continue
            else:
                ok = False          # defaults, methods
        if not ok or not fields:
            continue
        inside = {id(x) for x in ast.walk(cls)}
        parents = {}
        for p_ in ast.walk(tree):
            for c in ast.iter_child_nodes(p_):
                parents[id(c)] = p_
        ctor_calls = []
        for x in ast.walk(tree):
            if id(x) in inside:
                continue
            if isinstance(x, ast.Name) and x.id == cls.name:
                p_ = parents.get(id(x))
                if isinstance(p_, ast.Call) and p_.func is x:
                    ctor_calls.append(p_)
                else:
                    ok = False      # isinstance, annotations, subclassing, ...
            elif isinstance(x, ast.Attribute) and x.attr == cls.name:
                ok = False
        if not ok:
            continue
        reads = []
        for x in ast.walk(tree):
            if isinstance(x, ast.Attribute) and (x.attr in fields or x.attr in ("_replace", "_asdict", "_fields", "_make")):
                if x.attr.startswith("_") and x.attr not in fields:
                    ok = False
                elif not isinstance(x.ctx, ast.Load) or (isinstance(x.value, ast.Name) and x.value.id in imported | {"self", "cls"}):
                    ok = False
                else:
                    reads.append(x)
            elif isinstance(x, (ast.FunctionDef, ast.AsyncFunctionDef, ast.ClassDef)) and x.name in fields and id(x) not in inside:
                ok = False
            elif isinstance(x, ast.keyword) and x.arg in fields and not any(x in c.keywords for c in ctor_calls):
                pass
        if not ok:
            continue
        tuples = []
        for c in ctor_calls:
            vals = {}
            if any(isinstance(a, ast.Starred) for a in c.args) or any(k.arg is None for k in c.keywords) or len(c.args) > len(fields):
                ok = False
                break
            for f_, a in zip(fields, c.args):
                vals[f_] = a
            for k in c.keywords:
                if k.arg not in fields or k.arg in vals:
                    ok = False
                vals[k.arg] = k.value
            if not ok or set(vals) != set(fields):
                ok = False
                break
            # keyword arguments are evaluated in the order written: keep that order only if it is the field order or the values are plain
            written = [a for a in c.args] + [k.value for k in c.keywords]
            ordered = [vals[f_] for f_ in fields]
            if [id(v) for v in written] != [id(v) for v in ordered] and not all(_simple_arg(v) for v in written):
                ok = False
                break
            tuples.append((c, ast.copy_location(ast.Tuple(elts=ordered, ctx=ast.Load()), c)))
        if not ok:
            continue
        for c, t in tuples:
            _replace_node(tree, c, t)
        for x in reads:
            _replace_node(tree, x, ast.copy_location(ast.Subscript(value=x.value, slice=ast.Constant(value=fields.index(x.attr)), ctx=ast.Load()), x))
        tree.body[tree.body.index(cls)] = ast.copy_location(ast.Pass(), cls)
        n_done += 1
    if n_done:
        ast.fix_missing_locations(tree)
    return n_done


# ------------------------------------------------------------------ N24 a new dict/list subclass that only adds helper methods

_CONTAINER_BASES = {"dict": dict, "list": list, "set": set}


def _container_helper_classes(modname, tree, inv):
    """{class name: ClassDef} for NEW classes `class K(dict)` (list, set) that define nothing but plain methods with names the base
    type does not have, are only ever instantiated as `K()`, and whose method names are used in this module for nothing but calls"""
    out = {}
    if inv is None:
        return out
    all_defs = {}
    for x in ast.walk(tree):
        if isinstance(x, FUNC):
            all_defs[x.name] = all_defs.get(x.name, 0) + 1
    parents = {}
    for p_ in ast.walk(tree):
        for c in ast.iter_child_nodes(p_):
            parents[id(c)] = p_
    for cls in [c for c in tree.body if isinstance(c, ast.ClassDef)]:
        if len(cls.bases) != 1 or not (isinstance(cls.bases[0], ast.Name) and cls.bases[0].id in _CONTAINER_BASES) or cls.decorator_list or cls.keywords:
            continue
        if any(k.startswith(f"{modname}:{cls.name}.") for k in inv):
            continue
        meths = [x for x in cls.body if not (isinstance(x, ast.Pass) or (isinstance(x, ast.Expr) and isinstance(x.value, ast.Constant)))]
        if not meths or not all(isinstance(x, ast.FunctionDef) and not x.decorator_list and not x.name.startswith("__") and x.args.args and x.args.args[0].arg == "self" for x in meths):
            continue
        base = _CONTAINER_BASES[cls.bases[0].id]
        names = {x.name for x in meths}
        if names & set(dir(base)) or any(all_defs.get(n_, 0) != 1 for n_ in names):
            continue
        if any(isinstance(n, ast.Name) and n.id in ("super", "__class__") for x in meths for n in ast.walk(x)):
            continue
        inside = {id(x) for x in ast.walk(cls)}
        ok = True
        for x in ast.walk(tree):
            if id(x) in inside:
                continue
            if isinstance(x, ast.Name) and x.id == cls.name:
                p_ = parents.get(id(x))
                if not (isinstance(p_, ast.Call) and p_.func is x and not p_.args and not p_.keywords):
                    ok = False
            elif isinstance(x, ast.Attribute) and x.attr == cls.name:
                ok = False
            elif isinstance(x, ast.Attribute) and x.attr in names:
                p_ = parents.get(id(x))
                if not (isinstance(p_, ast.Call) and p_.func is x and _simple_arg(x.value) and isinstance(x.ctx, ast.Load)):
                    ok = False
                # the receiver must be KNOWN to hold an instance: `self.<attr>` (or a local) every binding of which in this module is `K()`
                rv = x.value
                key = rv.attr if isinstance(rv, ast.Attribute) and isinstance(rv.value, ast.Name) and rv.value.id == "self" else (rv.id if isinstance(rv, ast.Name) else None)
                if key is None:
                    ok = False
                else:
                    binds = [a_ for a_ in ast.walk(tree) if isinstance(a_, (ast.Assign, ast.AnnAssign)) and any(
                        (isinstance(t_, ast.Attribute) and t_.attr == key) or (isinstance(t_, ast.Name) and t_.id == key) for t_ in (a_.targets if isinstance(a_, ast.Assign) else [a_.target]))]
                    if not binds or not all(isinstance(getattr(a_, "value", None), ast.Call) and isinstance(a_.value.func, ast.Name) and a_.value.func.id == cls.name for a_ in binds):
                        ok = False
                    if isinstance(rv, ast.Name) and any(isinstance(a_, ast.arg) and a_.arg == key for a_ in ast.walk(tree)):
                        ok = False
            elif isinstance(x, ast.Constant) and x.value in names:
                ok = False
        if ok:
            out[cls.name] = cls
    return out


def _container_methods_as_functions(modname, tree, inv):
    """`recv.m(a)` -> `K.m(recv, a)` for the helper methods of such a class (the inliner then treats it like any helper), see above"""
    classes = _container_helper_classes(modname, tree, inv)
    n = 0
    for cname, cls in classes.items():
        names = {x.name for x in cls.body if isinstance(x, ast.FunctionDef)}
        inside = {id(x) for x in ast.walk(cls)}
        for c in [x for x in ast.walk(tree) if isinstance(x, ast.Call) and id(x) not in inside and isinstance(x.func, ast.Attribute) and x.func.attr in names]:
            recv = c.func.value
            c.func = ast.copy_location(ast.Attribute(value=ast.Name(id=cname, ctx=ast.Load()), attr=c.func.attr, ctx=ast.Load()), c.func)
            c.args = [recv] + c.args
            n += 1
    if n:
        ast.fix_missing_locations(tree)
    return n, set(classes)


def _drop_emptied_containers(tree, names):
    """after inlining: a helper class that has no method left is its base type; `K()` -> `dict()`"""
    n = 0
    for cls in [c for c in tree.body if isinstance(c, ast.ClassDef) and c.name in names]:
        if any(isinstance(x, FUNC) for x in cls.body):
            continue
        if any(isinstance(x, ast.Attribute) and isinstance(x.value, ast.Name) and x.value.id == cls.name for x in ast.walk(tree)):
            continue
        base = cls.bases[0].id
        for c in [x for x in ast.walk(tree) if isinstance(x, ast.Call) and isinstance(x.func, ast.Name) and x.func.id == cls.name]:
            lit = {"dict": ast.Dict(keys=[], values=[]), "list": ast.List(elts=[], ctx=ast.Load())}.get(base)
            if lit is not None:
                _replace_node(tree, c, ast.copy_location(lit, c))
            else:
                c.func = ast.copy_location(ast.Name(id=base, ctx=ast.Load()), c.func)
        tree.body[tree.body.index(cls)] = ast.copy_location(ast.Pass(), cls)
        n += 1
    if n:
        ast.fix_missing_locations(tree)
    return n


def _apply_decorator_factories(modname, tree, inv):
    """N21b: `@factory(a)` / `@deco` with a NEW wrapper of FIXED parameters, possibly a coroutine:
        def factory(p): def decorate(handler): async def w(request): <pre> return await handler(request) <handlers>; return w; return decorate
    The decorated function gets the wrapper's text around its body; what the factory's parameters were bound to becomes extra
    defaulted parameters of the function (evaluated when it is defined, as the decorator's arguments were)."""
    if inv is None:
        return 0

    def wrapper_of(decorate):
        b = _helper_body(decorate)
        if len(decorate.args.args) != 1 or decorate.args.vararg or decorate.args.kwarg or decorate.decorator_list:
            return None
        if len(b) != 2 or not isinstance(b[0], FUNC) or not (isinstance(b[1], ast.Return) and isinstance(b[1].value, ast.Name) and b[1].value.id == b[0].name):
            return None
        w, hname = b[0], decorate.args.args[0].arg
        if any(not (isinstance(d, ast.Call) and _dotted(d.func) in ("functools.wraps", "wraps")) for d in w.decorator_list):
            return None
        a = w.args
        if a.vararg or a.kwarg or a.kwonlyargs or a.posonlyargs or a.defaults or not a.args:
            return None
        ps = [x.arg for x in a.args]
        calls = [c for c in ast.walk(w) if isinstance(c, ast.Call) and isinstance(c.func, ast.Name) and c.func.id == hname]
        if len(calls) != 1 or calls[0].keywords or [x.id if isinstance(x, ast.Name) else None for x in calls[0].args] != ps:
            return None
        uses = [x for x in ast.walk(w) if isinstance(x, ast.Name) and x.id == hname]
        if len(uses) != 1 + len(w.decorator_list):
            return None
        is_async = isinstance(w, ast.AsyncFunctionDef)
        ret = next((r for r in ast.walk(w) if isinstance(r, ast.Return) and ((r.value is calls[0] and not is_async) or
                                                                                (is_async and isinstance(r.value, ast.Await) and r.value.value is calls[0]))), None)
        if ret is None or any(isinstance(x, FUNC + (ast.Lambda,)) for x in ast.walk(w) if x is not w):
            return None
        if any(isinstance(x, (ast.For, ast.AsyncFor, ast.While)) and any(y is ret for y in ast.walk(x)) for x in ast.walk(w)):
            return None
        return w, hname, ps, ret

    plain, factories = {}, {}
    for f in [x for x in tree.body if isinstance(x, ast.FunctionDef)]:
        if f"{modname}:{f.name}" in inv or f.decorator_list or f.args.vararg or f.args.kwarg or f.args.kwonlyargs:
            continue
        got = wrapper_of(f)
        if got is not None:
            plain[f.name] = (f, None) + got
            continue
        b = _helper_body(f)
        if len(b) == 2 and isinstance(b[0], ast.FunctionDef) and isinstance(b[1], ast.Return) and isinstance(b[1].value, ast.Name) and b[1].value.id == b[0].name and not f.args.defaults:
            got = wrapper_of(b[0])
            if got is not None:
                fparams = [x.arg for x in f.args.args]
                w = got[0]
                # the factory's parameters are only read inside the wrapper
                if not any(isinstance(x, ast.Name) and x.id in fparams and isinstance(x.ctx, (ast.Store, ast.Del)) for x in ast.walk(f)):
                    factories[f.name] = (f, fparams) + got
    if not plain and not factories:
        return 0
    n_done = 0
    for fn in [x for x in ast.walk(tree) if isinstance(x, FUNC)]:
        while fn.decorator_list:
            d = fn.decorator_list[-1]
            entry, dargs = None, []
            if isinstance(d, ast.Name) and d.id in plain:
                entry = plain[d.id]
            elif isinstance(d, ast.Call) and isinstance(d.func, ast.Name) and d.func.id in factories and not d.keywords and all(_simple_arg(x) for x in d.args):
                entry, dargs = factories[d.func.id], list(d.args)
            if entry is None:
                break
            f, fparams, w, hname, ps, ret = entry
            if fparams is not None and len(dargs) != len(fparams):
                break
            if isinstance(w, ast.AsyncFunctionDef) != isinstance(fn, ast.AsyncFunctionDef):
                break
            a = fn.args
            if a.vararg or a.kwarg or a.kwonlyargs or a.posonlyargs or len(a.args) < len(ps) or len(a.args) - len(a.defaults) != len(ps):
                break          # exactly the forwarded parameters are required, the rest are defaulted
            own = [x.arg for x in a.args]
            wl = {x.id for x in ast.walk(w) if isinstance(x, ast.Name) and isinstance(x.ctx, (ast.Store, ast.Del))} | {h.name for h in ast.walk(w) if isinstance(h, ast.ExceptHandler) and h.name}
            fl = {x.id for x in ast.walk(fn) if isinstance(x, ast.Name)} | set(own)
            if (wl & fl) or (set(fparams or []) & fl) or _would_capture(w, fn):
                break
            wbody = [copy.deepcopy(s_) for s_ in _helper_body(w)]
            body = list(fn.body)
            doc = []
            if body and isinstance(body[0], ast.Expr) and isinstance(body[0].value, ast.Constant) and isinstance(body[0].value.value, str):
                doc, body = [body[0]], body[1:]
            if not _always_returns(body):
                body = body + [ast.copy_location(ast.Return(value=ast.Constant(value=None)), fn)]
            done = [False]

            def is_fwd(s_):
                if not isinstance(s_, ast.Return) or s_.value is None:
                    return False
                v = s_.value.value if isinstance(s_.value, ast.Await) else s_.value
                return isinstance(v, ast.Call) and isinstance(v.func, ast.Name) and v.func.id == hname

            def splice(stmts):
                out = []
                for s_ in stmts:
                    if is_fwd(s_):
                        out += body
                        done[0] = True
                        continue
                    for fld in ("body", "orelse", "finalbody"):
                        sub = getattr(s_, fld, None)
                        if isinstance(sub, list) and sub and isinstance(sub[0], ast.stmt):
                            setattr(s_, fld, splice(sub))
                    for h in getattr(s_, "handlers", []) or []:
                        h.body = splice(h.body)
                    out.append(s_)
                return out
            new_body = splice(wbody)
            if not done[0]:
                break
            ren = {p_: q_ for p_, q_ in zip(ps, own) if p_ != q_}
            if ren:
                new_body = [s_ if any(s_ is b_ for b_ in body) else _Renamer(dict(ren)).visit(s_) for s_ in new_body]
            fn.body = doc + new_body
            for p_, v in zip(fparams or [], dargs):
                fn.args.args.append(ast.arg(arg=p_, annotation=None))
                fn.args.defaults.append(copy.deepcopy(v))
            fn.decorator_list.pop()
            ast.fix_missing_locations(fn)
            n_done += 1
    if n_done:
        for name, ent in list(plain.items()) + list(factories.items()):
            f = ent[0]
            inside = {id(x) for x in ast.walk(f)}
            if not any(isinstance(x, ast.Name) and x.id == name and id(x) not in inside for x in ast.walk(tree)) and f in tree.body:
                tree.body[tree.body.index(f)] = ast.copy_location(ast.Pass(), f)
    return n_done


# ------------------------------------------------------------------ N26 small record objects that do not leave the function

def _record_classes(modname, tree, inv):
    """NEW plain classes whose __init__ only stores its parameters in fields that nothing writes again, whose other methods are
    plain (or classmethods used as alternative constructors) with names no other definition of the module has.
    Prepares them: `x.m(a)` -> `K.m(x, a)`, classmethod constructors become static functions over the class itself.
    -> {class name: (ClassDef, [field names in __init__ parameter order], {field: value expression over the parameters})}"""
    out = {}
    if inv is None:
        return out
    defs = {}
    for x in ast.walk(tree):
        if isinstance(x, FUNC):
            defs[x.name] = defs.get(x.name, 0) + 1
    derived = {b.id for c in tree.body if isinstance(c, ast.ClassDef) for b in c.bases if isinstance(b, ast.Name)}
    parents = {}
    for p_ in ast.walk(tree):
        for c in ast.iter_child_nodes(p_):
            parents[id(c)] = p_
    for cls in [c for c in tree.body if isinstance(c, ast.ClassDef)]:
        if cls.bases or cls.keywords or cls.decorator_list or cls.name in derived or any(k.startswith(f"{modname}:{cls.name}.") for k in inv):
            continue
        meths, ok = {}, True
        for x in cls.body:
            if isinstance(x, ast.FunctionDef):
                cm = len(x.decorator_list) == 1 and isinstance(x.decorator_list[0], ast.Name) and x.decorator_list[0].id == "classmethod"
                if x.decorator_list and not cm:
                    ok = False
                meths[x.name] = (x, cm)
            elif not (isinstance(x, ast.Pass) or (isinstance(x, ast.Expr) and isinstance(x.value, ast.Constant))):
                ok = False
        if not ok or "__init__" not in meths or any(n_.startswith("__") and n_ != "__init__" for n_ in meths):
            continue
        init = meths["__init__"][0]
        if init.args.vararg or init.args.kwarg or init.args.kwonlyargs:
            continue
        fields = {}
        for st in _helper_body(init):
            if isinstance(st, ast.Assign) and len(st.targets) == 1 and isinstance(st.targets[0], ast.Attribute) and isinstance(st.targets[0].value, ast.Name) and st.targets[0].value.id == "self" \
                    and st.targets[0].attr not in fields and \
                    ((isinstance(st.value, ast.Name) and st.value.id in {a.arg for a in init.args.args[1:]}) or
                     (isinstance(st.value, ast.Constant) and isinstance(st.value.value, (int, str, float, bool, type(None))))):
                # (only a parameter handed through or an immutable literal: `self.items = []` makes ONE list per object, a read of the
                #  field cannot be replaced by the display)
                fields[st.targets[0].attr] = st.value
            else:
                ok = False
        if not ok or not fields:
            continue
        own = {id(x) for x in ast.walk(cls)}
        if any(isinstance(x, ast.Attribute) and isinstance(x.ctx, (ast.Store, ast.Del)) and x.attr in fields and x not in [s_.targets[0] for s_ in _helper_body(init)] and
               (id(x) in own or not (isinstance(x.value, ast.Name) and x.value.id == "self")) for x in ast.walk(tree)):
            continue
        others = {n_: m for n_, m in meths.items() if n_ != "__init__"}
        if any(n_ in fields for n_ in others):
            continue
        if any(isinstance(n, ast.Name) and n.id in ("super", "__class__") for m, _c in others.values() for n in ast.walk(m)):
            continue
        # receivers: ONLY locals that are bound exactly once, to a construction of this class (`r = K(..)` / `r = K.alt(..)`): a method of
        # the same name on anything else (an asyncio future has set_exception too) is not ours
        known = set()           # ids of Name nodes that denote an instance
        for fn_ in [x for x in ast.walk(tree) if isinstance(x, FUNC) and id(x) not in own]:
            st_count, ctor = {}, {}
            for x in _walk_local(fn_):
                if isinstance(x, ast.Name) and isinstance(x.ctx, (ast.Store, ast.Del)):
                    st_count[x.id] = st_count.get(x.id, 0) + 1
                    p_ = parents.get(id(x))
                    if isinstance(p_, ast.Assign) and len(p_.targets) == 1 and p_.targets[0] is x and isinstance(p_.value, ast.Call):
                        f_ = p_.value.func
                        if (isinstance(f_, ast.Name) and f_.id == cls.name) or (isinstance(f_, ast.Attribute) and isinstance(f_.value, ast.Name) and f_.value.id == cls.name and
                                                                                  f_.attr in others and others[f_.attr][1]):
                            ctor[x.id] = True
            params_ = {a.arg for a in fn_.args.posonlyargs + fn_.args.args + fn_.args.kwonlyargs}
            for x in _walk_local(fn_):
                if isinstance(x, ast.Name) and isinstance(x.ctx, ast.Load) and ctor.get(x.id) and st_count.get(x.id) == 1 and x.id not in params_:
                    known.add(id(x))
        # classmethod constructors are reached through the class name only
        for x in ast.walk(tree):
            if isinstance(x, ast.Attribute) and x.attr in others and others[x.attr][1] and id(x) not in own:
                p_ = parents.get(id(x))
                if not (isinstance(p_, ast.Call) and p_.func is x and isinstance(x.value, ast.Name) and x.value.id == cls.name):
                    ok = False
        if not ok:
            continue
        for n_, (m, is_cm) in others.items():
            if is_cm:
                cname = m.args.args[0].arg
                m.decorator_list = [ast.Name(id="staticmethod", ctx=ast.Load())]
                m.args.args = m.args.args[1:]
                for x in ast.walk(m):
                    if isinstance(x, ast.Name) and x.id == cname:
                        x.id = cls.name
        for c in [x for x in ast.walk(tree) if isinstance(x, ast.Call) and id(x) not in own and isinstance(x.func, ast.Attribute) and x.func.attr in others and not others[x.func.attr][1]
                  and id(x.func.value) in known]:
            recv = c.func.value
            c.func = ast.copy_location(ast.Attribute(value=ast.Name(id=cls.name, ctx=ast.Load()), attr=c.func.attr, ctx=ast.Load()), c.func)
            c.args = [recv] + c.args
        ast.fix_missing_locations(tree)
        out[cls.name] = (cls, [a.arg for a in init.args.args[1:]], fields)
    return out


def _scalarise_records(fn, records):
    """`r = K(a, b)` where r is bound once and every use of it is a field read `r.f`: the reads become the values the fields were given
    (through a temporary when the argument is not a plain name that stays bound to the same thing)"""
    n_done = 0
    if not records:
        return 0
    stores, loads = {}, {}
    for n in _walk_local(fn):
        if isinstance(n, ast.Name):
            (stores if isinstance(n.ctx, (ast.Store, ast.Del)) else loads).setdefault(n.id, []).append(n)
    nested = {x.id for n in ast.walk(fn) if isinstance(n, FUNC + (ast.Lambda,)) and n is not fn for x in ast.walk(n) if isinstance(x, ast.Name)}
    parents = {}
    for p_ in ast.walk(fn):
        for c in ast.iter_child_nodes(p_):
            parents[id(c)] = p_
    for blk in _blocks(fn):
        for i, st in enumerate(list(blk)):
            if not (isinstance(st, ast.Assign) and len(st.targets) == 1 and isinstance(st.targets[0], ast.Name) and isinstance(st.value, ast.Call) and
                    isinstance(st.value.func, ast.Name) and st.value.func.id in records):
                continue
            v = st.targets[0].id
            cls, params, fields = records[st.value.func.id]
            if len(stores.get(v, [])) != 1 or v in nested:
                continue
            uses = loads.get(v, [])
            if not uses or not all(isinstance(parents.get(id(u)), ast.Attribute) and parents[id(u)].value is u and parents[id(u)].attr in fields and
                                   isinstance(parents[id(u)].ctx, ast.Load) for u in uses):
                continue
            call = st.value
            if call.keywords and any(k.arg is None for k in call.keywords) or any(isinstance(a, ast.Starred) for a in call.args) or len(call.args) > len(params):
                continue
            bound = dict(zip(params, call.args))
            for k in call.keywords:
                bound[k.arg] = k.value
            if set(bound) != set(params):
                continue
            pre, pmap = [], {}
            for p_ in params:
                a = bound[p_]
                names = {x.id for x in ast.walk(a) if isinstance(x, ast.Name)}
                if isinstance(a, (ast.Name, ast.Constant)) and all(len(stores.get(n_, [])) <= 1 for n_ in names):
                    pmap[p_] = a
                else:
                    nm = f"{p_}__{v}"
                    pre.append(ast.copy_location(ast.Assign(targets=[ast.Name(id=nm, ctx=ast.Store())], value=a, lineno=st.lineno), st))
                    pmap[p_] = ast.Name(id=nm, ctx=ast.Load())
            for u in uses:
                attr = parents[id(u)]
                _replace_node(fn, attr, ast.copy_location(_Renamer(pmap).visit(copy.deepcopy(fields[attr.attr])), attr))
            idx = blk.index(st)
            blk[idx:idx + 1] = pre or [ast.copy_location(ast.Pass(), st)]
            for x in pre:
                ast.fix_missing_locations(x)
            n_done += 1
    return n_done


# ------------------------------------------------------------------ N7 nested ifs without else -> one conjunction

def _merge_nested_ifs(fn):
    n_done = 0
    changed = True
    while changed:
        changed = False
        for blk in _blocks(fn):
            for i, st in enumerate(blk):
                if isinstance(st, ast.If) and not st.orelse:
                    inner = [x for x in st.body if not isinstance(x, ast.Pass)]
                    if len(inner) == 1 and isinstance(inner[0], ast.If) and not inner[0].orelse:
                        new = ast.If(test=ast.BoolOp(op=ast.And(), values=[st.test, inner[0].test]), body=inner[0].body, orelse=[])
                        ast.copy_location(new.test, st.test)
                        blk[i] = ast.copy_location(new, st)
                        n_done += 1
                        changed = True
    return n_done


# ------------------------------------------------------------------ N8 context managers written for one purpose -> try/finally

def _is_cm_decorator(d):
    dd = _dotted(d)
    return dd in ("contextmanager", "contextlib.contextmanager")


def _new_units(modname, tree, inv):
    """new (non-inventory) module-level functions and classes of this module: {name: node}"""
    out = {}
    for n in tree.body:
        if isinstance(n, FUNC) and (inv is None or f"{modname}:{n.name}" not in inv):
            out[n.name] = n
        elif isinstance(n, ast.ClassDef):
            known = inv is not None and any(k.startswith(f"{modname}:{n.name}.") for k in inv)
            if not known:
                out[n.name] = n
    return out


def _cm_rewrite(item, body, units, klass_of_self):
    """-> list of statements equivalent to `with <item>: body`, or None when the manager is not one of the understood shapes"""
    e, var = item.context_expr, item.optional_vars
    if not isinstance(e, ast.Call):
        return None
    d = _dotted(e.func)
    # contextlib.suppress(E, ...)
    if d in ("suppress", "contextlib.suppress") and e.args and not e.keywords and var is None:
        typ = e.args[0] if len(e.args) == 1 else ast.Tuple(elts=list(e.args), ctx=ast.Load())
        return [ast.Try(body=body, handlers=[ast.ExceptHandler(type=typ, name=None, body=[ast.Pass()])], orelse=[], finalbody=[])]
    name = e.func.id if isinstance(e.func, ast.Name) else (e.func.attr if isinstance(e.func, ast.Attribute) and isinstance(e.func.value, ast.Name) and e.func.value.id in ("self", klass_of_self or "") else None)
    unit = units.get(name) if name else None
    if unit is None:
        return None
    try:
        if isinstance(unit, FUNC) and any(_is_cm_decorator(x) for x in unit.decorator_list) and not isinstance(unit, ast.AsyncFunctionDef):
            return _cm_generator(unit, e, var, body)
        if isinstance(unit, ast.ClassDef):
            return _cm_class(unit, e, var, body)
    except _NotInlinable:
        return None
    return None


def _cm_generator(fn, call, var, body):
    stmts = _helper_body(fn)
    prefix, mapping = _bind(fn, call, False)
    stmts = [_Renamer(mapping).visit(_clone(s_)) for s_ in stmts]
    yields = [n for s_ in stmts for n in _walk_local(s_) if isinstance(n, (ast.Yield, ast.YieldFrom))]
    if len(yields) != 1 or isinstance(yields[0], ast.YieldFrom):
        raise _NotInlinable("not exactly one yield")

    def bind_var(yexpr):
        if var is None:
            return []
        val = yexpr.value if yexpr.value is not None else ast.Constant(value=None)
        return [ast.Assign(targets=[_clone(var)], value=val, lineno=call.lineno)]
    def splice(stmts_):
        out_ = []
        for k, st in enumerate(stmts_):
            if isinstance(st, ast.Expr) and st.value is yields[0]:
                # PRE; yield; POST  (POST only when the body completes normally)
                return out_ + bind_var(yields[0]) + body + stmts_[k + 1:]
            if isinstance(st, ast.Try) and len(st.body) >= 1 and isinstance(st.body[-1], ast.Expr) and st.body[-1].value is yields[0] and not st.orelse:
                pre_in_try = st.body[:-1]
                new = ast.Try(body=pre_in_try + bind_var(yields[0]) + body, handlers=st.handlers, orelse=[], finalbody=st.finalbody)
                return out_ + [new] + stmts_[k + 1:]
            if isinstance(st, ast.With) and any(n is yields[0] for s2 in st.body for n in ast.walk(s2)):
                # the manager holds another one open around the yield: the body runs inside it
                new = ast.With(items=st.items, body=splice(st.body))
                return out_ + [new] + stmts_[k + 1:]
            if any(n is yields[0] for n in ast.walk(st)):
                raise _NotInlinable("yield in an unsupported position")
            out_.append(st)
        raise _NotInlinable("yield not found at statement level")
    return list(prefix) + splice(stmts)


def _cm_class(cls, call, var, body):
    meths = {m.name: m for m in cls.body if isinstance(m, FUNC)}
    if cls.bases or "__enter__" not in meths or "__exit__" not in meths or any(isinstance(m, ast.AsyncFunctionDef) for m in meths.values()):
        raise _NotInlinable("not a plain context manager class")
    suffix = "__" + cls.name.lstrip("_")
    fields = {}
    out = []
    if "__init__" in meths:
        init = meths["__init__"]
        prefix, mapping = _bind(init, call, True)
        out += prefix
        for st in _helper_body(init):
            if not (isinstance(st, ast.Assign) and len(st.targets) == 1 and isinstance(st.targets[0], ast.Attribute) and isinstance(st.targets[0].value, ast.Name) and st.targets[0].value.id == "self"):
                raise _NotInlinable("__init__ does more than store attributes")
            nm = st.targets[0].attr + suffix
            fields[st.targets[0].attr] = nm
            out.append(ast.Assign(targets=[ast.Name(id=nm, ctx=ast.Store())], value=_Renamer(mapping).visit(_clone(st.value)), lineno=call.lineno))
    elif call.args or call.keywords:
        raise _NotInlinable("arguments without __init__")

    class SelfFields(ast.NodeTransformer):
        def visit_Attribute(self, node):
            if isinstance(node.value, ast.Name) and node.value.id == "self":
                if node.attr in fields:
                    return ast.copy_location(ast.Name(id=fields[node.attr], ctx=node.ctx), node)
                raise _NotInlinable("self attribute outside __init__")
            self.generic_visit(node)
            return node

        def visit_Name(self, node):
            if node.id == "self":
                raise _NotInlinable("self escapes")
            return node
    enter, exit_ = meths["__enter__"], meths["__exit__"]
    if len(enter.args.args) != 1 or len(exit_.args.args) != 4:
        raise _NotInlinable("signature")
    exc_params = {a.arg for a in exit_.args.args[1:]}
    ebody = [_clone(s_) for s_ in _helper_body(exit_)]
    if any(isinstance(n, ast.Name) and n.id in exc_params for s_ in ebody for n in ast.walk(s_)):
        return out + _cm_class_handlers(cls, exit_, enter, ebody, fields, var, body, suffix, call)
    # __exit__ must end by returning False / None (exceptions propagate)
    if ebody and isinstance(ebody[-1], ast.Return):
        r = ebody.pop()
        if r.value is not None and not (isinstance(r.value, ast.Constant) and r.value.value in (False, None)):
            raise _NotInlinable("__exit__ may swallow")
    if any(isinstance(n, ast.Return) for s_ in ebody for n in _walk_local(s_)):
        raise _NotInlinable("return inside __exit__")
    nbody = [_clone(s_) for s_ in _helper_body(enter)]
    ret = None
    if nbody and isinstance(nbody[-1], ast.Return):
        ret = nbody.pop().value
    if any(isinstance(n, ast.Return) for s_ in nbody for n in _walk_local(s_)):
        raise _NotInlinable("return inside __enter__")
    if var is not None:
        if ret is None or (isinstance(ret, ast.Name) and ret.id == "self"):
            raise _NotInlinable("the manager object itself is bound")
        nbody.append(ast.Assign(targets=[_clone(var)], value=ret, lineno=call.lineno))
    sf = SelfFields()
    nbody = [sf.visit(s_) for s_ in nbody]
    ebody = [sf.visit(s_) for s_ in ebody]
    # locals of __enter__ / __exit__ must not capture names of the function they are spliced into
    own = set()
    for s_ in nbody + ebody:
        for n in ast.walk(s_):
            if isinstance(n, ast.Name) and isinstance(n.ctx, (ast.Store, ast.Del)) and n.id not in fields.values():
                own.add(n.id)
            elif isinstance(n, ast.ExceptHandler) and n.name:
                own.add(n.name)
    if var is not None:
        own -= {x.id for x in ast.walk(var) if isinstance(x, ast.Name)}
    if own:
        rn = _Renamer({k: k + suffix for k in own})
        nbody = [rn.visit(s_) for s_ in nbody]
        ebody = [rn.visit(s_) for s_ in ebody]
    return out + nbody + [ast.Try(body=body, handlers=[], orelse=[], finalbody=ebody or [ast.Pass()])]


def _cm_class_handlers(cls, exit_, enter, ebody, fields, var, body, suffix, call):
    """__exit__ that looks at the exception: `with CM(): B` -> `try: B except <E> as e: ...` when __exit__ does nothing on a normal exit.
    The method is partially evaluated for `exc_type is None` (normal exit: must leave nothing to do) and for an exception
    (exc_type -> type(e), exc -> e, tb -> e.__traceback__; `return False/None` -> re-raise, `return True` -> swallow)."""
    from . import specialize as _sp
    et, ev, tb = [a.arg for a in exit_.args.args[1:]]
    if var is not None:
        raise _NotInlinable("bound manager with exception-aware __exit__")
    nbody = [s_ for s_ in _helper_body(enter) if not (isinstance(s_, ast.Return) and (s_.value is None or (isinstance(s_.value, ast.Name) and s_.value.id == "self") or isinstance(s_.value, ast.Constant)))]
    if nbody:
        raise _NotInlinable("__enter__ does work")
    if any(isinstance(n, ast.Name) and n.id in (et, ev, tb) and isinstance(n.ctx, (ast.Store, ast.Del)) for s_ in ebody for n in ast.walk(s_)):
        raise _NotInlinable("__exit__ rebinds its parameters")
    for s_ in ebody:
        for n in ast.walk(s_):
            if isinstance(n, ast.Attribute) and isinstance(n.value, ast.Name) and n.value.id == "self" and n.attr not in fields:
                raise _NotInlinable("self attribute outside __init__")
            if isinstance(n, FUNC + (ast.Lambda,)):
                raise _NotInlinable("nested scope in __exit__")
    none_facts = {f"{et} is None": True, f"{ev} is None": True, f"{et} is not None": False, f"{ev} is not None": False, et: False, ev: False}
    quiet = _sp._block([_clone(s_) for s_ in ebody], none_facts)
    quiet = [s_ for s_ in quiet if not isinstance(s_, (ast.Pass, ast.Return))]
    if quiet:
        raise _NotInlinable("__exit__ acts on a normal exit")
    exc_facts = {k: (not v) for k, v in none_facts.items()}
    loud = _sp._block([_clone(s_) for s_ in ebody], exc_facts)
    ename = "exc" + suffix

    class Sub(ast.NodeTransformer):
        def visit_Name(self, node):
            if node.id == et:
                return ast.copy_location(ast.Call(func=ast.Name(id="type", ctx=ast.Load()), args=[ast.Name(id=ename, ctx=ast.Load())], keywords=[]), node)
            if node.id == ev:
                return ast.copy_location(ast.Name(id=ename, ctx=ast.Load()), node)
            if node.id == tb:
                return ast.copy_location(ast.Attribute(value=ast.Name(id=ename, ctx=ast.Load()), attr="__traceback__", ctx=ast.Load()), node)
            if node.id == "self":
                raise _NotInlinable("self escapes")
            return node

        def visit_Attribute(self, node):
            if isinstance(node.value, ast.Name) and node.value.id == "self":
                return ast.copy_location(ast.Name(id=fields[node.attr], ctx=node.ctx), node)
            self.generic_visit(node)
            return node

        def visit_Return(self, node):
            v = node.value
            if v is None or (isinstance(v, ast.Constant) and not v.value):
                return ast.copy_location(ast.Raise(exc=None, cause=None), node)      # the exception goes on
            if isinstance(v, ast.Constant) and v.value:
                return ast.copy_location(ast.Return(value=None), node)               # swallowed: the handler ends here
            raise _NotInlinable("__exit__ returns a computed value")
    loud = [Sub().visit(s_) for s_ in loud]
    if not _always_returns(loud):
        loud.append(ast.Raise(exc=None, cause=None))
    loud = _conv(loud, "stmt", None)
    # `if issubclass(type(e), E): <leaves>` at the head of the handler is an `except E` clause of its own
    handlers = []
    while loud and isinstance(loud[0], ast.If) and not loud[0].orelse and _always_exits(loud[0].body):
        t = loud[0].test
        kind = None
        if isinstance(t, ast.Call) and isinstance(t.func, ast.Name) and len(t.args) == 2 and not t.keywords:
            a0 = t.args[0]
            if t.func.id == "issubclass" and isinstance(a0, ast.Call) and isinstance(a0.func, ast.Name) and a0.func.id == "type" and len(a0.args) == 1 and \
                    isinstance(a0.args[0], ast.Name) and a0.args[0].id == ename:
                kind = t.args[1]
            elif t.func.id == "isinstance" and isinstance(a0, ast.Name) and a0.id == ename:
                kind = t.args[1]
        if kind is None:
            break
        handlers.append(ast.ExceptHandler(type=kind, name=ename, body=loud[0].body))
        loud = loud[1:]
    if not (len(loud) == 1 and isinstance(loud[0], ast.Raise) and loud[0].exc is None):
        handlers.append(ast.ExceptHandler(type=ast.Name(id="BaseException", ctx=ast.Load()), name=ename, body=loud or [ast.Pass()]))
    tr = ast.Try(body=body, handlers=handlers, orelse=[], finalbody=[])
    return [tr] if handlers else list(body)


def _rewrite_context_managers(modname, tree, inv):
    units = _new_units(modname, tree, inv)
    n_done = 0

    def visit_blocks(fn, klass):
        nonlocal n_done
        for blk in _blocks(fn):
            i = 0
            while i < len(blk):
                st = blk[i]
                if isinstance(st, ast.With) and len(st.items) == 1:
                    new = _cm_rewrite(st.items[0], st.body, units, klass)
                    if new is not None:
                        for x in new:
                            ast.copy_location(x, st)
                            ast.fix_missing_locations(x)
                        blk[i:i + 1] = new
                        n_done += 1
                        continue
                i += 1
    def all_funcs(body, klass):
        for n in body:
            if isinstance(n, FUNC):
                yield n, klass
                for c in ast.walk(n):
                    if isinstance(c, FUNC) and c is not n:
                        yield c, klass
            elif isinstance(n, ast.ClassDef):
                yield from all_funcs(n.body, n.name)
    for f_, klass in list(all_funcs(tree.body, None)):
        if any(f_ is u or f_ in ast.walk(u) for u in units.values() if
               (isinstance(u, ast.ClassDef) and any(isinstance(m_, FUNC) and m_.name == "__exit__" for m_ in u.body)) or
               (isinstance(u, FUNC) and any(_is_cm_decorator(d) for d in u.decorator_list))):
            continue        # not inside the managers themselves
        for _ in range(2):
            visit_blocks(f_, klass)
    if n_done:
        # a manager that is no longer mentioned anywhere has become part of its users
        for name, unit in units.items():
            inside = {id(x) for x in ast.walk(unit)}
            refs = sum(1 for x in ast.walk(tree) if id(x) not in inside and ((isinstance(x, ast.Name) and x.id == name) or (isinstance(x, ast.Attribute) and x.attr == name)))
            is_cm = (isinstance(unit, FUNC) and any(_is_cm_decorator(d) for d in unit.decorator_list)) or \
                (isinstance(unit, ast.ClassDef) and any(isinstance(m, FUNC) and m.name == "__exit__" for m in unit.body))
            if refs == 0 and is_cm and unit in tree.body:
                tree.body[tree.body.index(unit)] = ast.copy_location(ast.Pass(), unit)
    return n_done


# ------------------------------------------------------------------ N9 module-level constants

def _module_constants(tree):
    """names bound exactly once, at module level, to an int / str literal (also through `A, B = 0, 1`) and never rebound anywhere"""
    cands, stores = {}, {}
    klasses = {c.name for c in tree.body if isinstance(c, ast.ClassDef)}
    fnames = {c.name for c in tree.body if isinstance(c, FUNC)} | {a_.asname or a_.name for n_ in tree.body if isinstance(n_, ast.ImportFrom) for a_ in n_.names}
    for n in ast.walk(tree):
        if isinstance(n, ast.Name) and isinstance(n.ctx, (ast.Store, ast.Del)):
            stores[n.id] = stores.get(n.id, 0) + 1
        elif isinstance(n, (ast.Global, ast.Nonlocal)):
            for x in n.names:
                stores[x] = stores.get(x, 0) + 2
        elif isinstance(n, ast.arg):
            stores[n.arg] = stores.get(n.arg, 0) + 2       # shadowed by a parameter somewhere: leave it alone
    for st in tree.body:
        if isinstance(st, ast.Assign) and len(st.targets) == 1:
            t, v = st.targets[0], st.value
            pairs = []
            if isinstance(t, ast.Name):
                pairs = [(t, v)]
            elif isinstance(t, (ast.Tuple, ast.List)) and isinstance(v, (ast.Tuple, ast.List)) and len(t.elts) == len(v.elts):
                pairs = list(zip(t.elts, v.elts))
            for a, b in pairs:
                if isinstance(a, ast.Name) and isinstance(b, ast.Constant) and isinstance(b.value, (int, str)) and not isinstance(b.value, bool) and a.id.isupper() or \
                        (isinstance(a, ast.Name) and isinstance(b, ast.Constant) and isinstance(b.value, int) and not isinstance(b.value, bool) and a.id.startswith("_") and a.id[1:].isupper()):
                    cands[a.id] = b
                elif isinstance(a, ast.Name) and a.id.lstrip("_").isupper() and isinstance(b, ast.Tuple) and b.elts and all(isinstance(e, ast.Name) and e.id in klasses for e in b.elts):
                    cands[a.id] = b           # a fixed tuple of this module's classes (isinstance(x, _KINDS))
                elif isinstance(a, ast.Name) and a.id.lstrip("_").isupper() and isinstance(b, ast.Tuple) and 0 < len(b.elts) <= 12 and \
                        all(isinstance(e, ast.Constant) and isinstance(e.value, (str, int)) and not isinstance(e.value, bool) for e in b.elts):
                    cands[a.id] = b           # a fixed tuple of literals (x in _PUNCTUATION)
                elif isinstance(a, ast.Name) and a.id.lstrip("_").isupper() and isinstance(b, ast.Tuple) and 0 < len(b.elts) <= 4 and \
                        all(isinstance(e, ast.Tuple) and 0 < len(e.elts) <= 4 and all(isinstance(x, ast.Constant) or (isinstance(x, ast.Name) and x.id in fnames) for x in e.elts) for e in b.elts):
                    cands[a.id] = b           # a small fixed table of (literal | module-level function) rows: loops over it are unrolled (N15)
    return {k: v for k, v in cands.items() if stores.get(k, 0) == 1}


def _propagate_module_constants(tree):
    consts = _module_constants(tree)
    if not consts:
        return 0
    n_done = 0
    for fn in ast.walk(tree):
        if not isinstance(fn, FUNC):
            continue
        for parent in ast.walk(fn):
            for fld, val in ast.iter_fields(parent):
                if isinstance(val, ast.Name) and isinstance(val.ctx, ast.Load) and val.id in consts:
                    setattr(parent, fld, ast.copy_location(_clone(consts[val.id]), val))
                    n_done += 1
                elif isinstance(val, list):
                    for k, x in enumerate(val):
                        if isinstance(x, ast.Name) and isinstance(x.ctx, ast.Load) and x.id in consts:
                            val[k] = ast.copy_location(_clone(consts[x.id]), x)
                            n_done += 1
    return n_done


# ------------------------------------------------------------------ N3 conditional expressions at statement level

def _expand_ifexp(fn):
    n_done = 0
    for blk in _blocks(fn):
        i = 0
        while i < len(blk):
            st = blk[i]
            if isinstance(st, ast.Return) and isinstance(st.value, ast.IfExp):
                e = st.value
                new = ast.If(test=e.test, body=[ast.copy_location(ast.Return(value=e.body), st)], orelse=[ast.copy_location(ast.Return(value=e.orelse), st)])
                blk[i] = ast.copy_location(new, st)
                n_done += 1
                continue
            if False and isinstance(st, ast.Assign) and isinstance(st.value, ast.IfExp) and len(st.targets) == 1 and isinstance(st.targets[0], ast.Name):
                # (not applied: rules follow single assignments to their defining expression; a conditional expression keeps that)
                e = st.value
                new = ast.If(test=e.test, body=[ast.copy_location(ast.Assign(targets=[copy.deepcopy(st.targets[0])], value=e.body, lineno=st.lineno), st)],
                             orelse=[ast.copy_location(ast.Assign(targets=[copy.deepcopy(st.targets[0])], value=e.orelse, lineno=st.lineno), st)])
                blk[i] = ast.copy_location(new, st)
                n_done += 1
                continue
            i += 1
    return n_done


# ------------------------------------------------------------------ driver

def normalize(modname, tree):
    """in-place; returns statistics"""
    stats = {"inlined": 0, "named_conditions": 0}
    stats["module_constants"] = _propagate_module_constants(tree)
    inv = inventory()
    stats["context_managers"] = _rewrite_context_managers(modname, tree, inv)
    stats["named_tuples"] = _named_tuples_to_tuples(modname, tree, inv)
    stats["container_methods"], container_classes = _container_methods_as_functions(modname, tree, inv)
    records = _record_classes(modname, tree, inv)
    stats["properties"] = _properties_to_methods(modname, tree, inv)
    stats["decorators_applied"] = _apply_new_decorators(modname, tree, inv) + _apply_decorator_factories(modname, tree, inv)
    stats["devirtualised"] = _devirtualise(modname, tree, inv)
    stats["objects_to_closures"] = _objects_to_closures(modname, tree, inv)
    stats["merged_defs"] = sum(_merge_conditional_defs(f_) for f_ in [x for x in ast.walk(tree) if isinstance(x, FUNC)])
    if inv is not None:
        stats["inlined"] = _Inliner(modname, tree, inv).run()
    stats["ifexp_expanded"] = 0
    _MODULE_ATTR_STORES.clear()
    for f_ in ast.walk(tree):
        if isinstance(f_, FUNC) and f_.name != "__init__":
            for x in ast.walk(f_):
                if isinstance(x, ast.Attribute) and isinstance(x.ctx, (ast.Store, ast.Del)):
                    _MODULE_ATTR_STORES.add(x.attr)
    unstable = {}          # function node -> attributes of self that some method other than __init__ rebinds
    for c in ast.walk(tree):
        if isinstance(c, ast.ClassDef):
            attrs = set()
            for m in c.body:
                if isinstance(m, FUNC) and m.name != "__init__":
                    for x in ast.walk(m):
                        if isinstance(x, ast.Attribute) and isinstance(x.ctx, (ast.Store, ast.Del)) and isinstance(x.value, ast.Name) and x.value.id == "self":
                            attrs.add(x.attr)
            for m in ast.walk(c):
                if isinstance(m, FUNC):
                    unstable[m] = attrs
    stats.update({"comprehensions": 0, "named_values": 0, "merged_ifs": 0, "threaded": 0})
    for round_ in range(4):
        progress = 0
        for n in ast.walk(tree):
            if isinstance(n, FUNC):
                # N3 is not applied (see flow.return_alts: rules enumerate the alternatives of a conditional return themselves)
                stats["split_assign"] = stats.get("split_assign", 0) + _split_parallel_assign(n)
                stats["unrolled"] = stats.get("unrolled", 0) + _unroll_literal_loops(n)
                stats["comprehensions"] += _loops_to_comprehensions(n)
                stats["named_conditions"] += _named_conditions(n)
                k = _thread_jumps(n)
                stats["threaded"] += k
                stats["named_values"] += _named_values(n, unstable.get(n))
                stats["named_conditions"] += _named_conditions(n)
                stats["comprehensions"] += _loops_to_comprehensions(n)          # loops whose body became one statement by the passes above
                stats["rotated_loops"] = stats.get("rotated_loops", 0) + _rotate_loops(n)
                progress += k + _splice_starred_literals(n)
                k_rec = _scalarise_records(n, records)
                stats["records"] = stats.get("records", 0) + k_rec
                progress += k_rec
                _expand_callable_choice(n)
                k2 = _duplicate_tail(n)
                if k2:
                    stats["threaded"] += k2
                    stats["named_values"] += _named_values(n, unstable.get(n))
                    progress += k2
        k3 = _fold_table_lookups(tree) + _expand_value_tables(tree)
        stats["table_lookups"] = stats.get("table_lookups", 0) + k3
        progress += k3
        if not progress or inv is None:
            break
        # verdicts threaded / starred literals spliced: calls of new helpers that could not be bound before may be inlinable now
        more = _Inliner(modname, tree, inv).run()
        stats["inlined"] += more
        if not more and not k3:
            break
    if container_classes:
        stats["containers_dropped"] = _drop_emptied_containers(tree, container_classes)

    def _outermost(body):
        for x in body:
            if isinstance(x, FUNC):
                yield x
            elif isinstance(x, ast.ClassDef):
                yield from _outermost(x.body)
    stats["repeated_tests"] = sum(_fold_repeated_tests(f_) for f_ in _outermost(tree.body))
    for n in ast.walk(tree):
        if isinstance(n, FUNC):
            stats["merged_ifs"] += _merge_nested_ifs(n)
    ast.fix_missing_locations(tree)
    return stats
