"""E6: progress (ranking) analysis for the index-threading lexer/parser.

Readers are functions whose parameters (after self/klong) start with (t, i): they return an index, a pair
(index, value) or - for peek helpers - just a value.  Abstract state per activation:

  cursor variable c : Cur(k, eof, lt)   k   = lower bound of c - entry cursor
                                         eof = c >= len(t) known,  lt = c < len(t) known
  value variable v  : Val(nl, rels, C)   nl  = null / nonnull / maybe   (null == the sentinel None)
                                         rels[c] = (n, E): v non-null => k(c) >= n ; E: v null => eof(c)
                                         C   = v non-null => a character below len(t) was consumed
                                         lt_of = cursor names known < len(t) when v is non-null (peek results)
  $consumed         : a character at an index < len(t) has been consumed since function entry

Function summaries (optimistic fixpoint over the whole reader set):
  kmin       minimal advance over all returns                (weak monotonicity: kmin >= 0)
  knonnull   minimal advance over returns with a non-null value
  E          every possibly-null return is at end of input    (null => eof)
  C          every non-null return has consumed a character   (non-null => consumed)
  Cidx       (index-only readers) every return consumed
  NLT        (peek helpers) non-null result => entry cursor < len(t)
A conditional summary records the entry conditions under which a leaf reader is strict
(`while i < len(t) and P(t[i]): i += 1` advances >= 1 when the loop test holds on entry); callers must
establish those conditions as known facts at the call site.
"""
import ast
import copy

from .model import src, callee_name, dotted, walk_local, FUNC, calls_in

INF = 10 ** 6
NONNULL, NULL, MAYBE = "nonnull", "null", "maybe"
ALWAYS_NONNULL_CALLS = {"kg_asarray", "KGFn", "KGCall", "KGCond", "KGExprArray", "KGOp", "KGSym", "KGChar", "KGAdverb", "list_to_dict",
                        "float", "int", "str", "join", "list", "dict", "tuple", "repr", "len"}


class Cur:
    __slots__ = ("k", "eof", "lt")

    def __init__(self, k, eof=False, lt=False):
        self.k, self.eof, self.lt = k, eof, lt

    def key(self):
        return ("C", self.k, self.eof, self.lt)

    def __repr__(self):
        return f"+{self.k}{'E' if self.eof else ''}{'<' if self.lt else ''}"


class Val:
    __slots__ = ("nl", "rels", "C", "lt_of", "alias")

    def __init__(self, nl, rels=None, C=False, lt_of=(), alias=None):
        self.nl, self.rels, self.C, self.lt_of, self.alias = nl, dict(rels or {}), C, frozenset(lt_of), alias

    def key(self):
        return ("V", self.nl, tuple(sorted(self.rels.items())), self.C, tuple(sorted(self.lt_of)), self.alias)

    def __repr__(self):
        return f"{self.nl}{self.rels or ''}{'C' if self.C else ''}"


def skey(st):
    if st is None:
        return None
    return tuple(sorted((k, v.key() if hasattr(v, "key") else v) for k, v in st.items()))


class Reader:
    """a function taking (text, ..., cursor): inside the analysis its text parameter is called `t` and its cursor parameter `i`
    (self.node is a renamed clone when the source uses other names; self.iname is the real keyword callers may use)"""

    def __init__(self, fi, tname="t", iname="i"):
        self.fi = fi
        self.name = fi.name
        self.tname, self.iname = tname, iname
        p = fi.params()
        self.params = ["t" if x == tname else "i" if x == iname else x for x in p if x not in ("self", "klong")]
        self.kind = None       # 'index' | 'pair' | 'peek'
        self.node = fi.node
        if (tname, iname) != ("t", "i"):
            self.node = _canonical_names(fi.node, tname, iname)


def _canonical_names(fnode, tname, iname):
    """clone of fnode with the text parameter renamed to `t` and the cursor parameter to `i` (locals already called t / i move aside)"""
    import copy as _copy
    from .normalize import _clone
    new = _clone(fnode)
    mp = {tname: "t", iname: "i"}
    taken = {n.id for n in ast.walk(new) if isinstance(n, ast.Name)} | {a.arg for a in new.args.posonlyargs + new.args.args + new.args.kwonlyargs}
    for c in ("t", "i"):
        if c in taken and c not in (tname, iname):
            mp[c] = c + "__local"
    for n in ast.walk(new):
        if isinstance(n, ast.Name) and n.id in mp:
            n.id = mp[n.id]
        elif isinstance(n, ast.arg) and n.arg in mp:
            n.arg = mp[n.arg]
        elif isinstance(n, ast.keyword) and False:
            pass
    for parent in ast.walk(new):
        for child in ast.iter_child_nodes(parent):
            if not isinstance(child, (ast.expr_context, ast.boolop, ast.operator, ast.unaryop, ast.cmpop)):
                child._parent = parent
    new._parent = getattr(fnode, "_parent", None)
    return new


def _text_cursor_roles(f):
    """(text parameter, cursor parameter) of a function that scans a text with an index, by what it does with them:
    the text is indexed by / measured against the cursor (t[i], i < len(t)), or both are handed on to a function that does"""
    p = [x for x in f.params() if x not in ("self", "klong")]
    if len(p) < 2:
        return None
    cand_t, cand_i = p[0], p[1:3]
    # a cursor is an integer position: it takes part in `+ constant` arithmetic somewhere in the function
    arith = set()
    for n in walk_local(f.node):
        if isinstance(n, ast.BinOp) and isinstance(n.op, ast.Add) and isinstance(n.left, ast.Name) and isinstance(n.right, ast.Constant) and isinstance(n.right.value, int):
            arith.add(n.left.id)
        if isinstance(n, ast.AugAssign) and isinstance(n.op, ast.Add) and isinstance(n.target, ast.Name):
            arith.add(n.target.id)
    for n in walk_local(f.node):
        if isinstance(n, ast.Subscript) and isinstance(n.ctx, ast.Load) and isinstance(n.value, ast.Name) and n.value.id == cand_t:
            idx = n.slice
            for x in ast.walk(idx):
                if isinstance(x, ast.Name) and x.id in cand_i and x.id in arith:
                    return cand_t, x.id
        if isinstance(n, ast.Compare) and len(n.ops) == 1:
            sides = [n.left, n.comparators[0]]
            if any(isinstance(s_, ast.Call) and callee_name(s_) == "len" and s_.args and isinstance(s_.args[0], ast.Name) and s_.args[0].id == cand_t for s_ in sides):
                for s_ in sides:
                    for x in ast.walk(s_):
                        if isinstance(x, ast.Name) and x.id in cand_i:
                            return cand_t, x.id
    return None


def discover_readers(repo, modules=("parser", "interpreter")):
    out = {}
    funcs = [f for f in repo.all_funcs(modules) if f.parent is None and f.name != "__init__"]
    roles = {}
    for f in funcs:
        p = [x for x in f.params() if x not in ("self", "klong")]
        if len(p) >= 2 and p[0] == "t" and "i" in p[1:3]:
            roles[f.name] = ("t", "i")
        else:
            r_ = _text_cursor_roles(f)
            if r_:
                roles[f.name] = r_
    # functions that only pass (text, cursor) on to a reader in the reader's text/cursor positions
    changed = True
    while changed:
        changed = False
        for f in funcs:
            if f.name in roles:
                continue
            p = [x for x in f.params() if x not in ("self", "klong")]
            if len(p) < 2:
                continue
            for c in calls_in(f.node):
                nm = callee_name(c)
                if nm in roles and nm != f.name:
                    g = next((g for g in funcs if g.name == nm), None)
                    gp = [x for x in g.params() if x not in ("self", "klong")]
                    off = 1 if (g.params()[:1] == ["klong"] and not isinstance(c.func, ast.Attribute)) else 0
                    args = c.args[off:]
                    ti, ii = gp.index(roles[nm][0]), gp.index(roles[nm][1])
                    ta = args[ti] if ti < len(args) else None
                    ia = args[ii] if ii < len(args) else next((k.value for k in c.keywords if k.arg == roles[nm][1]), None)
                    if isinstance(ta, ast.Name) and ta.id == p[0] and ia is not None:
                        base = ia.left if isinstance(ia, ast.BinOp) else ia
                        if isinstance(base, ast.Name) and base.id in p[1:3]:
                            roles[f.name] = (p[0], base.id)
                            changed = True
                            break
    for f in funcs:
        if f.name in roles:
            out[f.name] = Reader(f, *roles[f.name])
    # kinds: pair readers return a 2-tuple (or another pair reader's result); peek helpers return a non-index value
    def rets(fn):
        out_ = []

        def alts(v):
            # the alternatives of a conditional result, except the `X if <bound> else None` shape of the peek helpers
            if isinstance(v, ast.IfExp) and not (isinstance(v.orelse, ast.Constant) and v.orelse.value is None):
                alts(v.body)
                alts(v.orelse)
            else:
                out_.append(v)
        for n in walk_local(fn):
            if isinstance(n, ast.Return) and n.value is not None:
                alts(n.value)
        return out_
    changed = True
    pair = set()
    while changed:
        changed = False
        for nm, r in out.items():
            if nm in pair:
                continue
            for v in rets(r.node):
                if (isinstance(v, ast.Tuple) and len(v.elts) == 2) or (isinstance(v, ast.Call) and callee_name(v) in pair):
                    pair.add(nm)
                    changed = True
                    break
    for nm, r in out.items():
        if nm in pair:
            r.kind = "pair"
        else:
            vs = rets(r.node)
            # boolean predicates (cmatch, cmatch2) and value peeks (cpeek, cpeek2) are not index readers
            if vs and all(isinstance(v, (ast.BoolOp, ast.Compare)) for v in vs):
                r.kind = "pred"
            elif vs and all(isinstance(v, ast.IfExp) and isinstance(v.orelse, ast.Constant) and v.orelse.value is None for v in vs):
                r.kind = "peek"
            else:
                r.kind = "index"
    return out


def default_summary(kind):
    return {"kind": kind, "kmin": INF, "knonnull": INF, "E": True, "C": True, "Cidx": True, "mayNull": False, "mayNonNull": False,
            "NLT": True, "cond": None, "raises_only": False}


OPTIMISTIC = {"kind": None, "kmin": 0, "knonnull": 1, "E": True, "C": True, "Cidx": False, "mayNull": True, "mayNonNull": True, "NLT": True, "cond": None}


class Analyzer:
    def __init__(self, reader, readers, summ, preds, problems, entry_lt=False, summ_lt=None):
        self.r, self.readers, self.summ, self.preds, self.problems = reader, readers, summ, preds, problems
        self.entry_lt, self.summ_lt = entry_lt, (summ_lt if summ_lt is not None else {})
        self.fn = reader.node
        self.name = reader.name
        self.returns = []
        self.loops = []          # (node, ok, detail)
        self.calls = []          # (call node, callee name, k at call, consumed at call, bound_to_same_cursor, index target name, arg cursor name)
        self.cond_needs = []     # (call node, callee, [missing facts])
        self.known = []          # stack of known-true atom texts for conditional summaries

    # ------------------------------------------------------------ expressions
    def cursor_of(self, e, st):
        if isinstance(e, ast.Name) and isinstance(st.get(e.id), Cur):
            return st[e.id]
        if isinstance(e, ast.BinOp) and isinstance(e.op, ast.Add):
            for a, b in ((e.left, e.right), (e.right, e.left)):
                c = self.cursor_of(a, st)
                if c is not None:
                    if isinstance(b, ast.Constant) and isinstance(b.value, int) and b.value >= 0:
                        return Cur(c.k + b.value, c.eof, False)
                    if isinstance(b, ast.Call) and callee_name(b) == "len":
                        return Cur(c.k, c.eof, False)          # + len(x) >= 0
                    if isinstance(b, ast.IfExp):
                        # + (2 if wide else 1): the smaller of the two constant steps
                        arms = []
                        q = b
                        while isinstance(q, ast.IfExp):
                            arms.append(q.body)
                            q = q.orelse
                        arms.append(q)
                        if all(isinstance(x, ast.Constant) and isinstance(x.value, int) and not isinstance(x.value, bool) and x.value >= 0 for x in arms):
                            return Cur(c.k + min(x.value for x in arms), c.eof, False)
                    if isinstance(b, ast.Name) and st.get(b.id) == "nonneg":
                        return Cur(c.k, c.eof, False)
        if isinstance(e, ast.Call):
            r = self.reader_call(e, st)
            if r is not None and r[1] is None:
                return r[0]
        return None

    def cursor_name(self, e):
        return e.id if isinstance(e, ast.Name) else None

    def cursor_base(self, e):
        # `i` or `i + c` (c >= 0): the cursor the expression is measured from
        if isinstance(e, ast.BinOp) and isinstance(e.op, ast.Add) and isinstance(e.left, ast.Name) and isinstance(e.right, ast.Constant) and \
                isinstance(e.right.value, int) and e.right.value >= 0:
            return e.left.id
        return e.id if isinstance(e, ast.Name) else None

    def reader_call(self, call, st, record=True, target=None):
        nm = callee_name(call)
        if nm not in self.readers:
            return None
        rd = self.readers[nm]
        if rd.kind in ("pred",):
            return None
        params = rd.params
        pos = list(call.args)
        f = call.func
        off = 0
        if rd.fi.params()[:1] == ["klong"] and not (isinstance(f, ast.Attribute)):
            off = 1
        argi = None
        try:
            idx = params.index("i") + off
            if idx < len(pos):
                argi = pos[idx]
        except ValueError:
            pass
        for kw in call.keywords:
            if kw.arg == rd.iname:
                argi = kw.value
        if argi is None:
            base, bname = Cur(0), None
            self.problems.append(f"{self.name}: call of {nm} without a cursor argument: {src(call)[:50]}")
        else:
            base = self.cursor_of(argi, st)
            bname = self.cursor_name(argi)
            if base is None:
                self.problems.append(f"{self.name}: cannot evaluate cursor argument `{src(argi)}` in {src(call)[:50]}")
                base = Cur(0)
        sm = (self.summ_lt.get(nm) if base.lt else None) or self.summ.get(nm) or dict(OPTIMISTIC, kind=rd.kind)
        # the argument is `cursor + c` with the cursor known below len(t): the characters skipped are consumed
        adv_arg = False
        if isinstance(argi, ast.BinOp) and isinstance(argi.op, ast.Add) and isinstance(argi.left, ast.Name) and isinstance(argi.right, ast.Constant) and \
                isinstance(argi.right.value, int) and argi.right.value >= 1:
            c0 = st.get(argi.left.id)
            if isinstance(c0, Cur) and c0.lt:
                adv_arg = True
                st["$consumed"] = True
        if record:
            self.calls.append({"node": call, "callee": nm, "k": base.k, "consumed": bool(st.get("$consumed")), "arg": bname, "argbase": (self.cursor_base(argi) if argi is not None else None), "target": target, "lt": base.lt})
        if rd.kind == "peek":
            v = Val(MAYBE if sm["mayNull"] else NONNULL, {}, False, lt_of=([bname] if (sm["NLT"] and bname) else []))
            return None, v
        kmin = sm["kmin"] if sm["kmin"] < INF else 0
        # conditional strictness: the callee advances >= 1 when its entry conditions hold at this call site
        if sm.get("cond") and bname is not None:
            need = [c.replace("$i", bname) for c in sm["cond"]]
            have = self.facts_at(call, st, bname)
            missing = [c for c in need if c not in have]
            if not missing:
                kmin = max(kmin, 1)
                sm = dict(sm, knonnull=max(sm["knonnull"] if sm["knonnull"] < INF else 0, 1), C=True, Cidx=True)
            elif record:
                self.cond_needs.append((call, nm, missing))
        if rd.kind == "index":
            consumed_after = sm["Cidx"] and kmin >= 1
            return (Cur(base.k + kmin, base.eof, False), None, consumed_after)
        nl = MAYBE if (sm["mayNull"] and sm["mayNonNull"]) else (NULL if sm["mayNull"] and not sm["mayNonNull"] else NONNULL)
        knn = sm["knonnull"] if sm["knonnull"] < INF else kmin
        cur = Cur(base.k + (knn if nl == NONNULL else kmin), base.eof, False)
        val = Val(nl, {}, C=sm["C"])
        val.rels["$ret"] = (base.k + knn, sm["E"])
        return (cur, val, None)

    def facts_at(self, node, st, cname):
        """normalised texts of facts known to hold for cursor `cname` at a call site"""
        out = set()
        c = st.get(cname)
        if isinstance(c, Cur) and c.lt:
            out.add(f"{cname} < len(t)")
        for txt in self.known:
            out.add(txt)
        return out

    def nullness(self, e, st):
        if isinstance(e, ast.Constant):
            return NULL if e.value is None else NONNULL
        if isinstance(e, ast.Name):
            v = st.get(e.id)
            return v.nl if isinstance(v, Val) else MAYBE
        if isinstance(e, (ast.List, ast.Tuple, ast.Dict, ast.JoinedStr, ast.ListComp, ast.BinOp, ast.Subscript)):
            return NONNULL
        if isinstance(e, ast.IfExp):
            a, b = self.nullness(e.body, st), self.nullness(e.orelse, st)
            return a if a == b else MAYBE
        if isinstance(e, ast.BoolOp) and isinstance(e.op, ast.Or):
            return NONNULL if self.nullness(e.values[-1], st) == NONNULL else MAYBE
        if isinstance(e, ast.Call):
            nm = callee_name(e)
            if nm in ALWAYS_NONNULL_CALLS or (nm and nm[:1].isupper()):
                return NONNULL
            if isinstance(e.func, ast.Name):
                # a local that only ever holds constructors of non-null values (convert = int ... convert = float)
                stores = [n for n in walk_local(self.fn) if isinstance(n, ast.Name) and n.id == e.func.id and isinstance(n.ctx, ast.Store)]
                if stores and all(isinstance(getattr(n, "_parent", None), ast.Assign) and len(n._parent.targets) == 1 and isinstance(n._parent.value, ast.Name)
                                  and n._parent.value.id in ("int", "float", "str") for n in stores):
                    return NONNULL
        return MAYBE

    # ------------------------------------------------------------ refinement
    def set_nl(self, state, name, nl):
        v = state.get(name)
        if not isinstance(v, Val):
            return
        if nl == NONNULL and v.nl != NONNULL:
            if v.nl == NULL:
                state["$dead"] = True
            for cn, (n, _E) in v.rels.items():
                c = state.get(cn)
                if isinstance(c, Cur):
                    state[cn] = Cur(max(c.k, n), c.eof, c.lt)
            for cn in v.lt_of:
                c = state.get(cn)
                if isinstance(c, Cur):
                    state[cn] = Cur(c.k, False, True)
            if v.C:
                state["$consumed"] = True
            state[name] = Val(NONNULL, v.rels, v.C, v.lt_of, v.alias)
        elif nl == NULL and v.nl != NULL:
            if v.nl == NONNULL:
                state["$dead"] = True
            for cn, (_n, E) in v.rels.items():
                c = state.get(cn)
                if E and isinstance(c, Cur):
                    state[cn] = Cur(c.k, True, False)
            state[name] = Val(NULL, v.rels, v.C, v.lt_of, v.alias)

    def nonnull_if_true(self, t):
        if isinstance(t, ast.Call):
            nm = callee_name(t)
            if t.args and isinstance(t.args[0], ast.Name):
                if nm == "isinstance":
                    return {t.args[0].id}
                if nm == "safe_eq" and len(t.args) == 2 and isinstance(t.args[1], ast.Constant) and t.args[1].value is not None:
                    return {t.args[0].id}
                if nm in self.preds:
                    return {t.args[0].id}
        if isinstance(t, ast.Compare) and len(t.ops) == 1 and isinstance(t.left, ast.Name):
            c0 = t.comparators[0]
            if isinstance(t.ops[0], ast.IsNot) and isinstance(c0, ast.Constant) and c0.value is None:
                return {t.left.id}
            if isinstance(t.ops[0], ast.Eq) and isinstance(c0, ast.Constant) and c0.value is not None:
                return {t.left.id}
            if isinstance(t.ops[0], ast.In) and isinstance(c0, (ast.List, ast.Set, ast.Tuple)) and all(isinstance(e, ast.Constant) and e.value is not None for e in c0.elts):
                return {t.left.id}
        if isinstance(t, ast.Name):
            return {t.id}
        if isinstance(t, ast.BoolOp) and isinstance(t.op, ast.Or):
            sets = [self.nonnull_if_true(v) for v in t.values]
            return set.intersection(*sets) if sets else set()
        if isinstance(t, ast.BoolOp) and isinstance(t.op, ast.And):
            r = set()
            for v in t.values:
                r |= self.nonnull_if_true(v)
            return r
        if isinstance(t, ast.UnaryOp) and isinstance(t.op, ast.Not):
            return self.nonnull_if_false(t.operand)
        return set()

    def null_if_true(self, t):
        if isinstance(t, ast.Compare) and len(t.ops) == 1 and isinstance(t.left, ast.Name) and isinstance(t.ops[0], ast.Is) and \
                isinstance(t.comparators[0], ast.Constant) and t.comparators[0].value is None:
            return {t.left.id}
        if isinstance(t, ast.BoolOp) and isinstance(t.op, ast.And):
            r = set()
            for v in t.values:
                r |= self.null_if_true(v)
            return r
        return set()

    def nonnull_if_false(self, t):
        if isinstance(t, ast.BoolOp) and isinstance(t.op, ast.Or):
            r = set()
            for v in t.values:
                r |= self.nonnull_if_false(v)
            return r
        if isinstance(t, ast.Compare) and len(t.ops) == 1 and isinstance(t.left, ast.Name):
            c0 = t.comparators[0]
            if isinstance(t.ops[0], ast.Is) and isinstance(c0, ast.Constant) and c0.value is None:
                return {t.left.id}
            if isinstance(t.ops[0], ast.NotEq) and isinstance(c0, ast.Constant) and c0.value is not None:
                return {t.left.id}
        if isinstance(t, ast.UnaryOp) and isinstance(t.op, ast.Not):
            return self.nonnull_if_true(t.operand)
        return set()

    def cursor_facts(self, t, pol, state):
        """apply cursor bounds implied by test t having truth value pol"""
        if isinstance(t, ast.UnaryOp) and isinstance(t.op, ast.Not):
            return self.cursor_facts(t.operand, not pol, state)
        if isinstance(t, ast.BoolOp):
            if (isinstance(t.op, ast.And) and pol) or (isinstance(t.op, ast.Or) and not pol):
                for v in t.values:
                    self.cursor_facts(v, pol, state)
            return
        if isinstance(t, ast.Compare) and len(t.ops) == 1:
            l, r = t.left, t.comparators[0]
            op = type(t.ops[0])
            is_len = lambda e: isinstance(e, ast.Call) and callee_name(e) == "len" and e.args and src(e.args[0]) == "t"
            # (i + c) < len(t)  /  i < len(t) - c
            name, offs = None, 0
            if isinstance(l, ast.Name):
                name = l.id
            elif isinstance(l, ast.BinOp) and isinstance(l.op, ast.Add) and isinstance(l.left, ast.Name) and isinstance(l.right, ast.Constant):
                name, offs = l.left.id, l.right.value
            if name and isinstance(state.get(name), Cur) and (is_len(r) or (isinstance(r, ast.BinOp) and isinstance(r.op, ast.Sub) and is_len(r.left))):
                c = state[name]
                lt_true = (op in (ast.Lt,) and pol) or (op in (ast.GtE,) and not pol)
                ge_true = (op in (ast.GtE,) and pol) or (op in (ast.Lt,) and not pol)
                if lt_true:
                    state[name] = Cur(c.k, False, True)
                    if c.eof:
                        state["$dead"] = True
                elif ge_true and offs == 0 and is_len(r):
                    state[name] = Cur(c.k, True, False)
            return
        if isinstance(t, ast.Call) and callee_name(t) in ("cmatch", "cmatch2") and len(t.args) >= 2 and pol:
            a = t.args[1]
            if isinstance(a, ast.Name) and isinstance(state.get(a.id), Cur):
                c = state[a.id]
                state[a.id] = Cur(c.k, False, True)
                if c.eof:
                    state["$dead"] = True

    def refine(self, test, st):
        T, F = copy.deepcopy(st), copy.deepcopy(st)
        for n in self.nonnull_if_true(test):
            self.set_nl(T, n, NONNULL)
        for n in self.null_if_true(test):
            self.set_nl(T, n, NULL)
        for n in self.nonnull_if_false(test):
            self.set_nl(F, n, NONNULL)
        self.cursor_facts(test, True, T)
        self.cursor_facts(test, False, F)
        # alias constant folding: `a == c` / `a in [consts]` on a value whose alias set contains constants
        if T.pop("$dead", False):
            T = None
        if F.pop("$dead", False):
            F = None
        return T, F

    # ------------------------------------------------------------ statements
    def join(self, a, b):
        if a is None:
            return copy.deepcopy(b)
        if b is None:
            return copy.deepcopy(a)
        r = {}
        for v in set(a) & set(b):
            x, y = a[v], b[v]
            if isinstance(x, Cur) and isinstance(y, Cur):
                r[v] = Cur(min(x.k, y.k), x.eof and y.eof, x.lt and y.lt)
            elif isinstance(x, Val) and isinstance(y, Val):
                nl = x.nl if x.nl == y.nl else MAYBE
                rels = {}
                for cn in set(x.rels) | set(y.rels):
                    def side(val, st_):
                        c = st_.get(cn)
                        if not isinstance(c, Cur):
                            return None
                        if cn in val.rels and val.nl == MAYBE:
                            return val.rels[cn]
                        if val.nl == NONNULL:
                            return (max(c.k, val.rels[cn][0]) if cn in val.rels else c.k, True)
                        if val.nl == NULL:
                            return (INF, (cn in val.rels and val.rels[cn][1]) or c.eof)
                        return (c.k, False)
                    sx, sy = side(x, a), side(y, b)
                    if sx and sy:
                        rels[cn] = (min(sx[0], sy[0]), sx[1] and sy[1])
                def cflag(val, st_):
                    if val.nl == NULL:
                        return True
                    if val.nl == NONNULL:
                        return val.C or bool(st_.get("$consumed"))
                    return val.C
                r[v] = Val(nl, rels, cflag(x, a) and cflag(y, b), x.lt_of & y.lt_of, (x.alias | y.alias) if (x.alias and y.alias) else None)
            elif x == y:
                r[v] = x
        r["$consumed"] = bool(a.get("$consumed")) and bool(b.get("$consumed"))
        return r

    def block(self, stmts, st, loop):
        for x in stmts:
            if st is None:
                return None
            st = self.stmt(x, st, loop)
        return st

    def kill_rels(self, st, names, keep_mono=()):
        for n, v in list(st.items()):
            if isinstance(v, Val):
                for cn in list(v.rels):
                    if cn in names and cn not in keep_mono:
                        del v.rels[cn]
                if v.lt_of & set(names):
                    v.lt_of = v.lt_of - set(names)

    def assign(self, x, st):
        st = copy.deepcopy(st)
        tgt, value = x.targets[0], x.value
        # (ii, aa) = reader(...)
        if isinstance(tgt, ast.Tuple) and len(tgt.elts) == 2 and isinstance(value, ast.Call):
            ci, vi = tgt.elts
            tname = ci.id if isinstance(ci, ast.Name) else None
            r = self.reader_call(value, st, target=tname)
            if r is not None and r[1] is not None:
                c, v, _ = r
                argname = self.calls[-1]["arg"] if self.calls else None
                mono = tname is not None and tname == argname
                if tname:
                    self.kill_rels(st, {tname}, keep_mono=({tname} if mono else ()))
                    st[tname] = c
                if isinstance(vi, ast.Name):
                    n, E = v.rels.pop("$ret")
                    if tname:
                        v.rels[tname] = (n, E)
                    st[vi.id] = v
                    if v.nl == NONNULL and v.C:
                        st["$consumed"] = True
                return st
        if isinstance(tgt, ast.Tuple) and isinstance(value, ast.Tuple) and len(tgt.elts) == len(value.elts):
            for a, b in zip(tgt.elts, value.elts):
                st = self.assign(ast.Assign(targets=[a], value=b, lineno=x.lineno, col_offset=x.col_offset), st)
            return st
        if isinstance(tgt, ast.Name) and isinstance(value, ast.IfExp):
            # x = A if c else B  ==  if c: x = A else: x = B
            T, F = self.refine(value.test, st)
            a = self.assign(ast.copy_location(ast.Assign(targets=[tgt], value=value.body, lineno=x.lineno, col_offset=x.col_offset), x), T) if T is not None else None
            b = self.assign(ast.copy_location(ast.Assign(targets=[tgt], value=value.orelse, lineno=x.lineno, col_offset=x.col_offset), x), F) if F is not None else None
            return self.join(a, b)
        if isinstance(tgt, ast.Name):
            name = tgt.id
            old = st.get(name)
            if isinstance(value, ast.Call):
                r = self.reader_call(value, st, target=name)
                if r is not None:
                    if r[1] is None:              # index-only reader
                        c, _v, consumed_after = r
                        argname = self.calls[-1]["arg"]
                        mono = argname == name or self.calls[-1].get("argbase") == name      # i = skip(t, i + 1): still measured from i, forward only
                        strict = c.k > (old.k if isinstance(old, Cur) else -1) and mono
                        self.kill_rels(st, {name}, keep_mono=({name} if mono else ()))
                        if mono and isinstance(old, Cur):
                            c = Cur(c.k, old.eof, False)
                        st[name] = c
                        if consumed_after:
                            st["$consumed"] = True
                        sm = self.summ.get(callee_name(value))
                        if mono and sm and sm["kind"] == "index" and sm["kmin"] >= 1 and sm["kmin"] < INF and sm["Cidx"]:
                            # a strict reader succeeded on the old cursor => the old cursor was below len(t):
                            # values that are null only at end of input (relative to this cursor) are non-null
                            for n2, v2 in list(st.items()):
                                if isinstance(v2, Val) and name in v2.rels and v2.rels[name][1] and v2.nl != NONNULL:
                                    self.set_nl(st, n2, NONNULL)
                        return st
                    if r[0] is None:              # peek helper
                        st[name] = r[1]
                        return st
            c = self.cursor_of(value, st)
            if c is not None:
                mono = isinstance(old, Cur) and name in {n.id for n in ast.walk(value) if isinstance(n, ast.Name)} and c.k >= old.k
                if isinstance(old, Cur) and old.lt and c.k > old.k and mono:
                    st["$consumed"] = True
                # j = i + c (c >= 1) with i known below len(t): the characters stepped over are in the text (same reading as an
                # argument `i + c` handed to a reader), whatever the position is called
                if isinstance(value, ast.BinOp) and isinstance(value.op, ast.Add) and isinstance(value.left, ast.Name) and isinstance(st.get(value.left.id), Cur) and \
                        st[value.left.id].lt and c.k > st[value.left.id].k:
                    st["$consumed"] = True          # (the step is a constant >= 1, or the smaller arm of `2 if wide else 1`)
                src_name = value.id if isinstance(value, ast.Name) else None
                self.kill_rels(st, {name}, keep_mono=({name} if mono else ()))
                st[name] = Cur(c.k, c.eof if (mono or src_name) else False, c.lt if src_name else False)
                if src_name:
                    # i = ii : facts about ii now also describe i
                    for n2, v2 in st.items():
                        if isinstance(v2, Val) and src_name in v2.rels:
                            v2.rels[name] = v2.rels[src_name]
                return st
            # value variable
            self.kill_rels(st, {name})
            if isinstance(value, ast.Name) and isinstance(st.get(value.id), Val):
                st[name] = copy.deepcopy(st[value.id])
            elif isinstance(value, ast.Subscript) and src(value.value) == "t" and isinstance(value.slice, ast.Name) and isinstance(st.get(value.slice.id), Cur):
                cn = value.slice.id
                st[cn] = Cur(st[cn].k, False, True)          # t[i] evaluated without IndexError => i < len(t)
                st[name] = Val(NONNULL, {}, False, alias=frozenset([("tsub", cn)]))
            elif isinstance(value, ast.Constant) and value.value is not None:
                st[name] = Val(NONNULL, {}, False, alias=frozenset([("const", value.value)]))
            elif isinstance(value, ast.BinOp) or (isinstance(value, ast.Call) and callee_name(value) in ("index", "find", "len")):
                st[name] = "nonneg" if _nonneg(value) else Val(self.nullness(value, st))
            else:
                st[name] = Val(self.nullness(value, st))
        return st

    def stmt(self, x, st, loop):
        if isinstance(x, ast.Assign) and len(x.targets) == 1:
            return self.assign(x, st)
        if isinstance(x, ast.Assign) and len(x.targets) > 1 and all(isinstance(t_, ast.Name) for t_ in x.targets):
            # a = b = e : the value goes to the first target, the others copy it
            st = self.assign(ast.copy_location(ast.Assign(targets=[x.targets[0]], value=x.value, lineno=x.lineno, col_offset=x.col_offset), x), st)
            for t_ in x.targets[1:]:
                st = self.assign(ast.copy_location(ast.Assign(targets=[t_], value=ast.copy_location(ast.Name(id=x.targets[0].id, ctx=ast.Load()), x), lineno=x.lineno, col_offset=x.col_offset), x), st)
            return st
        if isinstance(x, ast.AugAssign) and isinstance(x.target, ast.Name) and isinstance(x.op, ast.Add):
            st = copy.deepcopy(st)
            c = st.get(x.target.id)
            if isinstance(c, Cur):
                def _inc(v):
                    # a conditional increment advances by at least the smaller of its two values
                    if isinstance(v, ast.IfExp):
                        return min(_inc(v.body), _inc(v.orelse))
                    return v.value if isinstance(v, ast.Constant) and isinstance(v.value, int) else 0
                inc = _inc(x.value)
                if c.lt and inc >= 1:
                    st["$consumed"] = True
                st[x.target.id] = Cur(c.k + max(inc, 0), c.eof, False)
            return st
        if isinstance(x, ast.Expr):
            if isinstance(x.value, ast.Call):
                self.reader_call(x.value, st)
            return st
        if isinstance(x, ast.If):
            T, F = self.refine(x.test, st)
            pushed = self._push_known(x.test, True, st)
            a = self.block(x.body, T, loop) if T is not None else None
            self._pop_known(pushed)
            pushed = self._push_known(x.test, False, st)
            b = self.block(x.orelse, F, loop) if F is not None else None
            self._pop_known(pushed)
            # conditions of earlier always-exiting arms keep holding afterwards
            if a is None and T is not None and not x.orelse:
                self._push_known(x.test, False, st)
            return self.join(a, b) if (a is not None and b is not None) else (a if b is None else b)
        if isinstance(x, ast.While):
            return self.while_(x, st, loop)
        if isinstance(x, ast.For):
            st2 = self.block(x.body, copy.deepcopy(st), {"breaks": [], "conts": []})
            return self.join(st, st2)
        if isinstance(x, ast.Return):
            self.ret(x, st)
            return None
        if isinstance(x, ast.Raise):
            return None
        if isinstance(x, ast.Break):
            loop["breaks"].append(copy.deepcopy(st))
            return None
        if isinstance(x, ast.Continue):
            loop["conts"].append(copy.deepcopy(st))
            return None
        if isinstance(x, ast.Try):
            a = self.block(x.body, st, loop)
            for h in x.handlers:
                self.block(h.body, copy.deepcopy(st), loop)
            return a
        return st

    def _push_known(self, test, pol, st):
        """record `P(t[c])`-style and `c < len(t)` facts that hold in an arm, as texts over cursor names (for conditional summaries)"""
        n0 = len(self.known)
        def walk(t, pol):
            if isinstance(t, ast.UnaryOp) and isinstance(t.op, ast.Not):
                return walk(t.operand, not pol)
            if isinstance(t, ast.BoolOp):
                if (isinstance(t.op, ast.And) and pol) or (isinstance(t.op, ast.Or) and not pol):
                    for v in t.values:
                        walk(v, pol)
                return
            if pol and isinstance(t, ast.Call) and t.args:
                a0 = t.args[0]
                # P(a) where a aliases t[c] (and no constant alternative satisfies P)
                if isinstance(a0, ast.Name) and isinstance(st.get(a0.id), Val) and st[a0.id].alias:
                    for cn in _alias_cursors(st[a0.id].alias, callee_name(t), self.preds_src):
                        self.known.append(f"{callee_name(t)}(t[{cn}])")
                if isinstance(a0, ast.Subscript) and src(a0.value) == "t" and isinstance(a0.slice, ast.Name):
                    self.known.append(f"{callee_name(t)}(t[{a0.slice.id}])")
        walk(test, pol)
        return n0

    def _pop_known(self, n0):
        del self.known[n0:]

    def while_(self, x, st, outer):
        head = copy.deepcopy(st)
        for _ in range(8):
            loop = {"breaks": [], "conts": []}
            T, _F = self.refine(x.test, head)
            end = self.block(x.body, T, loop) if T is not None else None
            backs = [b for b in [end] + loop["conts"] if b is not None]
            new_head = copy.deepcopy(st)
            for b in backs:
                new_head = self.join(new_head, b)
            if skey(new_head) == skey(head):
                break
            head = new_head
        # final pass with the consumption flag reset at the body start (consumption per iteration)
        loop = {"breaks": [], "conts": []}
        T, F = self.refine(x.test, head)
        saved_calls, saved_needs = len(self.calls), len(self.cond_needs)
        if T is not None:
            T0 = copy.deepcopy(T)
            T0["$consumed"] = False
            n_loops = len(self.loops)
            n_ret = len(self.returns)
            end = self.block(x.body, T0, loop)
            del self.loops[n_loops:]           # inner loops are judged in the main pass only
            del self.returns[n_ret:]
            del self.calls[saved_calls:]
            del self.cond_needs[saved_needs:]
            backs0 = [b for b in [end] + loop["conts"] if b is not None]
        else:
            backs0 = []
        loop = {"breaks": [], "conts": []}
        end = self.block(x.body, T, loop) if T is not None else None
        backs = [b for b in [end] + loop["conts"] if b is not None]
        test_src = src(x.test)
        cursors = [n for n, v in head.items() if isinstance(v, Cur)]
        verdict = None
        best_detail = []
        for cname in cursors:
            bounded = _test_bounds_cursor(x.test, cname) or _body_bounds_cursor(x.body, cname)
            ok = True
            detail = []
            for b, b0 in zip(backs, backs0):
                # only back edges on which the loop test holds again continue the loop
                bt, _bf = self.refine(x.test, b)
                b0t, _ = self.refine(x.test, b0)
                if bt is None or b0t is None:
                    detail.append("test cannot hold again on this back edge")
                    continue
                b, b0 = bt, b0t
                h, a = head.get(cname), b.get(cname)
                if not (isinstance(h, Cur) and isinstance(a, Cur)):
                    ok = False
                    detail.append("cursor lost")
                    continue
                adv = a.k - h.k
                consumed = bool(b0.get("$consumed"))
                if adv >= 1 and (bounded or consumed):
                    detail.append(f"+{adv}{' consuming' if consumed else ''}")
                    continue
                if bounded and a.eof:
                    detail.append("at end of input, test bounded")
                    continue
                rel = [v for v in b.values() if isinstance(v, Val) and cname in v.rels and v.rels[cname][0] - h.k >= 1 and v.rels[cname][1]]
                if rel and bounded:
                    detail.append("(value non-null => +1) or (null => end of input), test bounded")
                    continue
                ok = False
                detail.append(f"no progress on `{cname}` (advance {adv}, consumed {consumed}, bounded test {bounded})")
            if ok and backs:
                verdict = (True, cname, detail)
                break
            best_detail = best_detail or [(cname, detail)]
        if verdict is None and _shrinks_container(x):
            verdict = (True, None, ["every iteration removes an element of the local list the loop runs on, nothing adds to it"])
        if verdict is None:
            if not backs:
                verdict = (True, None, ["no back edge: body always leaves the loop"])
            else:
                verdict = (False, None, best_detail)
        self.loops.append((x, verdict[0], verdict[1], verdict[2], test_src))
        out = F
        for b in loop["breaks"]:
            out = self.join(out, b)
        if isinstance(x.test, ast.Constant) and x.test.value:
            out = None
            for b in loop["breaks"]:
                out = self.join(out, b)
        return out

    def ret(self, x, st):
        v = x.value
        consumed = bool(st.get("$consumed"))
        if v is None:
            return
        # a conditional result is two results, each under its side of the test
        if isinstance(v, ast.IfExp) and self.r.kind != "peek":
            T, F = self.refine(v.test, st)
            for alt, s_ in ((v.body, T), (v.orelse, F)):
                if s_ is not None:
                    self.ret(ast.copy_location(ast.Return(value=alt), x), s_)
            return
        if isinstance(v, ast.Tuple) and len(v.elts) == 2 and isinstance(v.elts[0], ast.IfExp):
            e0 = v.elts[0]
            T, F = self.refine(e0.test, st)
            for alt, s_ in ((e0.body, T), (e0.orelse, F)):
                if s_ is not None:
                    self.ret(ast.copy_location(ast.Return(value=ast.copy_location(ast.Tuple(elts=[alt, v.elts[1]], ctx=ast.Load()), v)), x), s_)
            return
        if isinstance(v, ast.Call):
            r = self.reader_call(v, st, target="$return")
            if r is not None and r[0] is not None:
                c, val, consumed_after = r
                consumed = consumed or bool(st.get("$consumed"))
                if val is None:
                    self.returns.append({"k": c.k, "eof": c.eof, "nl": None, "consumed": consumed or bool(consumed_after), "node": x})
                    return
                n, E = val.rels.get("$ret", (c.k, False))
                self.returns.append({"k": c.k, "eof": c.eof, "nl": val.nl, "knn": max(n, c.k), "E": E, "consumed_nn": consumed or val.C, "node": x})
                return
        if isinstance(v, ast.Tuple) and len(v.elts) == 2:
            c = self.cursor_of(v.elts[0], st)
            if c is None:
                self.problems.append(f"{self.name}: returned index is not a cursor expression: {src(v.elts[0])}")
                c = Cur(0)
            b0 = v.elts[0]
            while isinstance(b0, ast.BinOp) and isinstance(b0.op, ast.Add):          # i + 2 + 1: the cursor the sum starts from
                b0 = b0.left
            base = st.get(b0.id) if isinstance(b0, ast.Name) else None
            cons = consumed or (isinstance(base, Cur) and base.lt and c.k > base.k)
            y = v.elts[1]
            nl = self.nullness(y, st)
            knn, E = c.k, c.eof
            cn = v.elts[0].id if isinstance(v.elts[0], ast.Name) else None
            if isinstance(y, ast.Name) and isinstance(st.get(y.id), Val):
                val = st[y.id]
                if cn and cn in val.rels:
                    knn = max(knn, val.rels[cn][0])
                    E = E or val.rels[cn][1]
                cons = cons or (val.C and nl != NULL)
            # int(t[p:i]) / float(t[p:i]) with p the entry cursor raise on an empty slice: a normal return consumed >= 1 char
            if _parses_entry_slice(y, self.fn):
                knn = max(knn, 1)
                c = Cur(max(c.k, 1), c.eof, c.lt)
                cons = True
            self.returns.append({"k": c.k, "eof": c.eof, "nl": nl, "knn": knn, "E": E, "consumed_nn": cons, "node": x})
            return
        c = self.cursor_of(v, st)
        if c is not None:
            base = st.get(v.left.id) if isinstance(v, ast.BinOp) and isinstance(v.left, ast.Name) else (st.get(v.id) if isinstance(v, ast.Name) else None)
            cons = consumed or (isinstance(base, Cur) and base.lt and c.k > base.k)
            self.returns.append({"k": c.k, "eof": c.eof, "nl": None, "consumed": cons, "node": x})
            return
        if self.r.kind == "peek":
            return
        self.problems.append(f"{self.name}: unrecognised return shape `{src(v)[:50]}`")

    preds_src = {}

    def run(self):
        st = {"i": Cur(0, False, self.entry_lt), "$consumed": False}
        self.block(self.fn.body, st, {"breaks": [], "conts": []})
        sm = default_summary(self.r.kind)
        if self.r.kind == "peek":
            sm.update(_peek_summary(self.fn))
            return sm
        if not self.returns:
            sm.update({"kmin": INF, "raises_only": True})
            return sm
        for r in self.returns:
            sm["kmin"] = min(sm["kmin"], r["k"])
            if r["nl"] is None:
                if not r.get("consumed"):
                    sm["Cidx"] = False
                continue
            if r["nl"] in (NONNULL, MAYBE):
                sm["mayNonNull"] = True
                sm["knonnull"] = min(sm["knonnull"], r["knn"])
                if not r.get("consumed_nn"):
                    sm["C"] = False
            if r["nl"] in (NULL, MAYBE):
                sm["mayNull"] = True
                if not (r["eof"] or r.get("E")):
                    sm["E"] = False
        sm["cond"] = _entry_condition(self.fn) if sm["kmin"] == 0 or (sm["kind"] == "pair" and sm["knonnull"] == 0) else None
        return sm


def _shrinks_container(loop):
    """`while xs:` (or `while len(xs) > 0`) over a local name where every path through the body calls xs.pop()/popleft() at its top
    level and nothing in the body can add to xs (no append/extend/insert/+=, xs not handed to a call, not re-bound)"""
    t = loop.test
    name = None
    if isinstance(t, ast.Name):
        name = t.id
    elif isinstance(t, ast.Compare) and len(t.ops) == 1 and isinstance(t.ops[0], (ast.Gt, ast.NotEq)) and isinstance(t.left, ast.Call) and callee_name(t.left) == "len" and \
            len(t.left.args) == 1 and isinstance(t.left.args[0], ast.Name) and isinstance(t.comparators[0], ast.Constant) and t.comparators[0].value == 0:
        name = t.left.args[0].id
    if name is None or loop.orelse:
        return False
    pops = 0
    for st in loop.body:
        top_pop = any(isinstance(c, ast.Call) and isinstance(c.func, ast.Attribute) and c.func.attr in ("pop", "popleft") and isinstance(c.func.value, ast.Name) and c.func.value.id == name
                      for c in ast.walk(st)) and not isinstance(st, (ast.If, ast.For, ast.While, ast.Try, ast.With))
        pops += bool(top_pop)
        for n in ast.walk(st):
            if isinstance(n, ast.Name) and n.id == name:
                if isinstance(n.ctx, (ast.Store, ast.Del)):
                    return False
                p_ = getattr(n, "_parent", None)
                ok_use = isinstance(p_, ast.Attribute) and p_.attr in ("pop", "popleft") or (isinstance(p_, ast.Call) and callee_name(p_) == "len") or isinstance(p_, (ast.Subscript,))
                if not ok_use:
                    return False
            if isinstance(n, (ast.Continue,)):
                return False
    return pops >= 1


def _nonneg(e):
    if isinstance(e, ast.Call) and callee_name(e) in ("index", "len"):
        return True
    return False


def _alias_cursors(alias, pred, preds_src):
    """cursor names c such that value == t[c] whenever pred(value) holds: every constant alternative must fail pred"""
    curs = [a[1] for a in alias if a[0] == "tsub"]
    consts = [a[1] for a in alias if a[0] == "const"]
    if len(curs) != 1:
        return []
    fn = preds_src.get(pred)
    for c in consts:
        try:
            if fn is None or fn(c):
                return []
        except Exception:
            return []
    return curs


def _parses_entry_slice(y, fn):
    """y contains int(<s>) / float(<s>) where <s> is (a local bound once to) the slice t[<entry alias>:<cursor>]: both raise on an
    empty string, so a normal return has consumed at least one character"""
    for c in ast.walk(y):
        if isinstance(c, ast.Call) and isinstance(c.func, ast.Name) and len(c.args) == 1:
            conv = {c.func.id}
            if c.func.id not in ("int", "float"):
                # a local that only ever holds one of the two converters
                cdefs = [n for n in walk_local(fn) if isinstance(n, ast.Name) and n.id == c.func.id and isinstance(n.ctx, ast.Store)]
                conv = {n._parent.value.id if isinstance(getattr(n, "_parent", None), ast.Assign) and len(n._parent.targets) == 1 and isinstance(n._parent.value, ast.Name) else None for n in cdefs}
                if not cdefs:
                    continue
            if not conv <= {"int", "float"}:
                continue
            a = c.args[0]
            if isinstance(a, ast.Name):
                defs = [n for n in walk_local(fn) if isinstance(n, ast.Assign) and any(isinstance(t, ast.Name) and t.id == a.id for t in n.targets)]
                if len(defs) != 1:
                    continue
                a = defs[0].value
            if isinstance(a, ast.Subscript) and isinstance(a.value, ast.Name) and a.value.id == "t" and isinstance(a.slice, ast.Slice) and \
                    isinstance(a.slice.lower, ast.Name) and _is_entry_alias(fn, a.slice.lower.id) and isinstance(a.slice.upper, ast.Name) and a.slice.upper.id == "i":
                return True
    return False


def _is_entry_alias(fn, name):
    defs = [n for n in walk_local(fn) if isinstance(n, ast.Assign) and any(isinstance(t, ast.Name) and t.id == name for t in n.targets)]
    return len(defs) == 1 and isinstance(defs[0].value, ast.Name) and defs[0].value.id == "i" and fn.body.index(defs[0]) == _first_stmt_index(fn)


def _first_stmt_index(fn):
    for k, s in enumerate(fn.body):
        if not (isinstance(s, ast.Expr) and isinstance(s.value, ast.Constant)):
            return k
    return 0


def _entry_condition(fn):
    """`while i < len(t) and P(t[i]): i += 1` as the first cursor-changing statement: advance >= 1 when the test holds on entry.
    The scanning position may be another local set to the entry cursor first (`end = i`) as long as it is what the function returns."""
    aliases = set()
    for s in fn.body:
        if isinstance(s, ast.Expr) and isinstance(s.value, ast.Constant):
            continue
        if isinstance(s, ast.Pass):
            continue
        if isinstance(s, ast.Assign) and len(s.targets) == 1 and isinstance(s.targets[0], ast.Name) and isinstance(s.value, ast.Name) and s.value.id == "i":
            aliases.add(s.targets[0].id)          # another name for the entry position (`p = i`, `end = i`)
            continue
        if isinstance(s, ast.Assign) and not any(isinstance(n, ast.Name) and n.id in ({"i"} | aliases) and isinstance(n.ctx, ast.Store) for n in ast.walk(s)):
            continue
        if isinstance(s, ast.While) and isinstance(s.test, ast.BoolOp) and isinstance(s.test.op, ast.And):
            moved = [src(b.target) for b in s.body if isinstance(b, ast.AugAssign)]
            cur = next((m_ for m_ in moved if m_ == "i" or m_ in aliases), None)
            if cur is None:
                return None
            conds = []
            for v in s.test.values:
                if isinstance(v, ast.Compare) and src(v) == f"{cur} < len(t)":
                    conds.append("$i < len(t)")
                elif isinstance(v, ast.Call) and len(v.args) == 1 and src(v.args[0]) == f"t[{cur}]":
                    conds.append(f"{callee_name(v)}(t[$i])")
                else:
                    return None
            if cur != "i":
                # `i` itself must stay the entry position and the moved position must be the index returned
                if any(isinstance(n, ast.Name) and n.id == "i" and isinstance(n.ctx, ast.Store) for n in walk_local(fn)):
                    return None
                rets = [r for r in walk_local(fn) if isinstance(r, ast.Return)]
                if not rets or not all(isinstance(r.value, ast.Tuple) and r.value.elts and isinstance(r.value.elts[0], ast.Name) and r.value.elts[0].id == cur for r in rets):
                    return None
            if any(isinstance(b, ast.AugAssign) and src(b.target) == cur for b in s.body):
                return conds
        return None
    return None


def _peek_summary(fn):
    """`return X if <i bound test> else None`: non-null => the bound test held"""
    ok = True
    may_null = False
    for r in [n for n in walk_local(fn) if isinstance(n, ast.Return) and n.value is not None]:
        v = r.value
        if isinstance(v, ast.IfExp) and isinstance(v.orelse, ast.Constant) and v.orelse.value is None:
            may_null = True
            t = src(v.test)
            if not (t.startswith("i < len(t)") or t.startswith("i < len(t) - ")):
                ok = False
        else:
            ok = False
    return {"NLT": ok, "mayNull": may_null, "mayNonNull": True, "kmin": 0}


def _body_bounds_cursor(body, cname):
    """`while True:` spelling of a bounded loop: before the cursor is changed, the body leaves the loop unless cname < len(t)
    (`if cname >= len(t): break`, `if not cname < len(t): break`, possibly after other exits)"""
    for st in body:
        if isinstance(st, ast.If) and not st.orelse and st.body and isinstance(st.body[-1], (ast.Break, ast.Return, ast.Raise)):
            t, pol = st.test, True
            while isinstance(t, ast.UnaryOp) and isinstance(t.op, ast.Not):
                t, pol = t.operand, not pol
            if isinstance(t, ast.Compare) and len(t.ops) == 1 and src(t.left) == cname and src(t.comparators[0]) == "len(t)":
                if (pol and isinstance(t.ops[0], ast.GtE)) or (not pol and isinstance(t.ops[0], ast.Lt)):
                    return True
            continue            # another early exit that does not touch the cursor
        if isinstance(st, ast.Pass):
            continue
        if isinstance(st, ast.Assign) and not any(isinstance(n, ast.Name) and n.id == cname and isinstance(n.ctx, ast.Store) for n in ast.walk(st)) and \
                not any(isinstance(c, ast.Call) for c in ast.walk(st.value) if not (isinstance(c, ast.Call) and callee_name(c) in ("cmatch", "cmatch2", "len", "cpeek", "cpeek2"))):
            continue            # a local computed from pure look-ahead
        return False
    return False


def _test_bounds_cursor(test, cname):
    """the loop test implies cname < len(t) whenever it is true"""
    def walk(t, pol):
        if isinstance(t, ast.UnaryOp) and isinstance(t.op, ast.Not):
            return walk(t.operand, not pol)
        if isinstance(t, ast.BoolOp):
            if isinstance(t.op, ast.And) and pol:
                return any(walk(v, pol) for v in t.values)
            if isinstance(t.op, ast.Or) and pol:
                return all(walk(v, pol) for v in t.values)
            return False
        if isinstance(t, ast.Compare) and len(t.ops) == 1 and pol:
            return isinstance(t.ops[0], ast.Lt) and src(t.left) == cname and src(t.comparators[0]) == "len(t)"
        if isinstance(t, ast.Call) and callee_name(t) in ("cmatch", "cmatch2") and pol:
            return len(t.args) >= 2 and src(t.args[1]) == cname
        return False
    return walk(test, True)


def discover_nonnull_preds(repo):
    """predicates P with: P(x) true => x is not None.  `return isinstance(p0, ...) and ...`, membership in a set of non-None constants"""
    names = set()
    evals = {}
    for f in repo.all_funcs(("types", "interpreter", "parser")):
        ps = [p for p in f.params() if p != "self"]
        if not ps:
            continue
        rets = [n.value for n in walk_local(f.node) if isinstance(n, ast.Return) and n.value is not None]
        if len(rets) != 1:
            continue
        v = rets[0]
        first = v.values[0] if isinstance(v, ast.BoolOp) and isinstance(v.op, ast.And) else v
        if isinstance(first, ast.Call) and callee_name(first) == "isinstance" and first.args and src(first.args[0]) == ps[0]:
            names.add(f.name)
        if isinstance(v, ast.Compare) and isinstance(v.ops[0], ast.In) and src(v.left) == ps[0] and isinstance(v.comparators[0], (ast.Set, ast.List, ast.Tuple)) and \
                all(isinstance(e, ast.Constant) and e.value is not None for e in v.comparators[0].elts):
            names.add(f.name)
    # is_symbolic(c) as an executable predicate on constants (frozen from its one-line definition)
    f = repo.fn_opt("types:is_symbolic")
    if f is not None:
        rets = [n.value for n in walk_local(f.node) if isinstance(n, ast.Return)]
        if len(rets) == 1:
            code = compile(ast.Expression(body=rets[0]), "<is_symbolic>", "eval")
            p0 = f.params()[0]
            evals["is_symbolic"] = lambda c, _code=code, _p=p0: bool(eval(_code, {"isinstance": isinstance, "str": str}, {_p: c}))
    return names, evals


def analyse(repo):
    """-> dict(readers, summaries, analyzers, problems)"""
    readers = discover_readers(repo)
    preds, evals = discover_nonnull_preds(repo)
    Analyzer.preds_src = evals
    summ, summ_lt = {}, {}
    problems = []
    order = list(readers)
    rounds = 0
    for rounds in range(1, 10):
        changed = False
        for nm in order:
            if readers[nm].kind == "pred":
                continue
            for lt, table in ((False, summ), (True, summ_lt)):
                a = Analyzer(readers[nm], readers, summ, preds, [], entry_lt=lt, summ_lt=summ_lt)
                sm = a.run()
                if table.get(nm) != sm:
                    table[nm] = sm
                    changed = True
        if not changed:
            break
    analyzers = {}
    for nm in order:
        if readers[nm].kind == "pred":
            continue
        a = Analyzer(readers[nm], readers, summ, preds, problems, entry_lt=False, summ_lt=summ_lt)
        a.run()
        analyzers[nm] = a
    return {"readers": readers, "summaries": summ, "summaries_lt": summ_lt, "analyzers": analyzers, "problems": sorted(set(problems)), "rounds": rounds, "preds": sorted(preds)}
