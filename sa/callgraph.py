"""E2: name resolution, class hierarchy and a resolved call graph over the Repo model.

Resolution order for a call `f(...)`:      nested/local def, module-level def, imported name.
For `recv.m(...)`: `self.m` -> class hierarchy (bases and subclasses); `self.attr.m` / `x.m` where the
receiver's class is known from a constructor assignment, an annotation, or the repo's receiver naming
convention table; `Cls.m`; `super().m`.  Function *values* passed as arguments (executor.submit(f, ..),
loop.call_soon(f, ..), run_coroutine_threadsafe(coro(), loop) ...) give 'value' edges.
Unresolved calls are counted (reported in evidence as callgraph_resolution).
"""
import ast
import builtins

from .model import FUNC, FuncInfo, callee_name, dotted, walk_local

# receiver naming conventions of this repository (frozen table, DESIGN E2(c))
RECEIVER_CONVENTION = {
    "klong": ("interpreter", "KlongInterpreter"),
    "klong._context": ("interpreter", "KlongContext"),
    "self._context": ("interpreter", "KlongContext"),   # inside KlongInterpreter
    "self.klong": ("interpreter", "KlongInterpreter"),
    "self.klong._context": ("interpreter", "KlongContext"),
    "nc": None,
    "backend": ("backends/base", "BackendProvider"),
    "klong._backend": ("backends/base", "BackendProvider"),
    "klong.backend": ("backends/base", "BackendProvider"),
    "self._backend": ("backends/base", "BackendProvider"),
    "self.klong._backend": ("backends/base", "BackendProvider"),
}

_BUILTINS = set(dir(builtins))


class CallGraph:
    def __init__(self, repo):
        self.repo = repo
        self.imports = {}      # module -> {local name: (module, name)}
        self.toplevel = {}     # module -> {name: node}
        self.class_index = {}  # class name -> [(module, ClassDef)]
        self.bases = {}        # (module, cls) -> [class names]
        self.subclasses = {}   # class name -> set(class names)
        self._build_symbols()
        self.edges = {}        # fq -> set of (fq, kind)
        self.unresolved = 0
        self.resolved = 0
        self.external = 0
        self._attr_types = {}  # (module, cls) -> {attr: class name}
        self._built = False
        self._rc_cache = {}
        self._lt_cache = {}

    # ------------------------------------------------------------ symbols
    def _mod_of(self, cur, level, modname):
        """resolve an ImportFrom target to a repo module name or None"""
        if level == 0:
            if modname == "klongpy":
                return "__init__"
            if modname and modname.startswith("klongpy."):
                cand = modname[len("klongpy."):].replace(".", "/")
            else:
                return None
        else:
            base = cur.split("/")[:-1]
            if cur.endswith("__init__"):
                base = cur.split("/")[:-1]
            for _ in range(level - 1):
                base = base[:-1]
            cand = "/".join(base + (modname.split(".") if modname else []))
        if cand in self.repo.modules:
            return cand
        if cand + "/__init__" in self.repo.modules:
            return cand + "/__init__"
        if cand == "":
            return "__init__"
        return None

    def _build_symbols(self):
        for mn, m in self.repo.modules.items():
            top = {}
            for n in m.tree.body:
                if isinstance(n, FUNC + (ast.ClassDef,)):
                    top[n.name] = n
                elif isinstance(n, ast.Assign):
                    for t in n.targets:
                        if isinstance(t, ast.Name):
                            top[t.id] = n
            self.toplevel[mn] = top
            for cn, c in m.classes.items():
                self.class_index.setdefault(cn, []).append((mn, c))
                bs = []
                for b in c.bases:
                    d = dotted(b)
                    if d:
                        bs.append(d.split(".")[-1])
                self.bases[(mn, cn)] = bs
                for b in bs:
                    self.subclasses.setdefault(b, set()).add(cn)
        # imports (two passes so that star imports see their targets' imports)
        for mn in self.repo.modules:
            self.imports[mn] = {}
        for _ in range(4):
            for mn, m in self.repo.modules.items():
                imp = self.imports[mn]
                for n in ast.walk(m.tree):
                    if isinstance(n, ast.ImportFrom):
                        tgt = self._mod_of(mn, n.level, n.module)
                        if tgt is None:
                            continue
                        for a in n.names:
                            if a.name == "*":
                                for k in self.toplevel[tgt]:
                                    imp.setdefault(k, (tgt, k))
                                for k, v in self.imports[tgt].items():
                                    imp.setdefault(k, v)
                            else:
                                # follow re-exports
                                v = (tgt, a.name)
                                if a.name not in self.toplevel[tgt] and a.name in self.imports[tgt]:
                                    v = self.imports[tgt][a.name]
                                imp[a.asname or a.name] = v

    # ------------------------------------------------------------ classes
    def class_def(self, name, prefer_module=None):
        lst = self.class_index.get(name, [])
        if prefer_module:
            for mn, c in lst:
                if mn == prefer_module:
                    return mn, c
        return lst[0] if lst else (None, None)

    def resolve_class_name(self, module, name):
        """class `name` as seen from `module` -> (module, ClassDef) or (None, None)"""
        if name in self.repo.modules[module].classes:
            return module, self.repo.modules[module].classes[name]
        tgt = self.imports[module].get(name)
        if tgt and tgt[1] in self.repo.modules[tgt[0]].classes:
            return tgt[0], self.repo.modules[tgt[0]].classes[tgt[1]]
        return None, None

    def mro(self, module, cname):
        """[(module, ClassDef)] of cname and its repo-defined ancestors"""
        out, seen, work = [], set(), [(module, cname)]
        while work:
            mn, cn = work.pop(0)
            if (mn, cn) in seen:
                continue
            seen.add((mn, cn))
            m2, c = self.resolve_class_name(mn, cn) if mn else self.class_def(cn)
            if c is None:
                m2, c = self.class_def(cn)
            if c is None:
                continue
            out.append((m2, c))
            for b in self.bases.get((m2, c.name), []):
                work.append((m2, b))
        return out

    def all_subclasses(self, cname):
        out, work = set(), [cname]
        while work:
            c = work.pop()
            for s in self.subclasses.get(c, ()):
                if s not in out:
                    out.add(s)
                    work.append(s)
        return out

    def methods_named(self, module, cname, meth, include_subclasses=True):
        """FuncInfos for method `meth` reachable by dynamic dispatch on an object of static class cname"""
        res = []
        for mn, c in self.mro(module, cname):
            fi = self.repo.modules[mn].funcs.get(f"{c.name}.{meth}")
            if fi:
                res.append(fi)
                break
        if include_subclasses:
            for s in self.all_subclasses(cname):
                for mn, c in self.class_index.get(s, []):
                    fi = self.repo.modules[mn].funcs.get(f"{c.name}.{meth}")
                    if fi and fi not in res:
                        res.append(fi)
        return res

    def exc_hierarchy(self):
        """class name -> base class names, for repo-defined classes (used by Sem.exc_subclass)"""
        h = {}
        for (mn, cn), bs in self.bases.items():
            h.setdefault(cn, [])
            h[cn] += [b for b in bs if b not in h[cn]]
        return h

    def attr_types(self, module, cname):
        """self.<attr> = Cls(...) assignments anywhere in the class (and its bases) -> {attr: class name}"""
        key = (module, cname)
        if key in self._attr_types:
            return self._attr_types[key]
        out = {}
        for mn, c in reversed(self.mro(module, cname)):
            for n in ast.walk(c):
                if isinstance(n, ast.Assign) and isinstance(n.value, ast.Call):
                    cn = dotted(n.value.func)
                    if not cn:
                        continue
                    cn = cn.split(".")[-1]
                    if cn in self.class_index:
                        for t in n.targets:
                            if isinstance(t, ast.Attribute) and isinstance(t.value, ast.Name) and t.value.id == "self":
                                out[t.attr] = cn
                elif isinstance(n, ast.AnnAssign) and isinstance(n.target, ast.Attribute) and \
                        isinstance(n.target.value, ast.Name) and n.target.value.id == "self":
                    d = dotted(n.annotation)
                    if d and d.split(".")[-1] in self.class_index:
                        out[n.target.attr] = d.split(".")[-1]
        self._attr_types[key] = out
        return out

    # ------------------------------------------------------------ resolution
    def resolve_name(self, fi, name):
        """a bare function/class name used inside function fi -> [FuncInfo] (constructor => __init__)"""
        # nested defs of enclosing functions
        f = fi
        while f is not None:
            cand = f.module.funcs.get(f"{f.qual}.{name}")
            if cand:
                return [cand]
            f = f.parent
        m = fi.module
        if name in m.funcs and "." not in name:
            return [m.funcs[name]]
        if name in m.classes:
            init = [x for x in self.methods_named(m.name, name, "__init__", include_subclasses=False)]
            return init
        tgt = self.imports[m.name].get(name)
        if tgt:
            tm = self.repo.modules[tgt[0]]
            if tgt[1] in tm.funcs:
                return [tm.funcs[tgt[1]]]
            if tgt[1] in tm.classes:
                return self.methods_named(tgt[0], tgt[1], "__init__", include_subclasses=False)
        return []

    def local_types(self, fi):
        """variables of fi with a known class: constructor assignment, annotation"""
        if fi.fq in self._lt_cache:
            return self._lt_cache[fi.fq]
        out = self._lt_cache.setdefault(fi.fq, {})
        a = fi.node.args
        for p in a.posonlyargs + a.args + a.kwonlyargs:
            if p.annotation is not None:
                d = dotted(p.annotation)
                if d and d.split(".")[-1] in self.class_index:
                    out[p.arg] = d.split(".")[-1]
        for n in walk_local(fi.node):
            if isinstance(n, ast.Assign) and isinstance(n.value, ast.Call):
                d = dotted(n.value.func)
                if d and d.split(".")[-1] in self.class_index:
                    for t in n.targets:
                        if isinstance(t, ast.Name):
                            out[t.id] = d.split(".")[-1]
        return out

    def receiver_class(self, fi, recv):
        """class name of a receiver expression, or None"""
        d = dotted(recv)
        if d is None:
            if isinstance(recv, ast.Call):
                cn = dotted(recv.func)
                if cn and cn.split(".")[-1] in self.class_index:
                    return cn.split(".")[-1]
            return None
        if d == "self" and fi.cls:
            return fi.cls
        if d.startswith("self.") and d.count(".") == 1 and fi.cls:
            at = self.attr_types(fi.module.name, fi.cls).get(d.split(".")[1])
            if at:
                return at
        lt = self.local_types(fi)
        if d in lt:
            return lt[d]
        if d in RECEIVER_CONVENTION and RECEIVER_CONVENTION[d]:
            if d.startswith("self.") and fi.cls != "KlongInterpreter" and d == "self._context":
                return None
            return RECEIVER_CONVENTION[d][1]
        if d in self.class_index:
            return d
        return None

    def resolve_call(self, fi, call):
        """-> [FuncInfo] possible callees (empty when external or unknown); cached per call node"""
        key = (id(call), fi.fq)
        r = self._rc_cache.get(key)
        if r is None:
            r = self._resolve_call(fi, call)
            self._rc_cache[key] = r
        return r

    def _resolve_call(self, fi, call):
        f = call.func
        if isinstance(f, ast.Name):
            return self.resolve_name(fi, f.id)
        if isinstance(f, ast.Attribute):
            # super().m()
            if isinstance(f.value, ast.Call) and isinstance(f.value.func, ast.Name) and f.value.func.id == "super" and fi.cls:
                res = []
                for mn, c in self.mro(fi.module.name, fi.cls)[1:]:
                    x = self.repo.modules[mn].funcs.get(f"{c.name}.{f.attr}")
                    if x:
                        res.append(x)
                        break
                return res
            cn = self.receiver_class(fi, f.value)
            if cn:
                mn, _c = self.class_def(cn, prefer_module=fi.module.name)
                return self.methods_named(mn, cn, f.attr)
        return []

    def resolve_value(self, fi, expr):
        """a function *value* (not a call): Name or self.attr -> [FuncInfo]"""
        if isinstance(expr, ast.Name):
            r = self.resolve_name(fi, expr.id)
            return [x for x in r if x.name != "__init__"]
        if isinstance(expr, ast.Attribute):
            cn = self.receiver_class(fi, expr.value)
            if cn:
                mn, _c = self.class_def(cn, prefer_module=fi.module.name)
                return self.methods_named(mn, cn, expr.attr)
        return []

    # ------------------------------------------------------------ graph
    def build(self):
        if self._built:
            return self
        for fi in self.repo.all_funcs():
            out = self.edges.setdefault(fi.fq, set())
            for n in walk_local(fi.node):
                if not isinstance(n, ast.Call):
                    continue
                callees = self.resolve_call(fi, n)
                if callees:
                    self.resolved += 1
                    for c in callees:
                        out.add((c.fq, "call"))
                else:
                    nm = callee_name(n)
                    if isinstance(n.func, ast.Name) and (nm in _BUILTINS):
                        self.external += 1
                    elif isinstance(n.func, ast.Attribute):
                        # unknown receiver: count as unresolved only when some repo method has that name
                        if any(f.name == nm and f.cls for f in self.repo.all_funcs()):
                            self.unresolved += 1
                        else:
                            self.external += 1
                    else:
                        self.unresolved += 1
                # function values among the arguments
                for a in list(n.args) + [k.value for k in n.keywords]:
                    tgt = a
                    if isinstance(a, ast.Call):      # coro() passed to create_task / run_coroutine_threadsafe
                        for c in self.resolve_call(fi, a):
                            out.add((c.fq, "value"))
                        continue
                    if isinstance(tgt, (ast.Name, ast.Attribute)):
                        for c in self.resolve_value(fi, tgt):
                            out.add((c.fq, "value"))
            # nested defs are reachable from their definer (closures handed out)
            for q, g in fi.module.funcs.items():
                if g.parent is fi:
                    out.add((g.fq, "nested"))
        self._built = True
        return self

    def reachable(self, roots, kinds=("call", "value", "nested")):
        self.build()
        seen, work = set(), [r if isinstance(r, str) else r.fq for r in roots]
        while work:
            x = work.pop()
            if x in seen:
                continue
            seen.add(x)
            for y, k in self.edges.get(x, ()):
                if k in kinds and y not in seen:
                    work.append(y)
        return seen

    def callers_of(self, fq):
        self.build()
        return sorted(a for a, outs in self.edges.items() if any(b == fq for b, _k in outs))

    def resolution_stats(self):
        self.build()
        tot = self.resolved + self.unresolved
        return {"calls_resolved_in_repo": self.resolved, "calls_unresolved": self.unresolved,
                "calls_external": self.external,
                "resolution_rate": round(self.resolved / tot, 3) if tot else 1.0}
