"""Rule building blocks shared by several properties."""
import ast

from .model import FUNC, src, callee_name, dotted, walk_local, calls_in, names_in
from .flow import Sem, refine_bool

NONRAISING_CALL_PREFIXES = ("logging.", "traceback.")


# ------------------------------------------------------------------ loop-closure capture (C20-R1, C02-R3)

def _assigned_in_loop(loop):
    """names (re)bound by one iteration of the loop: its target and every store in its body (same function level)"""
    out = set()
    if isinstance(loop, (ast.For, ast.AsyncFor)):
        out |= {n.id for n in ast.walk(loop.target) if isinstance(n, ast.Name)}
    for st in loop.body:
        for n in walk_local(st):
            if isinstance(n, ast.Name) and isinstance(n.ctx, ast.Store):
                out.add(n.id)
            elif isinstance(n, FUNC):
                out.add(n.name)
    return out


def free_names(fn):
    """names a function/lambda reads that are neither its parameters nor its locals (defaults excluded:
    they are evaluated at definition time, which is exactly the binding idiom)"""
    a = fn.args
    params = {p.arg for p in a.posonlyargs + a.args + a.kwonlyargs}
    if a.vararg:
        params.add(a.vararg.arg)
    if a.kwarg:
        params.add(a.kwarg.arg)
    body = fn.body if isinstance(fn.body, list) else [fn.body]
    stores, loads = set(), set()
    nonlocal_ = set()
    for st in body:
        for n in ast.walk(st):
            if isinstance(n, ast.Name):
                (stores if isinstance(n.ctx, (ast.Store, ast.Del)) else loads).add(n.id)
            elif isinstance(n, (ast.Nonlocal, ast.Global)):
                nonlocal_ |= set(n.names)
            elif isinstance(n, FUNC):
                stores.add(n.name)
            elif isinstance(n, ast.ExceptHandler) and n.name:
                stores.add(n.name)
    return (loads - params - (stores - nonlocal_))


def loop_closures(func_node):
    """[(closure_node, loop_node, captured names)] for every def/lambda created inside a loop body of func_node"""
    out = []
    for loop in walk_local(func_node):
        if not isinstance(loop, (ast.For, ast.AsyncFor, ast.While)):
            continue
        assigned = _assigned_in_loop(loop)
        stack = list(loop.body)
        while stack:
            n = stack.pop()
            if isinstance(n, FUNC + (ast.Lambda,)):
                cap = free_names(n) & assigned
                if isinstance(n, FUNC):
                    cap.discard(n.name)
                out.append((n, loop, cap))
                continue      # closures nested deeper belong to this closure's own scope
            if isinstance(n, ast.ClassDef):
                continue
            stack.extend(ast.iter_child_nodes(n))
    return out


def closure_escapes(closure, loop):
    """False only when the closure provably does not outlive the iteration: a named def that is only
    ever *called* inside the loop body, or a lambda that is the direct argument of a call whose result is
    consumed in the same statement by a known eager consumer."""
    EAGER = {"sorted", "filter", "map", "min", "max", "any", "all", "sum", "list", "vec_fn", "vec_fn2", "rec_fn", "reduce", "sort"}
    if isinstance(closure, ast.Lambda):
        p = getattr(closure, "_parent", None)
        if isinstance(p, ast.keyword):
            p = getattr(p, "_parent", None)
        if isinstance(p, ast.Call) and closure is not p.func and callee_name(p) in EAGER:
            # filter/map are lazy, but consumed by an enclosing for/list in the same statement in this repo's idiom
            return False
        return True
    name = closure.name
    for st in loop.body:
        for n in ast.walk(st):
            if isinstance(n, ast.Name) and n.id == name and isinstance(n.ctx, ast.Load):
                p = getattr(n, "_parent", None)
                if not (isinstance(p, ast.Call) and p.func is n):
                    return True
    return False


# ------------------------------------------------------------------ complete-a-future-exactly-once (C14-R7, C20-R5)

class CompletionSem(Sem):
    """state: frozenset of completion counts (capped at 2) of the result future on the paths reaching here"""
    base_exc_escapes = False

    def __init__(self, fut, safe_ctors=()):
        self.fut = fut
        self.kinds = []
        self.safe_ctors = set(safe_ctors)      # see value_ctors(): classes whose construction from a constant cannot fail

    def join2(self, a, b):
        return a | b

    def atomic(self, st):
        # logging / traceback calls and the completion itself are treated as non-raising
        cs = calls_in(st)
        return bool(cs) and all((dotted(c.func) or "").startswith(NONRAISING_CALL_PREFIXES) or self._completion(c) or
                                callee_name(c) in ("type", "str", "KlongException") or
                                (isinstance(c.func, ast.Name) and c.func.id in self.safe_ctors and not c.keywords and all(isinstance(a, ast.Constant) for a in c.args))
                                for c in cs)

    def _completion(self, c):
        f = c.func
        if isinstance(f, ast.Attribute) and f.attr in ("set_result", "set_exception") and isinstance(f.value, ast.Name) and f.value.id == self.fut:
            return f.attr
        if isinstance(f, ast.Attribute) and f.attr in ("call_soon_threadsafe", "call_soon") and c.args:
            a = c.args[0]
            if isinstance(a, ast.Attribute) and a.attr in ("set_result", "set_exception") and isinstance(a.value, ast.Name) and a.value.id == self.fut:
                return a.attr
        return None

    def transfer(self, st, state):
        n = 0
        for c in calls_in(st):
            k = self._completion(c)
            if k:
                n += 1
                self.kinds.append((k, c))
        if n:
            state = frozenset(min(2, x + n) for x in state)
        return state


def value_ctors(repo):
    """names of repository classes that are a builtin str/int/float with nothing added to construction (no __init__/__new__):
    calling one with a constant argument cannot raise"""
    out = set()
    for m in repo.modules.values():
        for name, c in m.classes.items():
            if c.bases and all(isinstance(b, ast.Name) and b.id in ("str", "int", "float") for b in c.bases) and \
                    not any(isinstance(x, FUNC) and x.name in ("__init__", "__new__") for x in c.body):
                out.add(name)
    return out


def check_writes_through_interpreter(ctx, repo, rid, modules, what):
    """WHO-MAY(variable write): code outside the interpreter binds Klong variables with `klong[k] = v` (KlongInterpreter.__setitem__,
    which also drops the compiled-expression cache), never by storing into `<interp>._context` / the scope dictionaries directly."""
    n = 0
    for f in repo.all_funcs(modules):
        for x in walk_local(f.node):
            tgt = None
            if isinstance(x, ast.Subscript) and isinstance(x.ctx, (ast.Store, ast.Del)) and "_context" in (dotted(x.value) or src(x.value)):
                tgt = x
            elif isinstance(x, ast.Call) and callee_name(x) == "set_context_var":
                tgt = x
            if tgt is not None:
                # exempt: a constant system symbol (`.cli.h`): the temporary handle of one command, never a user variable and never a
                # value the compiler admits (C03-R2 checks its bind/unbind pairing)
                key = tgt.slice if isinstance(tgt, ast.Subscript) else (tgt.args[1] if len(tgt.args) > 1 else None)
                key = resolve_single_assign(key, f.node) if key is not None else None
                if isinstance(key, ast.Call) and callee_name(key) == "KGSym" and key.args and isinstance(key.args[0], ast.Constant) and str(key.args[0].value).startswith("."):
                    continue
                n += 1
                ctx.ob(rid, f.fq, f"{what} binds variables through the interpreter (klong[k] = v), not through the scope stack", False, node=tgt, construct=f"direct store into the context in {f.name}: {src(tgt)[:50]}",
                       msg=f"{f.name} writes `{src(tgt)[:60]}` past KlongInterpreter.__setitem__: the compiled-expression cache is not dropped, so expressions compiled while the variable had "
                           "another kind keep running stale code on the new value")
    ctx.ob(rid, "/".join(sorted(modules)), f"no store into `_context` in {what} ({n} found)", n == 0, construct=f"context written only through the interpreter in {what}")


def value_alternatives(e, fnode, before, conds=(), depth=4):
    """[(expression, ((test, polarity), ...))]: the values `e` can denote at statement `before` of fnode, each with the facts under
    which it is the one taken - independent of whether the choice is spelled `x = A if c else B`, `x = a or B`, or
    `if c: x = A` ... (a name with no earlier assignment, e.g. a parameter, denotes itself)"""
    from .flow import path_conditions
    from .model import pos
    if isinstance(e, ast.IfExp):
        return value_alternatives(e.body, fnode, before, conds + ((e.test, True),), depth) + value_alternatives(e.orelse, fnode, before, conds + ((e.test, False),), depth)
    if isinstance(e, ast.BoolOp) and isinstance(e.op, ast.Or):
        out, c = [], conds
        for x in e.values[:-1]:
            out += [(a, cc + ((x, True),)) for a, cc in value_alternatives(x, fnode, before, c, depth)]
            c = c + ((x, False),)
        return out + value_alternatives(e.values[-1], fnode, before, c, depth)
    if isinstance(e, ast.Name) and depth:
        params = {a.arg for a in fnode.args.posonlyargs + fnode.args.args + fnode.args.kwonlyargs} | \
            ({fnode.args.vararg.arg} if fnode.args.vararg else set()) | ({fnode.args.kwarg.arg} if fnode.args.kwarg else set())
        defs = [d for d in walk_local(fnode) if isinstance(d, ast.Assign) and len(d.targets) == 1 and isinstance(d.targets[0], ast.Name) and d.targets[0].id == e.id and pos(d) < pos(before)]
        if defs:
            out = []
            unconditional = any(not path_conditions(d, fnode) for d in defs)
            if e.id in params and not unconditional:
                # the value handed in survives on the paths that take none of the assignments
                neg = tuple((t, not p_) for d in defs for t, p_ in path_conditions(d, fnode)[-1:])
                out.append((e, conds + neg))
            for d in defs:
                pc = tuple(path_conditions(d, fnode))
                if e.id in names_in(d.value):
                    out.append((d.value, conds + pc))          # x = f(x): not followed further
                else:
                    out += value_alternatives(d.value, fnode, d, conds + pc, depth - 1)
            return out
    return [(e, conds)]


def says_none(t, pol, name):
    """the fact (t is pol) implies that `name` is None / falsy"""
    from .flow import split_conj
    from .model import is_const
    for a, ap in split_conj(t, pol):
        if isinstance(a, ast.Name) and a.id == name and ap is False:
            return True
        if isinstance(a, ast.Compare) and len(a.ops) == 1 and isinstance(a.left, ast.Name) and a.left.id == name and is_const(a.comparators[0], None):
            if (isinstance(a.ops[0], ast.Is) and ap is True) or (isinstance(a.ops[0], ast.IsNot) and ap is False):
                return True
    return False


def says_not_none(t, pol, name):
    """the fact (t is pol) implies that `name` is not None"""
    from .flow import split_conj
    from .model import is_const
    for a, ap in split_conj(t, pol):
        if isinstance(a, ast.Name) and a.id == name and ap is True:
            return True
        if isinstance(a, ast.Compare) and len(a.ops) == 1 and isinstance(a.left, ast.Name) and a.left.id == name and is_const(a.comparators[0], None):
            if (isinstance(a.ops[0], ast.IsNot) and ap is True) or (isinstance(a.ops[0], ast.Is) and ap is False):
                return True
    return False


def resolve_single_assign(expr, fnode, depth=4):
    """follow single-assignment local names to their defining expression"""
    while depth and isinstance(expr, ast.Name):
        defs = [n for n in walk_local(fnode) if isinstance(n, (ast.Assign, ast.AnnAssign)) and (
            (isinstance(n, ast.Assign) and len(n.targets) == 1 and isinstance(n.targets[0], ast.Name) and n.targets[0].id == expr.id) or
            (isinstance(n, ast.AnnAssign) and isinstance(n.target, ast.Name) and n.target.id == expr.id))]
        if len(defs) != 1 or defs[0].value is None:
            return expr
        expr = defs[0].value
        depth -= 1
    return expr


def ancestors(node, stop=None):
    p = getattr(node, "_parent", None)
    while p is not None and p is not stop:
        yield p
        p = getattr(p, "_parent", None)


def in_loop(node, stop):
    return any(isinstance(p, (ast.For, ast.AsyncFor, ast.While)) for p in ancestors(node, stop))


def is_awaited(call):
    return isinstance(getattr(call, "_parent", None), ast.Await)


def handle_type_accepted(close_fi, cls_name):
    """the closing system function tests isinstance(<value>, cls_name) on a path that a plain cls_name instance can take:
    none of the conditions dominating that test requires the parameter to be an instance of some other class.
    -> (found_test, accepted, offending condition text)"""
    from .flow import path_conditions, split_conj
    found = False
    for n in walk_local(close_fi.node):
        if isinstance(n, ast.Call) and callee_name(n) == "isinstance" and len(n.args) == 2 and cls_name in src(n.args[1]):
            found = True
            bad = None
            # control dependence, not value facts: a condition evaluated earlier speaks about the value the name had then
            # (the parameter), even if the name is re-bound afterwards - so no kill check here
            params = set(close_fi.params())
            for t, pol in path_conditions(n, close_fi.node, check_kill=False):
                for e, p in split_conj(t, pol):
                    if p and isinstance(e, ast.Call) and callee_name(e) == "isinstance" and len(e.args) == 2 and cls_name not in src(e.args[1]) and src(e.args[0]) in params:
                        bad = src(e)
            if bad is None:
                return True, True, None
            last_bad = bad
    return found, False, (last_bad if found else None)


# ------------------------------------------------------------------ spelling-independent facts

def emptiness(e, pol):
    """src of the collection X if (e, pol) says X is empty: `not X`, `len(X) == 0`, `not len(X) > 0`, `len(X) < 1`, `not X` ...; else None"""
    if isinstance(e, ast.UnaryOp) and isinstance(e.op, ast.Not):
        return emptiness(e.operand, not pol)
    if isinstance(e, (ast.Name, ast.Attribute)):
        return src(e) if not pol else None
    if isinstance(e, ast.Compare) and len(e.ops) == 1 and isinstance(e.left, ast.Call) and callee_name(e.left) == "len" and len(e.left.args) == 1 and \
            isinstance(e.comparators[0], ast.Constant) and isinstance(e.comparators[0].value, int):
        k, op, x = e.comparators[0].value, e.ops[0], src(e.left.args[0])
        empty_when_true = (isinstance(op, ast.Eq) and k == 0) or (isinstance(op, ast.Lt) and k == 1) or (isinstance(op, ast.LtE) and k == 0)
        empty_when_false = (isinstance(op, ast.Gt) and k == 0) or (isinstance(op, ast.GtE) and k == 1) or (isinstance(op, ast.NotEq) and k == 0)
        if (empty_when_true and pol) or (empty_when_false and not pol):
            return x
    return None


def justified(facts, fnode, accept, depth=2):
    """some fact is accepted by accept(expr, polarity); a true boolean local counts when EVERY value it is ever assigned in fnode
    implies an accepted fact (flag variables set from the real conditions)"""
    from .flow import split_conj
    for e, pol in facts:
        if accept(e, pol):
            return True
        if depth and pol and isinstance(e, ast.Name):
            defs = [a for a in walk_local(fnode) if isinstance(a, ast.Assign) and any(isinstance(t, ast.Name) and t.id == e.id for t in a.targets)]
            if defs and all(justified(split_conj(d.value, True), fnode, accept, depth - 1) for d in defs):
                return True
    return False


def name_defs(fnode, name):
    """[(value expression, statement)] for every binding of a local name by assignment, element-wise through `a, b = (x, y)`"""
    out = []
    for n in walk_local(fnode):
        if not isinstance(n, ast.Assign):
            continue
        for t in n.targets:
            if isinstance(t, ast.Name) and t.id == name:
                out.append((n.value, n))
            elif isinstance(t, (ast.Tuple, ast.List)) and isinstance(n.value, (ast.Tuple, ast.List)) and len(t.elts) == len(n.value.elts):
                for a, b in zip(t.elts, n.value.elts):
                    if isinstance(a, ast.Name) and a.id == name:
                        out.append((b, n))
    return out


def check_no_class_level_containers(ctx, repo, rid, classes, why):
    """classes: [(module, class name)].  A container (or None placeholder later filled in place) assigned in the CLASS BODY is one object
    shared by every instance; per-instance state has to be created in __init__."""
    is_container = lambda v: isinstance(v, (ast.Dict, ast.List, ast.Set, ast.ListComp, ast.DictComp, ast.SetComp)) or (isinstance(v, ast.Call) and callee_name(v) in (
        "dict", "list", "set", "OrderedDict", "defaultdict", "deque", "WeakValueDictionary", "WeakKeyDictionary", "Counter", "bytearray"))
    n_cls = 0
    for mod, cname in classes:
        m = repo.modules.get(mod)
        c = m.classes.get(cname) if m else None
        if c is None:
            continue
        n_cls += 1
        ctx.instance(rid, f"{mod}:{cname}", "class body")
        bad = []
        for n in c.body:
            if isinstance(n, (ast.Assign, ast.AnnAssign)) and getattr(n, "value", None) is not None and is_container(n.value):
                for t in (n.targets if isinstance(n, ast.Assign) else [n.target]):
                    if isinstance(t, ast.Name) and not (t.id.isupper() or t.id.startswith("__")):
                        # a class-level container that no method ever writes through self/cls is a constant table: fine
                        written = False
                        for f in m.funcs.values():
                            if f.cls != cname:
                                continue
                            for x in walk_local(f.node):
                                if isinstance(x, ast.Attribute) and x.attr == t.id and isinstance(x.value, ast.Name) and x.value.id in ("self", "cls", cname):
                                    p = getattr(x, "_parent", None)
                                    if isinstance(x.ctx, (ast.Store, ast.Del)):
                                        continue          # rebinding on the instance shadows the class attribute: not a write of the shared object
                                    if isinstance(p, ast.Subscript) and isinstance(p.ctx, (ast.Store, ast.Del)):
                                        written = True
                                    if isinstance(p, ast.Attribute) and isinstance(getattr(p, "_parent", None), ast.Call) and p._parent.func is p and \
                                            p.attr in ("append", "add", "update", "setdefault", "insert", "extend", "pop", "clear", "popitem", "appendleft", "remove", "discard"):
                                        written = True
                        inits = [f for f in m.funcs.values() if f.cls == cname and f.name == "__init__"]
                        rebound = any(isinstance(x, ast.Attribute) and x.attr == t.id and isinstance(x.ctx, ast.Store) and isinstance(x.value, ast.Name) and x.value.id == "self"
                                      for f in inits for x in walk_local(f.node))
                        if written and not rebound:
                            bad.append((t.id, n))
        for name, n in bad:
            ctx.ob(rid, f"{mod}:{cname}", f"{cname} keeps no mutable state in its class body", False, node=n, construct=f"class-level container {cname}.{name} written in place",
                   msg=f"`{name}` is created once in the class body of {cname} and methods write it in place without __init__ giving each instance its own: every instance shares one object - {why}")
        ctx.ob(rid, f"{mod}:{cname}", f"no container of the class body of {cname} is written in place by its methods unless __init__ rebinds it per instance", not bad, construct=f"{cname} class-level state")
    return n_cls
