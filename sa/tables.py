"""E8: table extraction (dispatch dictionaries, operator shortcuts, IR tags, emit tables) and the THIN
result-path census used by C02 and C05."""
import ast

from .model import AnalysisError, src, callee_name, dotted, walk_local, calls_in, FUNC
from .flow import atoms_at, path_conditions, split_conj

UFUNC_OF_PYOP = {"+": "add", "-": "subtract", "*": "multiply", "/": "divide", "**": "power", "==": "equal", ">": "greater", "<": "less", "neg": "negative"}


def dispatch_table(repo, fq):
    """operator char -> name of the implementing function, from the dict literals of create_*_functions"""
    f = repo.fn(fq)
    out = {}
    for n in walk_local(f.node):
        if isinstance(n, ast.Dict):
            for k, v in zip(n.keys, n.values):
                if not (isinstance(k, ast.Constant) and isinstance(k.value, str)):
                    continue
                target = None
                if isinstance(v, ast.Name):
                    target = v.id
                elif isinstance(v, ast.Lambda) and isinstance(v.body, ast.Call) and isinstance(v.body.func, ast.Name):
                    target = v.body.func.id
                if target:
                    out[k.value] = target
    return out


def _op_tests(node, fnode):
    """operator characters c such that `safe_eq(op.a, c)` (or op.a == c) holds at node"""
    out = []
    for e, pol in atoms_at(node, fnode):
        if not pol:
            continue
        if isinstance(e, ast.Call) and callee_name(e) == "safe_eq" and len(e.args) == 2 and isinstance(e.args[1], ast.Constant) and src(e.args[0]).endswith(".a"):
            out.append(e.args[1].value)
        if isinstance(e, ast.Compare) and len(e.ops) == 1 and isinstance(e.ops[0], ast.Eq) and src(e.left).endswith(".a") and isinstance(e.comparators[0], ast.Constant):
            out.append(e.comparators[0].value)
    return out


def prim_of_call(e):
    """normalised primitive of a numpy-style call expression: np_backend.add.reduce(a) -> ('add','reduce');
    np_backend.min(a) -> ('min',); backend.np.add(a, b) -> ('add',)"""
    if not isinstance(e, ast.Call):
        return None
    d = dotted(e.func)
    if not d:
        return None
    parts = d.split(".")
    while parts and parts[0] in ("np_backend", "backend", "np", "bknp", "numpy", "self", "_np", "np_mod"):
        parts = parts[1:]
    return tuple(parts) if parts else None


def shortcut_table(repo, fq):
    """[(op char, primitive tuple, extra guards, return node)] of the operator shortcuts in an adverb implementation"""
    f = repo.fn(fq)
    out = []
    for r in [n for n in walk_local(f.node) if isinstance(n, ast.Return) and n.value is not None]:
        ops = _op_tests(r, f.node)
        if not ops:
            continue
        # one entry per alternative result, whether the choice is written as a conditional expression or as statements
        def alts(v, extra):
            if isinstance(v, ast.IfExp):
                return alts(v.body, extra + [src(v.test)]) + alts(v.orelse, extra + ["not " + src(v.test)])
            return [(v, extra)]
        base = []
        for e, pol in atoms_at(r, f.node):
            t = src(e)
            if "safe_eq" in t or "isinstance(op" in t:
                continue
            base.append(("" if pol else "not ") + t)
        for v, extra in alts(r.value, []):
            prims = [prim_of_call(v)] if isinstance(v, ast.Call) else []
            out.append((ops[0], prims, base + extra, r))
    return out


def early_result_paths(repo, fq):
    """result paths of an adverb implementation that precede the operator dispatch: [(guard texts, value text, node)]"""
    f = repo.fn(fq)
    out = []
    for r in [n for n in walk_local(f.node) if isinstance(n, ast.Return) and n.value is not None]:
        if _op_tests(r, f.node):
            continue
        conds = [("" if p else "not ") + src(t) for t, p in path_conditions(r, f.node)]
        out.append((conds, src(r.value), r))
    return out


def ir_tags_built(repo):
    f = repo.fn("compiler:_ast_to_ir")
    tags = {}
    for r in [n for n in walk_local(f.node) if isinstance(n, ast.Return) and isinstance(n.value, ast.Tuple)]:
        e0 = r.value.elts[0]
        if isinstance(e0, ast.Constant) and isinstance(e0.value, str):
            tags[e0.value] = len(r.value.elts)
    return tags


def op_sets(repo):
    m = repo.module("compiler")
    out = {}
    for n in m.tree.body:
        if isinstance(n, ast.Assign) and isinstance(n.value, ast.Set) and isinstance(n.targets[0], ast.Name):
            out[n.targets[0].id] = {e.value for e in n.value.elts if isinstance(e, ast.Constant)}
    return out


def emit_table(repo, fq):
    """{tag: {"ops": {op: emitted text} or None, "formats": [format strings], "node": if-node}} from an _ir_to_source method"""
    f = repo.fn(fq)
    out = {}
    for n in f.node.body:
        if not isinstance(n, ast.If):
            continue
        t = n.test
        if isinstance(t, ast.Compare) and len(t.ops) == 1 and isinstance(t.ops[0], ast.Eq) and isinstance(t.comparators[0], ast.Constant):
            tag = t.comparators[0].value
            ops = None
            for d in [x for s in n.body for x in walk_local(s) if isinstance(x, ast.Dict)]:
                if all(isinstance(k, ast.Constant) for k in d.keys) and all(isinstance(v, ast.Constant) for v in d.values):
                    ops = {k.value: v.value for k, v in zip(d.keys, d.values)}
            fmts = []
            for r in [x for s in n.body for x in walk_local(s) if isinstance(x, ast.Return)]:
                v = r.value
                if isinstance(v, ast.JoinedStr):
                    fmts.append("".join(p.value if isinstance(p, ast.Constant) else "{" + src(p.value) + "}" for p in v.values))
                elif isinstance(v, ast.Call) and callee_name(v) == "repr":
                    fmts.append("repr")
                elif isinstance(v, ast.Subscript):
                    fmts.append("{" + src(v) + "}")
            out[tag] = {"ops": ops, "formats": fmts, "node": n}
    return out


def collect_params_tags(repo):
    f = repo.fn("backends/base:BackendProvider._collect_params")
    tags = set()
    order = {}
    for n in ast.walk(f.node):
        if isinstance(n, ast.Compare) and src(n.left) == "node[0]":
            for c in n.comparators:
                if isinstance(c, ast.Constant):
                    tags.add(c.value)
                elif isinstance(c, ast.Tuple):
                    tags |= {e.value for e in c.elts if isinstance(e, ast.Constant)}
    return tags


# ------------------------------------------------------------------ THIN: result-path census

LIFT = {"kg_truth"}


def _strip(e):
    """strip lifting wrappers: kg_truth(x) -> x ; backend.vec_fn2(a, b, lambda x, y: body) -> body ; vec_fn(a, f) -> f"""
    changed = True
    while changed:
        changed = False
        if isinstance(e, ast.Call) and callee_name(e) in LIFT and len(e.args) == 1:
            e = e.args[0]
            changed = True
        elif isinstance(e, ast.Call) and callee_name(e) in ("vec_fn2", "vec_fn", "rec_fn") and e.args and isinstance(e.args[-1], ast.Lambda):
            e = e.args[-1].body
            changed = True
        elif isinstance(e, ast.BinOp) and isinstance(e.op, ast.Mult) and isinstance(e.right, ast.Constant) and e.right.value == 1:
            e = e.left
            changed = True
    return e


def result_paths(repo, cg, fi, depth=2, _guards=()):
    """[(guard texts, descriptor, node)] over every return of fi after stripping lifting wrappers and inlining repo helpers (depth levels).
    descriptor: ('prim', name) | ('pyop', op) | ('const', text) | ('convert', fn, inner descriptor) | ('param', name) | ('other', text)"""
    out = []
    for r in [n for n in walk_local(fi.node) if isinstance(n, ast.Return) and n.value is not None]:
        guards = tuple(_guards) + tuple((("" if p else "not ") + src(t)) for t, p in path_conditions(r, fi.node))
        for alt_guard, e in _alts(r.value):
            out += _describe(repo, cg, fi, e, guards + alt_guard, depth, r)
    return out


def _alts(v):
    if isinstance(v, ast.IfExp):
        return [((src(v.test),), v.body)] + [((("not " + src(v.test)),) + g, e) for g, e in _alts(v.orelse)]
    return [((), v)]


def _describe(repo, cg, fi, e, guards, depth, node):
    e = _strip(e)
    if isinstance(e, ast.IfExp):
        res = []
        for g, x in _alts(e):
            res += _describe(repo, cg, fi, x, guards + g, depth, node)
        return res
    if isinstance(e, ast.Name):
        # a local single assignment?
        defs = [a for a in walk_local(fi.node) if isinstance(a, ast.Assign) and any(isinstance(t, ast.Name) and t.id == e.id for t in a.targets)]
        if len(defs) == 1 and e.id not in fi.params():
            return _describe(repo, cg, fi, defs[0].value, guards, depth, node)
        if e.id in fi.params():
            return [(guards, ("param", e.id), node)]
        if e.id.isupper():
            return [(guards, ("const", e.id), node)]
        return [(guards, ("other", src(e)), node)]
    if isinstance(e, ast.Constant):
        return [(guards, ("const", repr(e.value)), node)]
    if isinstance(e, ast.Compare) and len(e.ops) == 1:
        sym = {ast.Eq: "==", ast.Lt: "<", ast.Gt: ">", ast.LtE: "<=", ast.GtE: ">=", ast.NotEq: "!="}.get(type(e.ops[0]))
        return [(guards, ("pyop", sym), node)]
    if isinstance(e, ast.Call):
        callees = cg.resolve_call(fi, e) if cg is not None else []
        callees = [g for g in callees if g.module.name in ("dyads", "monads", "backends/numpy_backend", "backends/base", "types") and not g.name.startswith("__")]
        cn = callee_name(e)
        if callees and depth > 0:
            res = []
            # prefer the numpy provider's override when the base class method is abstract-ish
            np_over = [g for g in callees if g.module.name == "backends/numpy_backend"]
            for g in (np_over or [c for c in callees if c.module.name != "backends/torch_backend"]):
                sub = result_paths(repo, cg, g, depth - 1, guards)
                if cn in ("to_int_array", "floor_to_int", "kg_asarray"):
                    sub = [(gg, ("convert", cn, d), node) for gg, d, _n in sub]
                res += [(gg, d, node) for gg, d, _n in sub]
            if res:
                return res
        p = dotted(e.func)
        if p:
            parts = p.split(".")
            while parts and parts[0] in ("np_backend", "backend", "np", "bknp", "numpy", "self", "_np", "np_mod"):
                parts = parts[1:]
            if cn in ("to_int_array", "floor_to_int"):
                inner = _describe(repo, cg, fi, e.args[0], guards, depth, node) if e.args else [(guards, ("other", "?"), node)]
                return [(gg, ("convert", cn, d), node) for gg, d, _n in inner]
            if len(parts) == 1 or (len(parts) == 2 and parts[1] in ("reduce", "accumulate")):
                return [(guards, ("prim", ".".join(parts)), node)]
        return [(guards, ("other", src(e)[:60]), node)]
    return [(guards, ("other", src(e)[:60]), node)]
