"""E8: table extraction (dispatch dictionaries, operator shortcuts, IR tags, emit tables) and the THIN
result-path census used by C02 and C05."""
import ast

from .model import AnalysisError, src, callee_name, dotted, walk_local, calls_in, FUNC
from .flow import atoms_at, path_conditions, split_conj

UFUNC_OF_PYOP = {"+": "add", "-": "subtract", "*": "multiply", "/": "divide", "**": "power", "==": "equal", ">": "greater", "<": "less", "neg": "negative"}


def dispatch_table(repo, fq):
    """operator char -> name of the implementing function, from the dict literals of create_*_functions"""
    f = repo.fn(fq)
    out = {}
    for n in walk_local(f.node):
        if isinstance(n, ast.Dict):
            for k, v in zip(n.keys, n.values):
                if not (isinstance(k, ast.Constant) and isinstance(k.value, str)):
                    continue
                target = None
                if isinstance(v, ast.Name):
                    target = v.id
                elif isinstance(v, ast.Lambda) and isinstance(v.body, ast.Call) and isinstance(v.body.func, ast.Name):
                    target = v.body.func.id
                if target:
                    out[k.value] = target
    return out


def _op_tests(node, fnode):
    """operator characters c such that `safe_eq(op.a, c)` (or op.a == c) holds at node"""
    out = []
    for e, pol in atoms_at(node, fnode):
        if not pol:
            continue
        if isinstance(e, ast.Call) and callee_name(e) == "safe_eq" and len(e.args) == 2 and isinstance(e.args[1], ast.Constant) and src(e.args[0]).endswith(".a"):
            out.append(e.args[1].value)
        if isinstance(e, ast.Compare) and len(e.ops) == 1 and isinstance(e.ops[0], ast.Eq) and src(e.left).endswith(".a") and isinstance(e.comparators[0], ast.Constant):
            out.append(e.comparators[0].value)
    return out


def prim_of_call(e):
    """normalised primitive of a numpy-style call expression: np_backend.add.reduce(a) -> ('add','reduce');
    np_backend.min(a) -> ('min',); backend.np.add(a, b) -> ('add',)"""
    if not isinstance(e, ast.Call):
        return None
    d = dotted(e.func)
    if not d:
        return None
    parts = d.split(".")
    while parts and parts[0] in ("np_backend", "backend", "np", "bknp", "numpy", "self", "_np", "np_mod"):
        parts = parts[1:]
    return tuple(parts) if parts else None


def shortcut_table(repo, fq):
    """[(op char, primitive tuple, extra guards, return node)] of the operator shortcuts in an adverb implementation"""
    f = repo.fn(fq)
    out = []
    for r in [n for n in walk_local(f.node) if isinstance(n, ast.Return) and n.value is not None]:
        ops = _op_tests(r, f.node)
        if not ops:
            continue
        # one entry per alternative result, whether the choice is written as a conditional expression or as statements
        def alts(v, extra):
            if isinstance(v, ast.IfExp):
                return alts(v.body, extra + [src(v.test)]) + alts(v.orelse, extra + ["not " + src(v.test)])
            return [(v, extra)]
        base = []
        for e, pol in atoms_at(r, f.node):
            t = src(e)
            if "safe_eq" in t or "isinstance(op" in t:
                continue
            base.append(("" if pol else "not ") + t)
        for v, extra in alts(r.value, []):
            prims = [prim_of_call(v)] if isinstance(v, ast.Call) else []
            out.append((ops[0], prims, base + extra, r))
    return out


def early_result_paths(repo, fq):
    """result paths of an adverb implementation that precede the operator dispatch: [(guard texts, value text, node)]"""
    f = repo.fn(fq)
    out = []
    for r in [n for n in walk_local(f.node) if isinstance(n, ast.Return) and n.value is not None]:
        if _op_tests(r, f.node):
            continue
        conds = [("" if p else "not ") + src(t) for t, p in path_conditions(r, f.node)]
        out.append((conds, src(r.value), r))
    return out


def ir_tags_built(repo):
    f = repo.fn("compiler:_ast_to_ir")
    tags = {}
    for r in [n for n in walk_local(f.node) if isinstance(n, ast.Return) and isinstance(n.value, ast.Tuple)]:
        e0 = r.value.elts[0]
        if isinstance(e0, ast.Constant) and isinstance(e0.value, str):
            tags[e0.value] = len(r.value.elts)
    return tags


def op_sets(repo):
    m = repo.module("compiler")
    out = {}
    for n in m.tree.body:
        if isinstance(n, ast.Assign) and isinstance(n.value, ast.Set) and isinstance(n.targets[0], ast.Name):
            out[n.targets[0].id] = {e.value for e in n.value.elts if isinstance(e, ast.Constant)}
    return out


# ---- partial evaluation of a dispatcher on one subject value

def _fold_test(test, subj, value):
    """True / False / None (unknown) for `test` when src(subject) == subj has the constant `value`"""
    if isinstance(test, ast.Compare) and len(test.ops) == 1 and src(test.left) == subj:
        c = test.comparators[0]
        op = test.ops[0]
        if isinstance(c, ast.Constant) and isinstance(op, (ast.Eq, ast.NotEq)):
            r = c.value == value
            return r if isinstance(op, ast.Eq) else not r
        if isinstance(c, (ast.Tuple, ast.List, ast.Set)) and all(isinstance(e, ast.Constant) for e in c.elts) and isinstance(op, (ast.In, ast.NotIn)):
            r = value in [e.value for e in c.elts]
            return r if isinstance(op, ast.In) else not r
    if isinstance(test, ast.UnaryOp) and isinstance(test.op, ast.Not):
        r = _fold_test(test.operand, subj, value)
        return None if r is None else not r
    if isinstance(test, ast.BoolOp):
        rs = [_fold_test(v, subj, value) for v in test.values]
        if isinstance(test.op, ast.And):
            return False if False in rs else (True if all(r is True for r in rs) else None)
        return True if True in rs else (False if all(r is False for r in rs) else None)
    return None


def _always_leaves(stmts):
    for st in stmts:
        if isinstance(st, (ast.Return, ast.Raise)):
            return True
        if isinstance(st, ast.If) and st.orelse and _always_leaves(st.body) and _always_leaves(st.orelse):
            return True
    return False


def specialize(stmts, subj, value):
    """the statements that can run when the subject has `value` (branches on the subject folded away; unknown tests kept)"""
    out = []
    for st in stmts:
        if isinstance(st, ast.If):
            r = _fold_test(st.test, subj, value)
            if r is True:
                out += specialize(st.body, subj, value)
                if _always_leaves(st.body):
                    return out
            elif r is False:
                out += specialize(st.orelse, subj, value)
                if st.orelse and _always_leaves(st.orelse):
                    return out
            else:
                new = ast.If(test=st.test, body=specialize(st.body, subj, value) or [ast.Pass()], orelse=specialize(st.orelse, subj, value))
                out.append(ast.copy_location(new, st))
        else:
            out.append(st)
            if isinstance(st, (ast.Return, ast.Raise)):
                return out
    return out


def _fold_expr(e, subj, value):
    """conditional expressions on the subject folded"""
    while isinstance(e, ast.IfExp):
        r = _fold_test(e.test, subj, value)
        if r is None:
            break
        e = e.body if r else e.orelse
    return e


def emit_table(repo, fq):
    """{tag: {"ops": {op: emitted text} or None, "formats": [canonical format strings], "declines": bool, "indices": {k}, "node": node}}
    from an _ir_to_source method.  The method is partially evaluated for each tag it compares its subject (ir[0]) with, so that
    merged branches (`in ('binop', 'cmp')`), tables chosen by a conditional expression and module-level tables are seen through.
    Canonical format: operands rendered from ir[k] appear as {irk}, the looked-up operator text as {op}."""
    f = repo.fn(fq)
    irp = [p for p in f.params() if p != "self"][0]
    mod_dicts = {}
    for n in f.module.tree.body:
        if isinstance(n, ast.Assign) and isinstance(n.value, ast.Dict) and isinstance(n.targets[0], ast.Name):
            mod_dicts[n.targets[0].id] = n.value
    # subject: ir[0] or a local bound to it
    subj_names = {f"{irp}[0]"}
    for n in walk_local(f.node):
        if isinstance(n, ast.Assign) and src(n.value) == f"{irp}[0]" and isinstance(n.targets[0], ast.Name):
            subj_names.add(n.targets[0].id)
    tags = []
    for n in walk_local(f.node):
        if isinstance(n, ast.Compare) and src(n.left) in subj_names:
            for c in n.comparators:
                for e in (c.elts if isinstance(c, (ast.Tuple, ast.List, ast.Set)) else [c]):
                    if isinstance(e, ast.Constant) and isinstance(e.value, str) and e.value not in tags:
                        tags.append(e.value)
    out = {}
    for tag in tags:
        body = f.node.body
        for sj in subj_names:
            body = specialize(body, sj, tag)
        nodes = [x for st in body for x in walk_local(st)]
        # environment of the specialised body
        env = {}
        for x in nodes:
            if isinstance(x, ast.Assign) and len(x.targets) == 1:
                t, v = x.targets[0], x.value
                for sj in subj_names:
                    v = _fold_expr(v, sj, tag)
                if isinstance(t, ast.Name):
                    env.setdefault(t.id, []).append(v)
                elif isinstance(t, ast.Tuple) and isinstance(v, ast.Tuple) and len(t.elts) == len(v.elts):
                    for a, b in zip(t.elts, v.elts):
                        if isinstance(a, ast.Name):
                            env.setdefault(a.id, []).append(b)

        def resolve(e, depth=4):
            while depth and isinstance(e, ast.Name) and len(env.get(e.id, [])) == 1:
                e = env[e.id][0]
                depth -= 1
            return e

        def operand_index(e):
            e = resolve(e)
            if isinstance(e, ast.Subscript) and isinstance(e.value, ast.Name) and e.value.id == irp and isinstance(e.slice, ast.Constant):
                return e.slice.value
            return None

        def rendered(e):
            """k if e is the source rendered from ir[k] (self._ir_to_source(ir[k]) or a local bound to it)"""
            e = resolve(e)
            if isinstance(e, ast.Call) and callee_name(e) == f.name and e.args:
                return operand_index(e.args[0])
            return None
        ops, lookup_vars = None, set()
        for x in nodes:
            if isinstance(x, ast.Call) and isinstance(x.func, ast.Attribute) and x.func.attr == "get" and x.args and operand_index(x.args[0]) == 1:
                d = resolve(x.func.value)
                for sj in subj_names:
                    d = _fold_expr(d, sj, tag)
                d = resolve(d)
                if isinstance(d, ast.Name) and d.id in mod_dicts:
                    d = mod_dicts[d.id]
                if isinstance(d, ast.Dict) and all(isinstance(k, ast.Constant) for k in d.keys) and all(isinstance(v, ast.Constant) for v in d.values):
                    ops = {k.value: v.value for k, v in zip(d.keys, d.values)}
                par = getattr(x, "_parent", None)
                if isinstance(par, ast.Assign) and isinstance(par.targets[0], ast.Name):
                    lookup_vars.add(par.targets[0].id)
        fmts, declines = [], False
        # single-exit spelling: `result = None ... result = f'...' ... return result`
        rets_all = [x for x in nodes if isinstance(x, ast.Return)]
        result_var = rets_all[-1].value.id if rets_all and isinstance(rets_all[-1].value, ast.Name) and rets_all[-1].value.id not in lookup_vars else None
        results = list(rets_all)
        if result_var:
            results = [x for x in nodes if isinstance(x, ast.Assign) and any(isinstance(t, ast.Name) and t.id == result_var for t in x.targets)
                       and not (isinstance(x.value, ast.Constant) and x.value.value is None)]
            for x in nodes:
                if isinstance(x, ast.If) and isinstance(x.test, ast.Compare) and isinstance(x.test.left, ast.Name) and x.test.left.id in lookup_vars and \
                        isinstance(x.test.ops[0], ast.IsNot) and isinstance(x.test.comparators[0], ast.Constant) and x.test.comparators[0].value is None and \
                        any(r_ in results for s_ in x.body for r_ in walk_local(s_)):
                    declines = True
        for r in results:
            alts = []

            def split(v):
                for sj in subj_names:
                    v = _fold_expr(v, sj, tag)
                if isinstance(v, ast.IfExp):
                    split(v.body)
                    split(v.orelse)
                    alts.append(("test", v.test))
                else:
                    alts.append(("val", v))
            split(r.value) if r.value is not None else None
            for kind, v in alts:
                if kind == "test":
                    if isinstance(v, ast.Compare) and isinstance(v.left, ast.Name) and v.left.id in lookup_vars and isinstance(v.comparators[0], ast.Constant) and v.comparators[0].value is None:
                        declines = True
                    continue
                if isinstance(v, ast.JoinedStr):
                    parts = []
                    for p in v.values:
                        if isinstance(p, ast.Constant):
                            parts.append(p.value)
                        else:
                            k = rendered(p.value)
                            if k is not None:
                                parts.append("{ir%d}" % k)
                            elif isinstance(p.value, ast.Name) and p.value.id in lookup_vars:
                                parts.append("{op}")
                            else:
                                parts.append("{" + src(p.value) + "}")
                    fmts.append("".join(parts))
                elif isinstance(v, ast.Call) and callee_name(v) == "repr":
                    fmts.append("repr")
                elif isinstance(v, ast.Subscript):
                    fmts.append("{" + src(v) + "}")
        # statement form of the decline: `if <lookup> is None: return None`
        for x in nodes:
            if isinstance(x, ast.If) and isinstance(x.test, ast.Compare) and isinstance(x.test.left, ast.Name) and x.test.left.id in lookup_vars and \
                    isinstance(x.test.ops[0], ast.Is) and isinstance(x.test.comparators[0], ast.Constant) and x.test.comparators[0].value is None and \
                    any(isinstance(r, ast.Return) and (r.value is None or (isinstance(r.value, ast.Constant) and r.value.value is None)) for r in x.body):
                declines = True
        idx = {x.slice.value for x in nodes if isinstance(x, ast.Subscript) and isinstance(x.value, ast.Name) and x.value.id == irp and isinstance(x.slice, ast.Constant)}
        first = next((st for st in body if not isinstance(st, ast.Pass)), f.node)
        if fmts or ops is not None:
            out[tag] = {"ops": ops, "formats": fmts, "declines": declines, "indices": idx - {0}, "node": first}
    return out


def collect_params_tags(repo):
    f = repo.fn("backends/base:BackendProvider._collect_params")
    tags = set()
    order = {}
    for n in ast.walk(f.node):
        if isinstance(n, ast.Compare) and src(n.left) == "node[0]":
            for c in n.comparators:
                if isinstance(c, ast.Constant):
                    tags.add(c.value)
                elif isinstance(c, ast.Tuple):
                    tags |= {e.value for e in c.elts if isinstance(e, ast.Constant)}
    return tags


# ------------------------------------------------------------------ THIN: result-path census

LIFT = {"kg_truth"}


def _strip(e):
    """strip lifting wrappers: kg_truth(x) -> x ; backend.vec_fn2(a, b, lambda x, y: body) -> body ; vec_fn(a, f) -> f"""
    changed = True
    while changed:
        changed = False
        if isinstance(e, ast.Call) and callee_name(e) in LIFT and len(e.args) == 1:
            e = e.args[0]
            changed = True
        elif isinstance(e, ast.Call) and callee_name(e) in ("vec_fn2", "vec_fn", "rec_fn") and e.args and isinstance(e.args[-1], ast.Lambda):
            e = e.args[-1].body
            changed = True
        elif isinstance(e, ast.BinOp) and isinstance(e.op, ast.Mult) and isinstance(e.right, ast.Constant) and e.right.value == 1:
            e = e.left
            changed = True
    return e


def result_paths(repo, cg, fi, depth=2, _guards=()):
    """[(guard texts, descriptor, node)] over every return of fi after stripping lifting wrappers and inlining repo helpers (depth levels).
    descriptor: ('prim', name) | ('pyop', op) | ('const', text) | ('convert', fn, inner descriptor) | ('param', name) | ('other', text)"""
    out = []
    for r in [n for n in walk_local(fi.node) if isinstance(n, ast.Return) and n.value is not None]:
        guards = tuple(_guards) + tuple((("" if p else "not ") + src(t)) for t, p in path_conditions(r, fi.node))
        for alt_guard, e in _alts(r.value):
            out += _describe(repo, cg, fi, e, guards + alt_guard, depth, r)
    return out


def _alts(v):
    if isinstance(v, ast.IfExp):
        return [((src(v.test),), v.body)] + [((("not " + src(v.test)),) + g, e) for g, e in _alts(v.orelse)]
    return [((), v)]


def _describe(repo, cg, fi, e, guards, depth, node):
    e = _strip(e)
    if isinstance(e, ast.IfExp):
        res = []
        for g, x in _alts(e):
            res += _describe(repo, cg, fi, x, guards + g, depth, node)
        return res
    if isinstance(e, ast.Name):
        # a local single assignment?
        defs = [a for a in walk_local(fi.node) if isinstance(a, ast.Assign) and any(isinstance(t, ast.Name) and t.id == e.id for t in a.targets)]
        if len(defs) == 1 and e.id not in fi.params():
            return _describe(repo, cg, fi, defs[0].value, guards, depth, node)
        if e.id in fi.params():
            return [(guards, ("param", e.id), node)]
        if e.id.isupper():
            return [(guards, ("const", e.id), node)]
        return [(guards, ("other", src(e)), node)]
    if isinstance(e, ast.Constant):
        return [(guards, ("const", repr(e.value)), node)]
    if isinstance(e, ast.Compare) and len(e.ops) == 1:
        sym = {ast.Eq: "==", ast.Lt: "<", ast.Gt: ">", ast.LtE: "<=", ast.GtE: ">=", ast.NotEq: "!="}.get(type(e.ops[0]))
        return [(guards, ("pyop", sym), node)]
    if isinstance(e, ast.Call):
        callees = cg.resolve_call(fi, e) if cg is not None else []
        callees = [g for g in callees if g.module.name in ("dyads", "monads", "backends/numpy_backend", "backends/base", "types") and not g.name.startswith("__")]
        cn = callee_name(e)
        if callees and depth > 0:
            res = []
            # prefer the numpy provider's override when the base class method is abstract-ish
            np_over = [g for g in callees if g.module.name == "backends/numpy_backend"]
            for g in (np_over or [c for c in callees if c.module.name != "backends/torch_backend"]):
                sub = result_paths(repo, cg, g, depth - 1, guards)
                if cn in ("to_int_array", "floor_to_int", "kg_asarray"):
                    sub = [(gg, ("convert", cn, d), node) for gg, d, _n in sub]
                res += [(gg, d, node) for gg, d, _n in sub]
            if res:
                return res
        p = dotted(e.func)
        if p:
            parts = p.split(".")
            while parts and parts[0] in ("np_backend", "backend", "np", "bknp", "numpy", "self", "_np", "np_mod"):
                parts = parts[1:]
            if cn in ("to_int_array", "floor_to_int"):
                inner = _describe(repo, cg, fi, e.args[0], guards, depth, node) if e.args else [(guards, ("other", "?"), node)]
                return [(gg, ("convert", cn, d), node) for gg, d, _n in inner]
            if len(parts) == 1 or (len(parts) == 2 and parts[1] in ("reduce", "accumulate")):
                return [(guards, ("prim", ".".join(parts)), node)]
        return [(guards, ("other", src(e)[:60]), node)]
    return [(guards, ("other", src(e)[:60]), node)]
