"""E5: freshness (ownership) analysis for array / list / dict values.

Lattice per local variable:
  FRESH   allocated in this activation (possibly holding references to shared elements: shallow)
  SHARED  may be (an alias of) a parameter, a global, part of a syntax tree, something the program can see
  UNK     the analysis does not know (reported on a sink: the rule is armed, not ranked)
A *sink* is an operation that writes in place into an object: subscript store / aug-store / del,
in-place methods, numpy.put / copyto / out=, augmented assignment to a name, torch `*_` methods.
The rule FRESH-WRITE demands fr(object written) == FRESH at every sink.

Flow-sensitive over the statement tree (meet at merges, two passes for loops), intraprocedural, with
function summaries computed to a fixpoint: "returns a fresh value", "returns a tuple whose k-th element
is param j / fresh", and parameter freshness of private helpers as the meet over their call sites.
"""
import ast

from .model import FUNC, src, callee_name, dotted, walk_local

FRESH, SHARED, UNK = "fresh", "shared", "unknown"

# ---- frozen API facts (printed in evidence as trusted_base)
ALLOC_CALLS = {
    # numpy / torch allocation
    "array", "copy", "deepcopy", "zeros", "ones", "full", "empty", "zeros_like", "ones_like", "full_like", "empty_like", "tile",
    "concatenate", "hstack", "vstack", "stack", "repeat", "unique", "where", "arange", "linspace", "append", "resize", "roll", "flip",
    "astype", "tolist", "flatten", "clone", "cumsum", "cumprod", "argsort", "sort_values", "trunc", "floor", "ceil", "power", "negative",
    "abs", "absolute", "divide", "add", "subtract", "multiply", "maximum", "minimum", "fmod", "mod", "logical_not", "reciprocal",
    "isclose", "prod", "sum", "min", "max", "nditer", "from_numpy", "tensor", "accumulate", "reduce", "sqrt", "exp", "log", "sin", "cos",
    "take", "delete", "insert_copy", "char_array", "isin", "equal", "less", "greater", "all", "any", "dot", "matmul", "outer",
    # python builtins / stdlib
    "list", "dict", "set", "tuple", "sorted", "reversed", "str", "int", "float", "bool", "len", "range", "enumerate", "zip", "map", "filter",
    "join", "split", "strip", "lstrip", "rstrip", "ljust", "rjust", "format", "replace", "lower", "upper", "item", "items", "keys", "values",
    "isinstance", "issubclass", "hasattr", "callable", "type", "id", "hash", "round", "divmod", "ord", "chr", "repr", "getvalue", "dumps", "loads",
    "index", "find", "count", "startswith", "endswith", "isnumeric", "isalpha", "isdigit", "isspace", "time", "time_ns", "signature",
    "partial", "product", "chain", "Future", "Lock", "Event", "create_future", "uuid4", "pack", "unpack", "calcsize",
}
ALIAS_CALLS = {"asarray", "asanyarray", "atleast_1d", "reshape", "ravel", "view", "squeeze", "transpose", "swapaxes", "to_numpy", "numpy",
               "detach", "detach_if_needed", "cpu", "to", "contiguous", "kg_asarray", "to_display", "array_split", "get", "pop_alias",
               "requires_grad_", "float", "double", "expand_dims", "broadcast_to", "real", "iter", "next", "setdefault"}
# .float()/.double()/.to() on tensors may or may not copy: treated as aliasing
TUPLE_ALLOC = {"unique", "where", "nonzero", "divmod", "meshgrid", "histogram", "frexp", "modf"}   # return tuples of new arrays
IMMUTABLE_ATTRS = {"shape", "ndim", "dtype", "size", "arity", "kind", "name", "itemsize", "nbytes", "lineno"}
ALIAS_ATTRS = {"T", "flat", "real", "imag", "data", "values", "a", "args", "fn"}
INPLACE_METHODS = {"sort", "fill", "reverse", "append", "extend", "insert", "pop", "remove", "clear", "update", "setdefault", "popitem",
                   "put", "itemset", "resize", "popleft", "appendleft", "add", "discard", "setflags", "partition", "byteswap"}
INPLACE_FUNCS = {"put": 0, "place": 0, "copyto": 0, "putmask": 0, "fill_diagonal": 0, "shuffle": 0, "heappush": 0, "heappop": 0, "heapify": 0}
MODULE_RECEIVERS = {"np", "numpy", "bknp", "np_backend", "backend", "torch", "itertools", "functools", "copy", "math", "heapq", "os",
                    "sys", "time", "logging", "asyncio", "json", "pickle", "struct", "uuid", "inspect", "threading", "pd", "self.np",
                    "backend.np", "self._backend", "klong._backend", "klong.backend", "self._torch_backend", "self._np"}
# interpreter state that is *meant* to be updated (variable store, caches, registries): not value writes
STATE_RECEIVERS = {"klong", "klong._context", "self._context", "self._parse_cache", "self._compiled_cache", "self", "sys.modules",
                   "registry", "klong._module"}


def meet(a, b):
    if a == b:
        return a
    if SHARED in (a, b):
        return SHARED
    return UNK


class Summaries:
    def __init__(self):
        self.ret = {}        # fq -> FRESH / UNK / SHARED / ("tuple", [elem...]) elements: FRESH|SHARED|UNK|("param", j)
        self.param = {}      # fq -> {param name: FRESH}  (private helpers only)


class FnAnalysis:
    """one function activation; collects sinks [(node, object_expr, freshness, kind)] and return freshness"""

    def __init__(self, fi, cg, summ, closure_env=None):
        self.fi, self.cg, self.summ = fi, cg, summ
        self.sinks = []
        self.rets = []
        self.ret_tuples = []
        self.closure_env = closure_env or {}
        node = fi.node
        a = node.args
        self.params = [p.arg for p in a.posonlyargs + a.args + a.kwonlyargs] + ([a.vararg.arg] if a.vararg else []) + ([a.kwarg.arg] if a.kwarg else [])
        self.locals = {n.id for n in walk_local(node) if isinstance(n, ast.Name) and isinstance(n.ctx, (ast.Store, ast.Del))} | set(self.params)
        self.nested = []

    # ---------------------------------------------------------------- expressions
    def fr(self, e, env):
        if e is None:
            return FRESH
        if isinstance(e, ast.Name):
            if e.id in env:
                return env[e.id]
            if e.id in self.closure_env:
                return self.closure_env[e.id]
            if e.id in self.locals:
                return UNK
            return SHARED          # global / builtin
        if isinstance(e, (ast.Constant, ast.JoinedStr, ast.Compare, ast.Lambda)):
            return FRESH
        if isinstance(e, (ast.List, ast.Tuple, ast.Set, ast.Dict, ast.ListComp, ast.SetComp, ast.DictComp, ast.GeneratorExp)):
            return FRESH
        if isinstance(e, ast.Starred):
            return self.fr(e.value, env)
        if isinstance(e, ast.BinOp):
            # arithmetic allocates for arrays and lists; `%` on str formats (new str)
            return FRESH
        if isinstance(e, ast.UnaryOp):
            return FRESH
        if isinstance(e, ast.IfExp):
            return meet(self.fr(e.body, env), self.fr(e.orelse, env))
        if isinstance(e, ast.BoolOp):
            r = self.fr(e.values[0], env)
            for v in e.values[1:]:
                r = meet(r, self.fr(v, env))
            return r
        if isinstance(e, ast.NamedExpr):
            return self.fr(e.value, env)
        if isinstance(e, ast.Await):
            return UNK
        if isinstance(e, ast.Subscript):
            b = self.fr(e.value, env)
            if b == SHARED:
                return SHARED
            if b == FRESH and isinstance(e.slice, ast.Slice):
                return FRESH         # a slice of a private list is a new list; of a private array a view of private data
            return UNK               # an element of a private container may itself be shared
        if isinstance(e, ast.Attribute):
            if e.attr in IMMUTABLE_ATTRS:
                return FRESH
            b = self.fr(e.value, env)
            if e.attr in ALIAS_ATTRS:
                return b if b != FRESH else UNK if e.attr in ("a", "args", "fn", "values") else b
            return SHARED if b == SHARED else UNK
        if isinstance(e, ast.Call):
            return self.fr_call(e, env)
        return UNK

    def fr_call(self, c, env):
        name = callee_name(c)
        f = c.func
        # repo functions first (summaries)
        callees = self.cg.resolve_call(self.fi, c) if self.cg is not None else []
        if callees:
            res = None
            for g in callees:
                r = self.summ.ret.get(g.fq, UNK)
                if isinstance(r, tuple):
                    r = FRESH       # a tuple display is itself fresh; element freshness is used at unpacking
                if g.name == "__init__":
                    r = FRESH       # constructor call
                res = r if res is None else meet(res, r)
            if res is not None and not (res == UNK and name in ALLOC_CALLS | ALIAS_CALLS):
                return res
        if name is None:
            # the callee is itself the result of a call (`self._collector()(ctx)`): when that inner call resolves to repository functions
            # which return nothing but bound methods of self, the result is what those methods return
            if isinstance(f, ast.Call) and self.cg is not None:
                inner = self.cg.resolve_call(self.fi, f)
                meths = []
                ok = bool(inner)
                for g in inner:
                    rets = [r for r in walk_local(g.node) if isinstance(r, ast.Return)]
                    vals = []
                    for r in rets:
                        v = r.value
                        stack = [v]
                        while stack:
                            x = stack.pop()
                            if isinstance(x, ast.IfExp):
                                stack += [x.body, x.orelse]
                            else:
                                vals.append(x)
                    if not vals or not all(isinstance(x, ast.Attribute) and isinstance(x.value, ast.Name) and x.value.id == "self" for x in vals):
                        ok = False
                        break
                    for x in vals:
                        m_ = g.module.funcs.get(f"{g.cls}.{x.attr}") if g.cls else None
                        if m_ is None:
                            ok = False
                        else:
                            meths.append(m_)
                if ok and meths:
                    res = None
                    for m_ in meths:
                        r = self.summ.ret.get(m_.fq, UNK)
                        r = FRESH if isinstance(r, tuple) else r
                        res = r if res is None else meet(res, r)
                    return res
            return UNK
        if name == "copy" or name == "deepcopy":
            return FRESH
        if name in ALIAS_CALLS:
            if isinstance(f, ast.Attribute) and dotted(f.value) not in MODULE_RECEIVERS and not c.args:
                return self.fr(f.value, env)          # x.reshape(...), x.ravel()
            if isinstance(f, ast.Attribute) and dotted(f.value) not in MODULE_RECEIVERS and name in ("reshape", "view", "transpose", "squeeze", "swapaxes", "get", "to", "astype_alias", "setdefault", "float", "double"):
                return self.fr(f.value, env)
            arg = c.args[0] if c.args else None
            return self.fr(arg, env) if arg is not None else UNK
        if name in ALLOC_CALLS:
            return FRESH
        if name[:1].isupper():
            return FRESH             # constructor of an external class
        return UNK

    # ---------------------------------------------------------------- sinks
    def _sink(self, node, obj, env, kind):
        d = dotted(obj)
        base = obj
        while isinstance(base, ast.Subscript):
            base = base.value
        bd = dotted(base)
        if d in STATE_RECEIVERS or bd in STATE_RECEIVERS or (bd and bd.startswith("self.")):
            self.sinks.append((node, obj, "state", kind))
            return
        self.sinks.append((node, obj, self.fr(obj, env), kind))

    def scan_expr_sinks(self, root, env):
        for n in walk_local(root):
            if not isinstance(n, ast.Call):
                continue
            f = n.func
            nm = callee_name(n)
            if isinstance(f, ast.Attribute):
                recv = dotted(f.value)
                if recv in MODULE_RECEIVERS or (recv or "").split(".")[0] in ("np", "numpy", "bknp", "np_backend", "heapq", "torch", "backend"):
                    if nm in INPLACE_FUNCS and len(n.args) > INPLACE_FUNCS[nm]:
                        self._sink(n, n.args[INPLACE_FUNCS[nm]], env, f"{nm}()")
                elif nm in INPLACE_METHODS:
                    self._sink(n, f.value, env, f".{nm}()")
                elif nm and nm.endswith("_") and not nm.startswith("_") and len(nm) > 2:
                    self._sink(n, f.value, env, f".{nm}() (in-place tensor method)")
            elif isinstance(f, ast.Name) and nm in INPLACE_FUNCS and len(n.args) > INPLACE_FUNCS[nm]:
                self._sink(n, n.args[INPLACE_FUNCS[nm]], env, f"{nm}()")
            for k in n.keywords:
                if k.arg == "out":
                    self._sink(n, k.value, env, "out=")

    # ---------------------------------------------------------------- statements
    def bind(self, tgt, val, env):
        if isinstance(tgt, ast.Name):
            env[tgt.id] = val
        elif isinstance(tgt, (ast.Tuple, ast.List)):
            for e in tgt.elts:
                self.bind(e, UNK if val == FRESH else val, env)   # elements of a fresh container may be shared
        elif isinstance(tgt, ast.Starred):
            self.bind(tgt.value, val, env)

    def assign(self, st, env):
        v = st.value
        # tuple unpacking of a call with a tuple summary / of a tuple display
        tgt0 = st.targets[0] if len(st.targets) == 1 else None
        if isinstance(tgt0, (ast.Tuple, ast.List)):
            elems = None
            if isinstance(v, (ast.Tuple, ast.List)) and len(v.elts) == len(tgt0.elts):
                elems = [self.fr(x, env) for x in v.elts]
            elif isinstance(v, ast.Call) and callee_name(v) in TUPLE_ALLOC and not self.cg.resolve_call(self.fi, v):
                elems = [FRESH] * len(tgt0.elts)
            elif isinstance(v, ast.Call) and self.cg is not None:
                for g in self.cg.resolve_call(self.fi, v):
                    r = self.summ.ret.get(g.fq)
                    if isinstance(r, tuple) and len(r[1]) == len(tgt0.elts):
                        gp = g.params()
                        off = 1 if gp[:1] == ["self"] else 0
                        cur = []
                        for el in r[1]:
                            if isinstance(el, tuple) and el[0] == "param":
                                j = el[1] - off
                                kwn = gp[el[1]] if el[1] < len(gp) else None
                                a = v.args[j] if 0 <= j < len(v.args) else next((k.value for k in v.keywords if k.arg == kwn), None)
                                cur.append(self.fr(a, env) if a is not None else UNK)
                            else:
                                cur.append(el)
                        elems = cur if elems is None else [meet(x, y) for x, y in zip(elems, cur)]
            if elems is not None:
                for t, fv in zip(tgt0.elts, elems):
                    if isinstance(t, ast.Subscript):
                        self._sink(st, t.value, env, "subscript store")
                    else:
                        self.bind(t, fv, env)
                return
        val = self.fr(v, env)
        for t in st.targets:
            if isinstance(t, ast.Subscript):
                self._sink(st, t.value, env, "subscript store")
            elif isinstance(t, ast.Attribute):
                pass
            else:
                self.bind(t, val, env)

    def stmt(self, st, env):
        if isinstance(st, FUNC):
            self.nested.append((st, dict(env)))
            env[st.name] = FRESH
            return env
        if isinstance(st, ast.ClassDef):
            return env
        # sinks inside the statement's own expressions
        own = []
        if isinstance(st, (ast.If, ast.While)):
            own = [st.test]
        elif isinstance(st, (ast.For, ast.AsyncFor)):
            own = [st.iter]
        elif isinstance(st, (ast.With, ast.AsyncWith)):
            own = [i.context_expr for i in st.items]
        elif isinstance(st, (ast.Try,)):
            own = []
        else:
            own = [st]
        for e in own:
            self.scan_expr_sinks(e, env)
            for n in walk_local(e):
                if isinstance(n, ast.Lambda):
                    self.nested.append((n, dict(env)))
        if isinstance(st, ast.Assign):
            self.assign(st, env)
        elif isinstance(st, ast.AnnAssign) and st.value is not None:
            self.bind(st.target, self.fr(st.value, env), env) if not isinstance(st.target, ast.Subscript) else self._sink(st, st.target.value, env, "subscript store")
        elif isinstance(st, ast.AugAssign):
            if isinstance(st.target, ast.Subscript):
                self._sink(st, st.target.value, env, "augmented subscript store")
            elif isinstance(st.target, ast.Name):
                cur = env.get(st.target.id, SHARED if st.target.id not in self.locals else UNK)
                # x += v mutates x in place when x is an array/list; it rebinds when x is a number/str.
                # a value known to be a number (fresh scalar) is fine either way
                if cur != FRESH:
                    self.sinks.append((st, st.target, cur, "augmented assignment (in place for arrays/lists)"))
        elif isinstance(st, ast.Delete):
            for t in st.targets:
                if isinstance(t, ast.Subscript):
                    self._sink(st, t.value, env, "del subscript")
                elif isinstance(t, ast.Name):
                    env.pop(t.id, None)
        elif isinstance(st, ast.Return):
            if st.value is not None:
                self.rets.append(self.fr(st.value, env))
                if isinstance(st.value, ast.Tuple):
                    el = []
                    for x in st.value.elts:
                        if isinstance(x, ast.Name) and x.id in self.params and env.get(x.id) == self._param_default(x.id) and not self._rebinds(x.id):
                            el.append(("param", self.params.index(x.id)))
                        else:
                            el.append(self.fr(x, env))
                    self.ret_tuples.append(el)
                else:
                    self.ret_tuples.append(None)
            else:
                self.rets.append(FRESH)
                self.ret_tuples.append(None)
        elif isinstance(st, ast.If):
            a = self.block(st.body, dict(env))
            b = self.block(st.orelse, dict(env))
            return self._merge(a, b)
        elif isinstance(st, (ast.For, ast.AsyncFor, ast.While)):
            if not isinstance(st, ast.While):
                it = self.fr(st.iter, env)
                # iterating a fresh range/enumerate/zip gives scalars; iterating a container gives its elements
                elem = FRESH if (isinstance(st.iter, ast.Call) and callee_name(st.iter) in ("range",)) else (SHARED if it == SHARED else UNK)
                if isinstance(st.iter, ast.Call) and callee_name(st.iter) == "enumerate" and isinstance(st.target, ast.Tuple) and len(st.target.elts) == 2:
                    self.bind(st.target.elts[0], FRESH, env)
                    self.bind(st.target.elts[1], SHARED if (st.iter.args and self.fr(st.iter.args[0], env) == SHARED) else UNK, env)
                else:
                    self.bind(st.target, elem, env)
            e1 = self.block(st.body, dict(env))
            e2 = self._merge(env, e1)
            e3 = self.block(st.body, dict(e2))
            out = self._merge(e2, e3)
            if st.orelse:
                out = self._merge(out, self.block(st.orelse, dict(out)))
            return out
        elif isinstance(st, ast.Try):
            a = self.block(st.body, dict(env))
            mid = self._merge(env, a)
            outs = [a if not st.orelse else self.block(st.orelse, dict(a))]
            for h in st.handlers:
                he = dict(mid)
                if h.name:
                    he[h.name] = FRESH
                outs.append(self.block(h.body, he))
            r = outs[0]
            for o in outs[1:]:
                r = self._merge(r, o)
            return self.block(st.finalbody, r) if st.finalbody else r
        elif isinstance(st, (ast.With, ast.AsyncWith)):
            for i in st.items:
                if i.optional_vars is not None:
                    self.bind(i.optional_vars, UNK, env)
            return self.block(st.body, env)
        return env

    def _param_default(self, name):
        return self.init_env.get(name)

    def _rebinds(self, name):
        return any(isinstance(n, ast.Name) and n.id == name and isinstance(n.ctx, ast.Store) for n in walk_local(self.fi.node))

    def _merge(self, a, b):
        return {k: meet(a.get(k, UNK), b.get(k, UNK)) for k in set(a) | set(b)}

    def block(self, stmts, env):
        for s in stmts:
            env = self.stmt(s, env)
        return env

    def run(self):
        env = {}
        pf = self.summ.param.get(self.fi.fq, {})
        for p in self.params:
            env[p] = pf.get(p, SHARED)
        self.init_env = dict(env)
        body = self.fi.node.body
        self.block(body, env)
        return self


class LambdaInfo:
    """adapter so a lambda / nested def can be analysed like a function"""

    def __init__(self, node, outer):
        self.node = _as_func(node)
        self.module, self.cls, self.parent = outer.module, outer.cls, outer
        self.qual = outer.qual + ".<lambda>" if isinstance(node, ast.Lambda) else outer.qual + "." + node.name
        self.name = getattr(node, "name", "<lambda>")

    @property
    def fq(self):
        return f"{self.module.name}:{self.qual}"

    def params(self):
        a = self.node.args
        return [x.arg for x in a.posonlyargs + a.args]


def _as_func(node):
    if isinstance(node, ast.Lambda):
        f = ast.FunctionDef(name="<lambda>", args=node.args, body=[ast.Return(value=node.body, lineno=node.lineno, col_offset=node.col_offset)],
                            decorator_list=[], lineno=node.lineno, col_offset=node.col_offset)
        f.body[0]._parent = f
        f._parent = getattr(node, "_parent", None)
        return f
    return node


def analyse_function(fi, cg, summ, closure_env=None, collect=None):
    """analyse fi and, recursively, the closures it creates; returns [(FnAnalysis, owner fq)]"""
    out = []
    fa = FnAnalysis(fi, cg, summ, closure_env).run()
    out.append(fa)
    for node, env in fa.nested:
        if isinstance(node, FUNC) and hasattr(node, "_fi"):
            sub = node._fi
        else:
            sub = LambdaInfo(node, fi)
        cenv = dict(closure_env or {})
        cenv.update(env)
        out += analyse_function(sub, cg, summ, cenv)
    return out


def compute_summaries(repo, cg, modules, rounds=6):
    """optimistic fixpoint: start from 'every function returns fresh', drop until stable"""
    summ = Summaries()
    funcs = [f for f in repo.all_funcs(modules)]
    for f in funcs:
        summ.ret[f.fq] = FRESH
    # call sites of private helpers (computed once)
    private = [f for f in funcs if f.name.startswith("_") and not f.name.startswith("__") and f.parent is None]
    sites_of = {f.fq: [] for f in private}
    for g in funcs:
        for c in [n for n in walk_local(g.node) if isinstance(n, ast.Call)]:
            for t in cg.resolve_call(g, c):
                if t.fq in sites_of:
                    sites_of[t.fq].append((g, c))
    # parameter freshness of private helpers is the GREATEST fixpoint of "every call site passes a private value": start from
    # "fresh" and take away what some call site contradicts (helpers that hand their accumulator to one another stay fresh when the
    # outermost caller made it).  Only for helpers that are mentioned nowhere but in direct calls - otherwise not all call sites are known.
    mentioned = {}
    for g in funcs:
        for n in ast.walk(g.node):
            if isinstance(n, ast.Name) and isinstance(n.ctx, ast.Load):
                mentioned[n.id] = mentioned.get(n.id, 0) + 1
            elif isinstance(n, ast.Attribute) and isinstance(n.ctx, ast.Load):
                mentioned[n.attr] = mentioned.get(n.attr, 0) + 1
    optimistic = set()
    for f in private:
        ncalls = sum(1 for g, c in sites_of[f.fq])
        if ncalls and mentioned.get(f.name, 0) == ncalls:
            optimistic.add(f.fq)
            gp = f.params()
            summ.param[f.fq] = {p: FRESH for p in gp[(1 if gp[:1] == ["self"] else 0):]}
    for _ in range(rounds):
        changed = False
        for f in funcs:
            fa = FnAnalysis(f, cg, summ).run()
            if not fa.rets:
                r = FRESH if not _is_generator(f.node) else UNK
            else:
                r = fa.rets[0]
                for x in fa.rets[1:]:
                    r = meet(r, x)
                if all(t is not None for t in fa.ret_tuples) and fa.ret_tuples and len({len(t) for t in fa.ret_tuples}) == 1:
                    els = list(fa.ret_tuples[0])
                    for t in fa.ret_tuples[1:]:
                        els = [a if a == b else (meet(a, b) if not isinstance(a, tuple) and not isinstance(b, tuple) else UNK) for a, b in zip(els, t)]
                    r = ("tuple", els)
            if _memoised(f.node):
                r = SHARED          # functools.lru_cache / cache: every caller of equal arguments gets the SAME object back
            if summ.ret.get(f.fq) != r:
                summ.ret[f.fq] = r
                changed = True
        # parameter freshness of private helpers = meet over resolved call sites
        newp = {}
        env_cache = {}
        for f in private:
            sites = sites_of[f.fq]
            if not sites:
                continue
            gp = f.params()
            off = 1 if gp[:1] == ["self"] else 0
            res = {}
            for g, c in sites:
                if g.fq not in env_cache:
                    ga = FnAnalysis(g, cg, summ, _closure_env_guess(g))
                    env_cache[g.fq] = (ga, _env_at_calls(ga))
                ga, envs = env_cache[g.fq]
                env = envs.get(c, {})
                for j, p in enumerate(gp[off:]):
                    a = c.args[j] if j < len(c.args) else next((k.value for k in c.keywords if k.arg == p), None)
                    if g.fq == f.fq and isinstance(a, ast.Name) and a.id == p and not ga._rebinds(p):
                        continue         # the helper hands its own parameter on to itself: no new constraint (the outer call sites decide)
                    v = ga.fr(a, env) if a is not None else FRESH
                    res[p] = v if p not in res else meet(res[p], v)
            res = {p: v for p, v in res.items() if v == FRESH}
            if f.fq in optimistic:
                res = {p: v for p, v in res.items() if summ.param.get(f.fq, {}).get(p) == FRESH}      # only ever shrinks
            if res:
                newp[f.fq] = res
        if newp != summ.param:
            summ.param = newp
            changed = True
        if not changed:
            break
    return summ


def _memoised(fnode):
    for d in fnode.decorator_list:
        t = d.func if isinstance(d, ast.Call) else d
        nm = t.attr if isinstance(t, ast.Attribute) else (t.id if isinstance(t, ast.Name) else "")
        if nm in ("lru_cache", "cache", "cached_property", "memoize", "memoized"):
            return True
    return False


def _closure_env_guess(g):
    return {}


def _is_generator(fnode):
    return any(isinstance(n, (ast.Yield, ast.YieldFrom)) for n in walk_local(fnode))


def _env_at_calls(fa):
    """environment in force at each call expression of the function (recorded during a run)"""
    envs = {}
    orig = fa.scan_expr_sinks

    def hook(root, env):
        for n in walk_local(root):
            if isinstance(n, ast.Call):
                envs[n] = dict(env)
        return orig(root, env)
    fa.scan_expr_sinks = hook
    fa.run()
    return envs


def trusted_facts():
    return ["allocating APIs (result is a new object): " + ", ".join(sorted(x for x in ALLOC_CALLS if x in {"array", "copy", "deepcopy", "zeros", "ones", "full", "tile", "concatenate", "repeat", "unique", "where", "arange", "astype", "tolist", "flatten", "clone", "list", "dict", "sorted", "append", "resize", "roll"})),
            "aliasing APIs (result may share memory with the argument): " + ", ".join(sorted(ALIAS_CALLS - {"pop_alias"})),
            "in-place APIs (sinks): subscript store/del, augmented assignment, " + ", ".join(sorted(INPLACE_METHODS)) + ", numpy.put/place/copyto/putmask, out=, torch methods ending in '_'"]
