"""E7: write/read effects on the interpreter object, transitively over resolved call edges."""
import ast

from .model import walk_local, dotted

INTERP_RECV = ("self", "klong")


def attr_writes(fi, recv=INTERP_RECV):
    """stores to <recv>.<attr> (and in-place container mutation <recv>.<attr>[k] = v / .clear() / .update()) in one function"""
    out = []
    for n in walk_local(fi.node):
        if isinstance(n, ast.Attribute) and isinstance(n.ctx, (ast.Store, ast.Del)) and isinstance(n.value, ast.Name) and n.value.id in recv:
            if n.value.id == "self" and fi.cls is None:
                continue
            out.append((n.attr, n, "store"))
        elif isinstance(n, ast.Subscript) and isinstance(n.ctx, (ast.Store, ast.Del)) and isinstance(n.value, ast.Attribute) and \
                isinstance(n.value.value, ast.Name) and n.value.value.id in recv:
            out.append((n.value.attr, n, "item store"))
        elif isinstance(n, ast.Call) and isinstance(n.func, ast.Attribute) and n.func.attr in ("clear", "update", "pop", "append", "push", "setdefault") and \
                isinstance(n.func.value, ast.Attribute) and isinstance(n.func.value.value, ast.Name) and n.func.value.value.id in recv:
            out.append((n.func.value.attr, n, f".{n.func.attr}()"))
    return out


def attr_reads(fi, recv=INTERP_RECV):
    out = set()
    for n in walk_local(fi.node):
        if isinstance(n, ast.Attribute) and isinstance(n.ctx, ast.Load) and isinstance(n.value, ast.Name) and n.value.id in recv:
            out.add(n.attr)
    return out


def node_field_writes(fi, recv=INTERP_RECV):
    """stores to attributes of local values other than the interpreter (syntax-tree nodes built during the parse)"""
    out = []
    for n in walk_local(fi.node):
        if isinstance(n, ast.Attribute) and isinstance(n.ctx, (ast.Store, ast.Del)) and isinstance(n.value, ast.Name) and n.value.id not in recv:
            out.append((f"{n.value.id}.{n.attr}", n))
    return out


def transitive(cg, root, modules, kinds=("call", "nested")):
    """functions reachable from root through resolved edges, restricted to `modules`"""
    cg.build()
    seen, work = [], [root.fq]
    while work:
        x = work.pop()
        if x in seen:
            continue
        if x.split(":")[0] not in modules:
            continue
        seen.append(x)
        for y, k in sorted(cg.edges.get(x, ())):
            if k in kinds and y not in seen:
                work.append(y)
    return seen
