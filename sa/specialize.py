"""Partial evaluation of one function on boolean facts ("self._wildcard is False"), for rules that talk about one mode of a
function that serves two (`symbols = A if self._flag else B; for s in symbols: try: .. except KeyError: if self._flag: break; raise`).

specialise(fi, {"self._wildcard": False}) returns a NEW function node in normal form in which
  - every if / conditional expression / while test decided by the facts is folded,
  - a try whose handlers can only re-raise is replaced by its body,
  - locals bound once to a stable attribute/global are replaced by it,
  - the normaliser's value-naming and loop-to-comprehension passes have run again.
A fact is only usable when the function itself never rebinds the expression; otherwise None is returned (the rule then reports
an analysis error rather than guessing)."""
import ast

from . import normalize as N
from .model import FUNC, src, walk_local


def _truth(test, facts):
    s = src(test)
    if s in facts:
        return facts[s]
    if isinstance(test, ast.Constant):
        return bool(test.value)
    if isinstance(test, ast.UnaryOp) and isinstance(test.op, ast.Not):
        r = _truth(test.operand, facts)
        return None if r is None else not r
    if isinstance(test, ast.BoolOp):
        rs = [_truth(v, facts) for v in test.values]
        if isinstance(test.op, ast.And):
            return False if False in rs else (True if all(r is True for r in rs) else None)
        return True if True in rs else (False if all(r is False for r in rs) else None)
    if isinstance(test, ast.Compare) and len(test.ops) == 1 and isinstance(test.comparators[0], ast.Constant) and isinstance(test.comparators[0].value, bool):
        r = _truth(test.left, facts)
        if r is not None and isinstance(test.ops[0], (ast.Is, ast.Eq)):
            return r is test.comparators[0].value
        if r is not None and isinstance(test.ops[0], (ast.IsNot, ast.NotEq)):
            return r is not test.comparators[0].value
    return None


def _leaves(stmts):
    return bool(stmts) and isinstance(stmts[-1], (ast.Return, ast.Raise, ast.Break, ast.Continue))


class _FoldExpr(ast.NodeTransformer):
    def __init__(self, facts):
        self.facts = facts

    def visit_IfExp(self, node):
        self.generic_visit(node)
        r = _truth(node.test, self.facts)
        return node if r is None else (node.body if r else node.orelse)

    def visit_FunctionDef(self, node):
        return node

    visit_AsyncFunctionDef = visit_Lambda = visit_FunctionDef


def _block(stmts, facts):
    out = []
    for st in stmts:
        if isinstance(st, ast.If):
            r = _truth(st.test, facts)
            if r is not None:
                taken = _block(st.body if r else st.orelse, facts)
                out += taken
                if _leaves(taken):
                    return out
                continue
            st.body = _block(st.body, facts) or [ast.copy_location(ast.Pass(), st)]
            st.orelse = _block(st.orelse, facts)
        elif isinstance(st, (ast.For, ast.AsyncFor, ast.While, ast.With, ast.AsyncWith)):
            if isinstance(st, ast.While) and _truth(st.test, facts) is False:
                out += _block(st.orelse, facts)
                continue
            st.body = _block(st.body, facts) or [ast.copy_location(ast.Pass(), st)]
            if hasattr(st, "orelse"):
                st.orelse = _block(st.orelse, facts)
        elif isinstance(st, ast.Try):
            st.body = _block(st.body, facts) or [ast.copy_location(ast.Pass(), st)]
            for h in st.handlers:
                h.body = _block(h.body, facts) or [ast.copy_location(ast.Pass(), h)]
            st.orelse = _block(st.orelse, facts)
            st.finalbody = _block(st.finalbody, facts)
            # handlers that do nothing but re-raise what they caught: the try is its body
            if st.handlers and not st.finalbody and all(len(h.body) == 1 and isinstance(h.body[0], ast.Raise) and h.body[0].exc is None for h in st.handlers):
                out += st.body + st.orelse
                if _leaves(out):
                    return out
                continue
        out.append(st)
        if _leaves(out):
            return out
    return out


def _copy_propagate(fn):
    """a local bound exactly once, at the top level of the body, to a name/attribute chain that nothing in the function rebinds"""
    done = 0
    stores = {}
    for n in walk_local(fn):
        if isinstance(n, ast.Name) and isinstance(n.ctx, (ast.Store, ast.Del)):
            stores.setdefault(n.id, []).append(n)
    attr_stores = {n.attr for n in ast.walk(fn) if isinstance(n, ast.Attribute) and isinstance(n.ctx, (ast.Store, ast.Del))}
    params = {a.arg for a in fn.args.posonlyargs + fn.args.args + fn.args.kwonlyargs}
    for i, st in enumerate(list(fn.body)):
        if not (isinstance(st, ast.Assign) and len(st.targets) == 1 and isinstance(st.targets[0], ast.Name)):
            continue
        v = st.targets[0].id
        if len(stores.get(v, [])) != 1 or v in params:
            continue
        e, chain_ok = st.value, True
        while isinstance(e, ast.Attribute):
            chain_ok = chain_ok and e.attr not in attr_stores
            e = e.value
        if not (chain_ok and isinstance(e, ast.Name) and e.id not in stores):
            continue
        nested = {x.id for n in ast.walk(fn) if isinstance(n, FUNC + (ast.Lambda,)) and n is not fn for x in ast.walk(n) if isinstance(x, ast.Name)}
        if v in nested:
            continue
        for later in fn.body[i + 1:]:
            for u in [x for x in ast.walk(later) if isinstance(x, ast.Name) and x.id == v and isinstance(x.ctx, ast.Load)]:
                N._replace_node(fn, u, N._clone(st.value))
        fn.body[i] = ast.copy_location(ast.Pass(), st)
        done += 1
    return done


def specialise(fi, facts):
    """fi: FuncInfo.  Returns (function node, notes) or (None, reason)."""
    fnode = fi.node
    for n in ast.walk(fnode):
        if isinstance(n, (ast.Attribute, ast.Name)) and isinstance(n.ctx, (ast.Store, ast.Del)) and src(n) in facts:
            return None, f"{src(n)} is rebound inside {fi.fq}"
    fn = N._clone(fnode)
    fn = _FoldExpr(facts).generic_visit(fn)
    fn.body = _block(fn.body, facts) or [ast.Pass()]
    n_copy = _copy_propagate(fn)
    fn.body = [s for s in fn.body if not isinstance(s, ast.Pass)] or [ast.Pass()]
    cls = next((p for p in [getattr(fnode, "_parent", None)] if isinstance(p, ast.ClassDef)), None)
    unstable = set()
    if cls is not None:
        for m in cls.body:
            if isinstance(m, FUNC) and m.name != "__init__":
                unstable |= {x.attr for x in ast.walk(m) if isinstance(x, ast.Attribute) and isinstance(x.ctx, (ast.Store, ast.Del)) and isinstance(x.value, ast.Name) and x.value.id == "self"}
    n_val = N._named_values(fn, unstable)
    n_comp = N._loops_to_comprehensions(fn)
    ast.fix_missing_locations(fn)
    # positions and parent links of the specialised copy (its own document order)
    k = [0]
    for n in ast.walk(fn):
        pass
    SHARED = (ast.expr_context, ast.boolop, ast.operator, ast.unaryop, ast.cmpop)

    def number(n):
        if isinstance(n, SHARED):
            return
        k[0] += 1
        n._pos = (k[0], 0)
        for c in ast.iter_child_nodes(n):
            if not isinstance(c, SHARED):
                c._parent = n
            number(c)
    number(fn)
    fn._parent = getattr(fnode, "_parent", None)
    return fn, {"facts": dict(facts), "copy_propagated": n_copy, "named_values": n_val, "comprehensions": n_comp}
