"""C10 — a dictionary behaves as a finite map under any sequence of operations.

Structural clauses decided: each evaluation of a dictionary literal yields a fresh dictionary; the three
documented operations (Join from either side, Drop) update the very dictionary object in place and
return it, and nothing else mutates a dictionary; the dictionary arm of each verb is not pre-empted by a
value-dependent early return; a key reaches the lookup unconverted; Find maps a missing key to the
undefined marker; Each visits items() once.  Map behaviour over histories is NOT decided.
"""
import ast

from ..model import AnalysisError, src, callee_name, dotted, walk_local, calls_in, FUNC, names_in, pos
from ..flow import atoms_at, path_conditions, split_conj, always_exits
from ..callgraph import CallGraph
from .. import fresh
from ..common import ancestors, resolve_single_assign
from ..selftest import Seed
from . import c04

META = {
    "technique": "who-may-mutate via ownership analysis, in-situ update shape, guard-order (dominance) of the dictionary arms, def-use of keys, thunk shape of literals, value-independence of the arm guards",
    "level_text": "Static proof over all in-place write sites that only Join/Drop mutate a dictionary (and do so on the operand object itself, which is what makes aliases see updates), that dictionary arms are reached for every key value, that keys are not converted on the way to the lookup, and that literals are copied per evaluation. These are the two-step/alias mechanisms single-step tests cannot observe; map semantics over histories is not decided.",
    "level_note": "decides the structural clause below from source; does not decide the behaviour. Trusted: Python dict semantics; API facts of sa/fresh.py; `is_dict`/`isinstance(x, dict)` are the dictionary tests.",
    "explanation": (
        "Static analysis of klongpy/dyads.py, monads.py, adverbs.py, parser.py, writer.py: the dictionary arms of Join, Drop, Find, At, Each, "
        "Size are located by their dict tests; for the in-situ arms the store/del targets the parameter and the parameter itself is returned; "
        "every other in-place sink found by the freshness analysis must not sit under a dict test; every return that precedes a dictionary "
        "arm must be guarded by a type test that excludes dictionaries; key expressions are parameters (or constant elements of them) that "
        "are not reassigned on the way; the literal reader wraps the parse-time dict in a copying thunk (shared with C04-R3)."
        " R7: the guards of the in-situ dictionary arms test only kind and length of the operands, never the key or payload."),
    "assumptions": ["dict.get returns None for a missing key; a stored None value is indistinguishable (Klong has no None values)"],
}

TYPE_TESTS = {"isinstance", "is_list", "is_iterable", "is_empty", "isarray", "is_array", "is_char", "is_number", "is_integer", "is_float", "callable", "issubclass", "hasattr"}


def _is_dict_test(e, params):
    if isinstance(e, ast.Call) and e.args and isinstance(e.args[0], ast.Name) and e.args[0].id in params:
        if callee_name(e) == "is_dict" or (callee_name(e) == "isinstance" and len(e.args) == 2 and src(e.args[1]) == "dict"):
            return e.args[0].id
    return None


def _dict_tests(fnode, params):
    """[(arm, param)] for the code that runs when a parameter is a dictionary, however the test is spelled:
    `if is_dict(p): ARM`, `if not is_dict(p): ... else: ARM`, or `if not is_dict(p): <leaves>` followed by ARM.
    arm is an ast.If-like node (test, body) so that callers can keep treating it as the `if` statement of the arm."""
    out = []
    for n in walk_local(fnode):
        if not isinstance(n, ast.If):
            continue
        for e, pol in split_conj(n.test, True):
            p = _is_dict_test(e, params)
            if p and pol:
                out.append((n, p))
        # negative spelling: the whole test is `not <dict test>`
        neg = split_conj(n.test, False)
        if len(neg) == 1 and neg[0][1] and _is_dict_test(neg[0][0], params):
            p = _is_dict_test(neg[0][0], params)
            body = None
            if n.orelse:
                body = n.orelse
            elif always_exits(n.body):
                blk = getattr(n, "_parent", None)
                for fld in ("body", "orelse", "finalbody"):
                    lst = getattr(blk, fld, None)
                    if isinstance(lst, list) and n in lst:
                        body = lst[lst.index(n) + 1:]
            if body:
                arm = ast.copy_location(ast.If(test=neg[0][0], body=body, orelse=[]), body[0])
                arm._parent = getattr(n, "_parent", None)
                out.append((arm, p))
    return out


def _excludes_dict(node, p, fnode):
    """some condition holding at node is a type test on p that a dictionary cannot satisfy / a negated dict test"""
    for e, pol in atoms_at(node, fnode):
        if not isinstance(e, ast.Call) or not e.args:
            continue
        cn = callee_name(e)
        a0 = src(e.args[0])
        if a0 != p:
            continue
        if cn in ("is_dict",) and not pol:
            return True
        if cn == "isinstance" and len(e.args) == 2:
            if "dict" in src(e.args[1]):
                if not pol:
                    return True
                continue
            if pol:
                return True
        if cn in ("is_list", "is_iterable", "isarray", "is_array", "is_char", "is_number", "is_integer", "is_float", "is_empty") and pol:
            return True
    return False


def _unchanged_before(fnode, name, use):
    """no store to `name` can reach `use` (stores inside blocks that always leave the function are ignored)"""
    upos = pos(use)
    for n in walk_local(fnode):
        if isinstance(n, ast.Name) and n.id == name and isinstance(n.ctx, (ast.Store, ast.Del)) and pos(n) < upos:
            st = n
            while not isinstance(st, ast.stmt):
                st = st._parent
            # the statement sits in a block that always exits before reaching `use`?
            dead = False
            child, p = st, st._parent
            while p is not None and p is not fnode:
                for fld in ("body", "orelse", "finalbody"):
                    lst = getattr(p, fld, None)
                    if isinstance(lst, list) and child in lst:
                        if always_exits(lst[lst.index(child):]) and not any(use in list(ast.walk(s)) for s in lst):
                            dead = True
                child, p = p, p._parent
            if isinstance(p, ast.AST) and p is fnode:
                lst = fnode.body
                if child in lst and always_exits([child]) and use not in list(ast.walk(child)):
                    dead = True
            if not dead:
                return False, n
    return True, None


def check(ctx):
    repo = ctx.repo
    cg = CallGraph(repo)
    ctx.rule("C10-R1", "each evaluation of a dictionary literal yields a fresh dictionary (parse-time dict only inside a copying thunk; shared with C04-R3)")
    ctx.rule("C10-R2", "WHO-MAY(dict mutation): Join (both operand orders) and Drop update the operand dictionary itself in place and return that same object; no other in-place write sits under a dict test")
    ctx.rule("C10-R3", "Find on a dictionary: .get(key), None -> the undefined marker, otherwise the stored value")
    ctx.rule("C10-R4", "arm order: no return precedes a dictionary arm unless a type test on the same operand excludes dictionaries")
    ctx.rule("C10-R5", "a key reaches the dictionary lookup/update as the operand (or its constant element), never reassigned or converted on the way")
    ctx.rule("C10-R7", "value independence of the arm choice: the guards of the in-situ dictionary arms test only the kind and length of the operands, never the key or payload")
    ctx.rule("C10-R8", "failure atomicity of the in-situ update: in each dictionary arm the dictionary is changed by one statement, and no element of the other operand is read after that statement (a Join that raises leaves the dictionary as it was)")
    ctx.rule("C10-R6", "Each over a dictionary iterates items() once and applies the verb once per pair; Size is len()")

    c04.check_dict_literal(ctx, repo, "C10-R1")
    ctx.rule("C10-R9", "assignment binds the dictionary object itself (klong[name] = v stores v, not a copy): every alias of a dictionary sees its in-situ updates (shared with C09-R4)")
    from . import c09 as _c09
    _c09.check_assignment_stores_the_object(ctx, repo, "C10-R9")

    dy = repo.module("dyads")
    join, drop, find = repo.fn("dyads:eval_dyad_join"), repo.fn("dyads:eval_dyad_drop"), repo.fn("dyads:eval_dyad_find")
    at, each, size = repo.fn("dyads:eval_dyad_at_index"), repo.fn("adverbs:eval_adverb_each"), repo.fn("monads:eval_monad_size")

    # ---- R2 in-situ arms
    insitu = []
    for f in (join, drop):
        for ifn, p in _dict_tests(f.node, set(f.params())):
            insitu.append((f, ifn, p))
    ctx.floor("C10-R2", "in-situ dictionary arms (Join x2, Drop)", len(insitu), 3)
    for f, ifn, p in insitu:
        ctx.instance("C10-R2", f.fq, f"dict arm on {p}")
        muts = []
        for n in ifn.body:
            for x in walk_local(n):
                if isinstance(x, ast.Subscript) and isinstance(x.ctx, (ast.Store, ast.Del)) and isinstance(x.value, ast.Name) and x.value.id == p:
                    muts.append(x)
        ctx.ob("C10-R2", f.fq, f"the dictionary operand `{p}` is updated in place (store/del on {p} itself)", len(muts) == 1, node=ifn,
               construct=f"in-situ update of {p}", msg=f"the dictionary arm no longer updates `{p}` in place: aliases of the dictionary (other variables, function parameters) do not see the update")
        # R8: the update is one step - everything that can fail on the other operand is read before the dictionary is first changed
        from ..model import enclosing_stmt
        mut_stmts = []
        for n in ifn.body:
            for x in walk_local(n):
                is_mut = (isinstance(x, ast.Subscript) and isinstance(x.ctx, (ast.Store, ast.Del)) and isinstance(x.value, ast.Name) and x.value.id == p) or \
                    (isinstance(x, ast.Call) and isinstance(x.func, ast.Attribute) and isinstance(x.func.value, ast.Name) and x.func.value.id == p and
                     x.func.attr in ("pop", "popitem", "clear", "update", "setdefault", "__setitem__", "__delitem__"))
                if is_mut:
                    st_ = enclosing_stmt(x)
                    if st_ not in mut_stmts:
                        mut_stmts.append(st_)
        if mut_stmts:
            first = min(mut_stmts, key=pos)
            late = [x for n in ifn.body for x in walk_local(n) if isinstance(x, ast.Subscript) and isinstance(x.ctx, ast.Load) and isinstance(x.value, ast.Name) and
                    x.value.id in set(f.params()) - {p} and pos(enclosing_stmt(x)) > pos(first)]
            ctx.ob("C10-R8", f.fq, f"the dictionary `{p}` is changed in ONE statement and nothing of the other operand is read after it", len(mut_stmts) == 1 and not late,
                   node=(late[0] if late else first), construct=f"dictionary {p} changed before the tuple has been read completely",
                   msg=f"the arm changes `{p}` in {len(mut_stmts)} statement(s) and reads `{src(late[0]) if late else ''}` of the other operand afterwards: a malformed tuple (one element) raises IndexError "
                       "after the old entry is already gone - a rejected Join has changed the dictionary")
        # the arm is chosen by the kind and shape of the operands only, never by what the key or the payload is
        params = set(f.params())
        peek = []
        for x in ast.walk(ifn.test):
            if isinstance(x, ast.Subscript) and isinstance(x.value, ast.Name) and x.value.id in params:
                peek.append(x)
            elif isinstance(x, (ast.GeneratorExp, ast.ListComp, ast.SetComp)) and any(isinstance(g.iter, ast.Name) and g.iter.id in params for g in x.generators):
                peek.append(x)
        ctx.ob("C10-R7", f.fq, f"the guard of the dictionary arm on `{p}` does not inspect the key or the payload", not peek, node=peek[0] if peek else ifn,
               construct=f"dict arm on {p} depends on the tuple's contents",
               msg=f"the dictionary arm is taken only for some keys/payloads (`{src(peek[0])[:50] if peek else ''}` in its guard): for the others `[k v],d` builds a plain list, d is not updated and d?k stays undefined")
        rets = [x for n in ifn.body for x in walk_local(n) if isinstance(x, ast.Return)]
        ok = bool(rets) and all(isinstance(r.value, ast.Name) and r.value.id == p for r in rets) and always_exits(ifn.body)
        ctx.ob("C10-R2", f.fq, f"the arm returns the operand dictionary `{p}` itself", ok, node=ifn, construct=f"returns {p} itself",
               msg="the dictionary arm returns a different object than the one it was given")
        # R5 for these arms: key expressions
        for m in muts:
            k = m.slice
            base = k.value if isinstance(k, ast.Subscript) else k
            okk = isinstance(base, ast.Name) and base.id in f.params() and base.id != p and (not isinstance(k, ast.Subscript) or isinstance(k.slice, ast.Constant))
            same, st = _unchanged_before(f.node, base.id, m) if okk else (False, None)
            ctx.ob("C10-R5", f.fq, f"the key `{src(k)}` is the operand (element) unchanged", okk and same, node=m, construct=f"key of in-situ update on {p}",
                   msg=f"the key used for the dictionary update is `{src(k)}`" + (f", and `{base.id}` is reassigned at line {st.lineno} before" if st is not None else ""))
            if isinstance(m.ctx, ast.Store):
                v = m._parent.value if isinstance(m._parent, ast.Assign) else None
                okv = isinstance(v, ast.Subscript) and isinstance(v.value, ast.Name) and v.value.id == base.id and isinstance(v.slice, ast.Constant) and \
                    isinstance(k, ast.Subscript) and {k.slice.value, v.slice.value} == {0, 1} and k.slice.value == 0
                ctx.ob("C10-R5", f.fq, "the pair is stored as d[pair[0]] = pair[1]", okv, node=m, construct=f"key/value of pair into {p}")
    # no other in-place write under a dict test
    summ = fresh.compute_summaries(repo, cg, c04.SUMMARY_MODULES)
    n_other = 0
    for mod in ("dyads", "monads", "adverbs", "writer", "types"):
        for f in repo.all_funcs((mod,)):
            if f.parent is not None:
                continue
            for fa in fresh.analyse_function(f, cg, summ):
                for node, obj, fr, kind in fa.sinks:
                    if fr in ("state", fresh.FRESH):
                        continue
                    n_other += 1
                    top = fa.fi.fq.split(".<lambda>")[0]
                    if (top, src(obj)) in c04.DOC_INSITU:
                        continue
                    if c04._is_dict_guarded(node, obj, fa.fi.node):
                        ctx.ob("C10-R2", fa.fi.fq, "no dictionary mutation outside Join/Drop", False, node=node, construct=f"{kind} on dict {src(obj)}",
                               msg=f"{fa.fi.name} mutates a dictionary operand in place ({kind}); only Join and Drop may")
    ctx.control("C10-R2", f"in-place writes on shared values are recognised ({n_other} sites incl. the documented three)", n_other >= 3)
    # Find / At / Each / Size / writer never call mutating dict methods on their operands
    for f in (find, at, each, size, repo.fn("writer:kg_write_dict")):
        ctx.instance("C10-R2", f.fq, "read-only")
        bad = [c for c in calls_in(f.node) if isinstance(c.func, ast.Attribute) and c.func.attr in ("setdefault", "pop", "popitem", "update", "clear", "__setitem__", "__delitem__")
               and isinstance(c.func.value, ast.Name) and c.func.value.id in f.params()]
        ctx.ob("C10-R2", f.fq, "read-only dictionary access (no setdefault/pop/popitem/update/clear on the operand)", not bad, node=(bad[0] if bad else f.node),
               construct="read-only dict access", msg=f"{f.name} calls a mutating dict method on its operand: a lookup changes the dictionary")

    # ---- R3 Find
    ctx.instance("C10-R3", find.fq)
    arms = _dict_tests(find.node, set(find.params()))
    ok = len(arms) == 1
    if ok:
        ifn, p = arms[0]
        gets = [c for n in ifn.body for c in calls_in(n) if isinstance(c.func, ast.Attribute) and c.func.attr == "get" and isinstance(c.func.value, ast.Name) and c.func.value.id == p]
        ok = len(gets) == 1 and len(gets[0].args) == 1 and isinstance(gets[0].args[0], ast.Name) and gets[0].args[0].id in find.params()
        shape = False
        if ok:
            from ..flow import return_alts
            vname = gets[0]._parent.targets[0].id if isinstance(gets[0]._parent, ast.Assign) and isinstance(gets[0]._parent.targets[0], ast.Name) else None
            inside = {id(x) for n in ifn.body for x in ast.walk(n)}
            alts = [(facts, v) for facts, v, r in return_alts(find.node) if id(r) in inside]

            def none_pol(facts):
                for e, pol in facts:
                    if isinstance(e, ast.Compare) and len(e.ops) == 1 and src(e.left) == vname and isinstance(e.comparators[0], ast.Constant) and e.comparators[0].value is None:
                        if isinstance(e.ops[0], ast.Is):
                            return pol
                        if isinstance(e.ops[0], ast.IsNot):
                            return not pol
                return None
            shape = vname is not None and len(alts) == 2 and {none_pol(f_) for f_, _v in alts} == {True, False} and all(
                (v is not None and src(v) == "KLONG_UNDEFINED") if none_pol(f_) else (isinstance(v, ast.Name) and v.id == vname) for f_, v in alts)
        ctx.ob("C10-R3", find.fq, "dictionary Find is `v = d.get(key); KLONG_UNDEFINED if v is None else v`", ok and shape, node=ifn, construct="find: missing key -> undefined",
               msg="the dictionary arm of Find no longer maps a missing key to :undefined (or converts the key / value)")
        if ok:
            same, st = _unchanged_before(find.node, gets[0].args[0].id, gets[0])
            ctx.ob("C10-R5", find.fq, "the key passed to .get is the operand unchanged", same, node=gets[0], construct="find key unchanged")
    else:
        ctx.ob("C10-R3", find.fq, "Find has exactly one dictionary arm", False, node=find.node, construct="find dict arm")

    # ---- R4 arm order
    for f in (join, drop, find, each):
        for ifn, p in _dict_tests(f.node, set(f.params())):
            ctx.instance("C10-R4", f.fq, f"dict arm on {p}")
            pre = [r for r in walk_local(f.node) if isinstance(r, ast.Return) and pos(r) < pos(ifn)]
            for r in pre:
                # a return inside another dictionary arm of the same verb is itself a dictionary operation
                in_dict_arm = any(pol and isinstance(e, ast.Call) and e.args and (callee_name(e) == "is_dict" or (callee_name(e) == "isinstance" and len(e.args) == 2 and src(e.args[1]) == "dict"))
                                  for e, pol in atoms_at(r, f.node))
                ok = _excludes_dict(r, p, f.node) or in_dict_arm
                ctx.ob("C10-R4", f.fq, f"return at an earlier arm is guarded by a type test on `{p}` that excludes dictionaries", ok, node=r,
                       construct=f"early return before dict arm on {p}: {src(r)[:50]}",
                       msg=f"a return reachable with a dictionary `{p}` precedes the dictionary arm (its guard depends on values, not on the operand's type): for some keys/operands the dictionary operation is skipped")
    # ---- R5 At: the index expression used on the container is the operand unchanged
    ctx.instance("C10-R5", at.fq)
    aparams = at.params()
    cont, key = aparams[1], aparams[2]
    subs = [n for n in walk_local(at.node) if isinstance(n, ast.Subscript) and isinstance(n.ctx, ast.Load) and isinstance(n.value, ast.Name) and n.value.id == cont]
    ctx.floor("C10-R5", "container index sites in At", len(subs), 2)
    for s in subs:
        if isinstance(s.slice, ast.Name) and s.slice.id == key:
            same, st = _unchanged_before(at.node, key, s)
            ctx.ob("C10-R5", at.fq, f"`{cont}[{key}]` uses the index operand as given", same, node=s, construct=f"{cont}[{key}] key unchanged",
                   msg=f"the index operand `{key}` is modified at line {st.lineno if st else '?'} before `{cont}[{key}]`: for a dictionary the key that is looked up is no longer the key that was given")
    # ---- R6 Each / Size
    ctx.instance("C10-R6", each.fq)
    for ifn, p in _dict_tests(each.node, set(each.params())) or []:
        its = [c for n in ifn.body for c in calls_in(n) if isinstance(c.func, ast.Attribute) and c.func.attr == "items" and isinstance(c.func.value, ast.Name) and c.func.value.id == p]
        fname = each.params()[0]
        # the one pass over items(): a comprehension or a for loop whose iterable is that items() call
        passes = []
        for n in ifn.body:
            for c in walk_local(n):
                if isinstance(c, (ast.ListComp, ast.GeneratorExp)) and its and c.generators[0].iter is its[0] and len(c.generators) == 1:
                    passes.append(([c.elt], bool(c.generators[0].ifs)))
                elif isinstance(c, ast.For) and its and c.iter is its[0]:
                    filtered = any(isinstance(x, (ast.If, ast.Break, ast.Continue, ast.Return)) for b in c.body for x in walk_local(b)) or bool(c.orelse)
                    passes.append((c.body, filtered))
        ok = len(its) == 1 and len(passes) == 1 and not passes[0][1] and \
            sum(1 for b in passes[0][0] for c in ast.walk(b) if isinstance(c, ast.Call) and isinstance(c.func, ast.Name) and c.func.id == fname) == 1
        ctx.ob("C10-R6", each.fq, "Each over a dictionary: one unfiltered pass over items(), one verb application per pair", ok, node=ifn, construct="each over dict visits every pair once")
    if not _dict_tests(each.node, set(each.params())):
        ctx.ob("C10-R6", each.fq, "Each has a dictionary arm", False, node=each.node, construct="each dict arm")
    ctx.instance("C10-R6", size.fq)
    from ..flow import return_alts as _ralts
    # the result for an operand that is neither a number nor a character: the alternative reached when every type test has failed
    default = [v for facts, v, _r in _ralts(size.node) if not any(pol for _t, pol in facts)]
    ok = len(default) == 1 and isinstance(default[0], ast.Call) and callee_name(default[0]) == "len" and len(default[0].args) == 1 and src(default[0].args[0]) == size.params()[0]
    ctx.ob("C10-R6", size.fq, "Size of a non-number, non-character operand is len(operand)", ok, node=size.node, construct="size is len")


# functions whose mechanical mutants are swept in the thorough tier (coverage evidence, see sa/mutate.py)
MUTATION_SCOPE = ['dyads:eval_dyad_join',
                  'dyads:eval_dyad_drop',
                  'dyads:eval_dyad_find',
                  'dyads:eval_dyad_at_index',
                  'adverbs:eval_adverb_each',
                  'monads:eval_monad_size',
                  'parser:kg_read',
                  'parser:list_to_dict']

SEEDS = [
    Seed("join-pops-before-reading-payload", "fault", "dyads", "    if isinstance(a,dict):\n        a[b[0]] = b[1]", "    if isinstance(a,dict):\n        a.pop(b[0], None)\n        a[b[0]] = b[1]", rule="C10-R8"),
    Seed("left-join-skips-dict-payload", "fault", "dyads", "    if isinstance(b,dict) and is_list(a) and len(a) == 2:", "    if isinstance(b,dict) and is_list(a) and len(a) == 2 and not any(isinstance(q,dict) for q in a):", rule="C10-R7"),
    Seed("left-join-string-keys-only", "fault", "dyads", "    if isinstance(b,dict) and is_list(a) and len(a) == 2:", "    if isinstance(b,dict) and is_list(a) and len(a) == 2 and not is_list(a[0]):", rule="C10-R7"),
    Seed("literal-not-copied", "fault", "parser", "copy_lambda = KGLambda(lambda x: copy.deepcopy(x))", "copy_lambda = KGLambda(lambda x: x)", rule="C10-R1"),
    Seed("left-join-not-in-situ", "fault", "dyads", "        b[a[0]] = a[1]\n        return b", "        return {**b, a[0]: a[1]}", rule="C10-R2"),
    Seed("right-join-returns-copy", "fault", "dyads", "        a[b[0]] = b[1]\n        return a", "        a[b[0]] = b[1]\n        return dict(a)", rule="C10-R2"),
    Seed("find-setdefault", "fault", "dyads", "        v = a.get(b)\n        return KLONG_UNDEFINED if v is None else v", "        v = a.setdefault(b, None)\n        return KLONG_UNDEFINED if v is None else v", rule="C10-R2"),
    Seed("each-popitem", "fault", "adverbs", "        r = [f(backend.kg_asarray(x)) for x in a.items()]", "        r = []\n        while a:\n            r.append(f(backend.kg_asarray(a.popitem())))", rule="C10-R2"),
    Seed("find-missing-raises", "fault", "dyads", "        v = a.get(b)\n        return KLONG_UNDEFINED if v is None else v", "        return a[b]", rule="C10-R3"),
    Seed("drop-zero-fast-path", "fault", "dyads", "    if is_dict(b):\n        try:\n            del b[a]", "    if a == 0:\n        return b\n    if is_dict(b):\n        try:\n            del b[a]", rule="C10-R4"),
    Seed("at-negative-index-normalised", "fault", "dyads", "    elif backend.is_integer(b):\n        r = a[b]", "    elif backend.is_integer(b):\n        if b < 0:\n            b += len(a)\n        r = a[b]", rule="C10-R5"),
    Seed("join-key-converted", "fault", "dyads", "    if isinstance(a,dict):\n        a[b[0]] = b[1]", "    if isinstance(a,dict):\n        b = [str(b[0]), b[1]]\n        a[b[0]] = b[1]", rule="C10-R5"),
    Seed("each-skips-falsy-keys", "fault", "adverbs", "        r = [f(backend.kg_asarray(x)) for x in a.items()]", "        r = [f(backend.kg_asarray(x)) for x in a.items() if x[0]]", rule="C10-R6"),
    Seed("refactor-drop-pop", "refactor", "dyads", "    if is_dict(b):\n        try:\n            del b[a] # biased towards presence perf\n        except KeyError:\n            pass\n        return b",
         "    if isinstance(b, dict):\n        try:\n            del b[a]\n        except KeyError:\n            pass\n        return b"),
    Seed("refactor-find-names", "refactor", "dyads", "        v = a.get(b)\n        return KLONG_UNDEFINED if v is None else v", "        found = a.get(b)\n        return KLONG_UNDEFINED if found is None else found"),
]
