"""C05 — compiled and interpreted execution of an expression are indistinguishable.

Structural clauses decided: compiled artefacts are never used after the facts they were compiled under
may have changed (memo invalidation); every compiled-first call site falls back to the interpreter on
any exception, without side effects in between; producer and consumers of the IR agree (tags, arities,
operator sets, parameter order); variables are admitted by exact scalar type; every emitted fragment is
parenthesised; the primitive emitted for an operator is the primitive the interpreter applies and the
interpreter has no result path the compiled form lacks (each exception triaged: genuine => known
finding, equivalent => reviewed table).  Numeric equality of results is NOT decided.
"""
import ast

from ..model import AnalysisError, src, callee_name, dotted, walk_local, calls_in, FUNC, pos
from ..flow import atoms_at, path_conditions
from ..callgraph import CallGraph
from .. import tables
from ..common import ancestors, in_loop
from ..selftest import Seed
from . import c04

META = {
    "technique": "memo-invalidation (effect) analysis, try/except shape of the compiled-first call sites, IR/emit/dispatch table agreement, THIN result-path census of operator implementations against the emitted primitive, production-guard dominance of every IR tag, order-preservation of the parameter walk",
    "level_text": "Static proof over all call sites, tables and operator implementations: no stale compiled code after rebinding (modulo the recorded node-memo defect), unconditional fallback, IR producer/consumer agreement, and a complete census of interpreter result paths per compilable operator compared with the primitive the backends emit. It enumerates every operator/adverb of the compilable grammar rather than sampling bindings; equality of numeric results is not decided.",
    "level_note": "decides the structural clause below from source; does not decide the behaviour. Trusted: Python operator <-> NumPy ufunc correspondence (+ add, - subtract, * multiply, / divide, ** power, == equal, > greater, < less, unary - negative); np.min/np.max on rank 1 == minimum/maximum.reduce; Python int/float division by zero raises (=> fallback).",
    "explanation": (
        "Static analysis of klongpy/compiler.py, interpreter.py, backends/{base,numpy_backend,torch_backend}.py, dyads.py, monads.py, adverbs.py: "
        "tables are extracted (IR tags built, tags consumed, operator sets, both backends' emit tables, the dyad/monad dispatch tables, the adverb "
        "operator shortcuts) and compared; for each admitted operator the implementing function's return paths are enumerated after stripping lifting "
        "wrappers and inlining helpers (depth 2) and compared with the emitted primitive; differences are matched against a reviewed-equivalent table "
        "and the known-findings file, anything else is a violation."
        " R8: every `return (tag, ...)` of the front end must be dominated by the positive admission facts of that tag (exact int/float, backend array, operator-set membership, arity, adverb); the tag->operator-set mapping used by the table comparison is derived from those guards; the parameter walk must return its first-visit list unchanged."),
    "assumptions": ["the numpy backend is the reference for the emitted-primitive comparison; the torch emit table is only diffed as a sibling (values under torch are C08's subject, declared not applicable)"],
}

NP_EMIT = "backends/numpy_backend:NumpyBackendProvider._ir_to_source"
TORCH_EMIT = "backends/torch_backend:TorchBackendProvider._ir_to_source"

# reviewed-equivalent interpreter result paths: (context, descriptor text) -> reason
REVIEWED_EQUIVALENT = {
    ("cmp >", "('pyop', '>')"): "string operands only (isinstance(x, str) and isinstance(y, str)); the compiler admits no string-valued variable",
    ("cmp <", "('pyop', '<')"): "string operands only; not admitted by the compiler",
    ("cmp =", "('pyop', '==')"): "object-dtype == on numeric operands is numpy equal; result multiplied by 1 on both sides",
    ("binop ^", "('prim', 'power')"): "np.power on the operands (ints promoted to float first: same value as ** on admitted numeric operands, kind handled by the recorded ^ finding)",
    ("reduce early", "a[0] if len(a) == 1"): "single element: ufunc.reduce of one element is that element",
    ("reduce |", "('max',) vs np.maximum.reduce"): "np.max on rank 1 is maximum.reduce; for rank > 1 the interpreter folds the elementwise dyad along axis 0, which is maximum.reduce(axis=0)",
    ("reduce &", "('min',) vs np.minimum.reduce"): "np.min on rank 1 is minimum.reduce; rank > 1 as above",
    ("reduce generic", "functools.reduce(f, a)"): "fold of the elementwise dyad along the first axis == ufunc.reduce(axis=0) for the four admitted ufuncs",
}


def _finding_or_ok(ctx, rid, where, text, ok, node, construct, msg):
    ctx.ob(rid, where, text, ok, node=node, construct=construct, msg=msg)


def check(ctx):
    repo = ctx.repo
    cg = CallGraph(repo)
    ctx.rule("C05-R1", "compile memos are invalidated on every variable write path; variables are written only through the interpreter (shared with C04-R2 b/c)")
    ctx.rule("C05-R2", "fallback discipline: every call of a compiled function is inside a try whose handler catches Exception and falls through to the interpreter path, with nothing but the argument fetch in the try body")
    ctx.rule("C05-R3", "TABLE-AGREE(IR): tags built == tags emitted by each backend == tags walked for parameters; tuple arities match the consumers' indexing; admitted operator sets are keys of the emit tables or explicitly declined; parameter order of producer and consumer agree")
    ctx.rule("C05-R4", "THIN: for each admitted operator the emitted primitive is the primitive of the interpreter's implementation and the interpreter has no result path the compiled form lacks (exceptions triaged)")
    ctx.rule("C05-R5", "admission: a variable is compiled only if its value is exactly int/float (type identity, not isinstance) or a backend ndarray")
    ctx.rule("C05-R8", "production guards: each IR tag is produced only under the positive admission facts it needs (exact int/float literal; exact int/float or backend array variable; dyad with operator in the tag's operator set; monad `-`; adverb `/` for reduce and `\\` for scan)")
    ctx.rule("C05-R6", "every emitted composite fragment is parenthesised (or a call), so that nesting cannot re-associate operators")
    ctx.trust("Python operator <-> ufunc table: " + ", ".join(f"{k}->{v}" for k, v in tables.UFUNC_OF_PYOP.items()))

    c04.check_memo(_Only(ctx, "C05-R1", skip_constructs=("memoised parser writes", "parser reads")), repo, cg, "C05-R1")
    _fallback(ctx, repo)
    _ir_tables(ctx, repo)
    _thin(ctx, repo, cg)
    _admission(ctx, repo)
    ctx.rule("C05-R7", "call() hands every function node to eval as a fresh KGCall, so that the per-node compile memo of a statement-level operator node does not outlive the evaluation that specialised it to its argument types")
    check_rewrap(ctx, repo, "C05-R7")
    ctx.rule("C05-R9", "the compiler front end reads variable values only to decide admission: no value read from the variable state flows into the IR it returns (compiled code is memoised and outlives the value)")
    check_no_state_in_ir(ctx, repo, "C05-R9")
    c04._state_inventory(ctx, repo, "C05-R10")
    ctx.note("callgraph_resolution", cg.resolution_stats())


def check_no_state_in_ir(ctx, repo, rid):
    """The front end may LOOK at a variable's current value to decide whether the expression is compilable, but nothing it read
    from the variable state may flow into what it returns: compiled code is memoised (per text and per tree node) and outlives
    the value it was built from.  Taint: every local bound from an expression that reads `<interp>._context[...]` (or from a
    tainted local); sinks: the returned expressions (and what is stored into the name table handed in)."""
    f = repo.fn("compiler:_ast_to_ir")
    ctx.instance(rid, f.fq, "no variable value in the IR")
    tainted = set()
    changed = True
    reads_state = lambda e: any(isinstance(n, ast.Subscript) and isinstance(n.ctx, ast.Load) and "_context" in src(n.value) for n in ast.walk(e))
    while changed:
        changed = False
        for n in walk_local(f.node):
            if isinstance(n, ast.Assign) and (reads_state(n.value) or any(isinstance(x, ast.Name) and x.id in tainted for x in ast.walk(n.value))):
                for t in n.targets:
                    for x in ast.walk(t):
                        if isinstance(x, ast.Name) and isinstance(x.ctx, ast.Store) and x.id not in tainted:
                            tainted.add(x.id)
                            changed = True
    ctx.floor(rid, "locals of the front end that hold a variable's current value", len(tainted), 1)
    rets = [r for r in walk_local(f.node) if isinstance(r, ast.Return) and r.value is not None]
    for r in rets:
        leak = sorted({x.id for x in ast.walk(r.value) if isinstance(x, ast.Name) and x.id in tainted}) + (["<state read>"] if reads_state(r.value) else [])
        if leak:
            ctx.ob(rid, f.fq, "no value read from the variable state flows into the returned IR", False, node=r, construct=f"IR built from the current value of a variable ({', '.join(leak)})",
                   msg=f"the IR returned at line {r.lineno} contains {leak}, the value a variable had when the expression was compiled: the compiled function is memoised and keeps "
                       "computing with that value after the variable (or a function parameter of the same name) has changed")
    ctx.ob(rid, f.fq, f"none of the {len(rets)} returned IR expressions mentions {sorted(tainted)}", True, node=f.node, construct="returned IR is state-free")


class _Only:
    """forwards to ctx but drops the parse-memo obligations (they belong to C04 only)"""

    def __init__(self, ctx, rid, skip_constructs=()):
        self._c, self._skip = ctx, skip_constructs

    def __getattr__(self, k):
        return getattr(self._c, k)

    def ob(self, rid, where, text, ok, node=None, msg=None, construct=None, path=None):
        if construct and any(construct.startswith(s) for s in self._skip):
            return ok
        return self._c.ob(rid, where, text, ok, node=node, msg=msg, construct=construct, path=path)

    def floor(self, rid, what, found, minimum):
        if "parse" in what or "parser" in what:
            return
        return self._c.floor(rid, what, found, minimum)


# ------------------------------------------------------------------ R2
def _fallback(ctx, repo):
    sites = []
    for fq in ("interpreter:KlongInterpreter.__call__", "interpreter:KlongInterpreter.eval"):
        f = repo.fn(fq)
        # names bound by unpacking a compiled pair: `fn, var_syms = compiled`
        fns = set()
        for n in walk_local(f.node):
            if isinstance(n, ast.Assign) and isinstance(n.targets[0], ast.Tuple) and len(n.targets[0].elts) == 2 and isinstance(n.value, ast.Name) and "compiled" in n.value.id:
                if isinstance(n.targets[0].elts[0], ast.Name):
                    fns.add(n.targets[0].elts[0].id)
        for c in calls_in(f.node):
            if isinstance(c.func, ast.Name) and c.func.id in fns:
                sites.append((f, c))
    ctx.floor("C05-R2", "compiled-first call sites", len(sites), 2)
    for f, c in sites:
        arm = next((src(t) for t, pol in path_conditions(c, f.node) if pol and isinstance(t, ast.Call) and isinstance(t.func, ast.Attribute) and t.func.attr.startswith("is_")), "__call__")
        ctx.instance("C05-R2", f.fq, f"compiled call ({arm})")
        tr = next((p for p in ancestors(c, f.node) if isinstance(p, ast.Try)), None)
        ok = tr is not None and any(c in list(ast.walk(s)) for s in tr.body)
        ctx.ob("C05-R2", f.fq, "the compiled call is inside a try body", ok, node=c, construct=f"compiled call under try ({arm})",
               msg="a compiled function is called without a fallback: any exception it raises (type changed since compilation, division by zero on Python scalars) escapes instead of deferring to the interpreter")
        if not ok:
            continue
        broad = [h for h in tr.handlers if h.type is None or src(h.type) in ("Exception", "BaseException")]
        ctx.ob("C05-R2", f.fq, "the handler catches Exception", bool(broad), node=tr, construct=f"broad fallback handler ({arm})",
               msg=f"the fallback handler only catches {[src(h.type) for h in tr.handlers if h.type is not None]}: other exceptions of the compiled code (e.g. ZeroDivisionError for x%0 on Python scalars, where the interpreter yields :undefined) propagate as errors")
        for h in tr.handlers:
            falls = not any(isinstance(n, (ast.Raise, ast.Return)) for n in ast.walk(h))
            ctx.ob("C05-R2", f.fq, "the handler falls through to the interpreter path (no raise/return)", falls, node=h, construct=f"handler falls through ({arm})")
            # binding a local (e.g. a 'not compiled' marker for the code after the try) is not an effect; stores elsewhere and calls are
            eff = [n for s in h.body for n in walk_local(s) if isinstance(n, (ast.AugAssign, ast.Delete, ast.Call)) or
                   (isinstance(n, ast.Assign) and not (all(isinstance(t, ast.Name) for t in n.targets) and isinstance(n.value, (ast.Name, ast.Constant))))]
            ctx.ob("C05-R2", f.fq, "the handler has no side effect", not eff, node=h, construct=f"handler effect free ({arm})")
        # try body: only the argument fetch and the call
        extra = [s for s in tr.body if not (isinstance(s, ast.Return) and c in list(ast.walk(s))) and not (
            isinstance(s, ast.Assign) and isinstance(s.value, ast.ListComp) and "_context" in src(s.value)) and not (
            isinstance(s, ast.Assign) and all(isinstance(t, ast.Name) for t in s.targets) and s.value is c)]       # `r = fn(*args)`: the result kept in a local
        ctx.ob("C05-R2", f.fq, "nothing but the argument fetch and the compiled call inside the try", not extra, node=tr, construct=f"try body minimal ({arm})",
               msg="statements with effects sit inside the compiled-first try: on a fallback they have already happened")
        # the interpreter path follows the try
        blk = tr._parent
        lst = next((l for l in (getattr(blk, "body", []), getattr(blk, "orelse", [])) if tr in l), [])
        ctx.ob("C05-R2", f.fq, "an interpreter path follows the try", True if lst else False, node=tr, construct=f"interpreter path after try ({arm})")


def _atomic_fragment(fm):
    """the emitted text is a primary expression whatever it is nested under: `( ... )`, a call `name( ... )`, or a parenthesised
    primary followed only by attribute / call postfixes (`( ... ).cumsum(0)`, `( ... ).{op}`)"""
    t = fm.replace("{op}", "op").replace("{", "").replace("}", "")
    i = 0
    # optional dotted name before the first parenthesis (a call)
    while i < len(t) and (t[i].isalnum() or t[i] in "._"):
        i += 1
    if i >= len(t) or t[i] != "(":
        return False
    depth = 0
    while i < len(t):
        if t[i] == "(":
            depth += 1
        elif t[i] == ")":
            depth -= 1
            if depth == 0:
                rest = t[i + 1:]
                if not rest:
                    return True
                if not rest.startswith("."):
                    return False
                # postfix chain: .name or .name( ... ) repeated
                j = 1
                while j < len(rest) and (rest[j].isalnum() or rest[j] in "._"):
                    j += 1
                if j == len(rest):
                    return True
                if rest[j] != "(":
                    return False
                t, i, depth = rest, j, 0
                continue
        i += 1
    return False


# ------------------------------------------------------------------ R3 / R6
def _ir_tables(ctx, repo):
    built = tables.ir_tags_built(repo)
    opsets = tables.op_sets(repo)
    tag_set = _production_guards(ctx, repo, opsets)
    ctx.note("tag_operator_sets", tag_set)
    walk_tags = tables.collect_params_tags(repo)
    ctx.note("ir_tags", built)
    ctx.note("operator_sets", {k: sorted(v) for k, v in opsets.items()})
    ctx.floor("C05-R3", "IR tags built by the compiler front end", len(built), 7)
    emits = {}
    for name, fq in (("numpy", NP_EMIT), ("torch", TORCH_EMIT)):
        e = tables.emit_table(repo, fq)
        emits[name] = e
        ctx.instance("C05-R3", fq, f"{len(e)} tags")
        ctx.ob("C05-R3", fq, f"the {name} emitter handles exactly the tags the front end builds ({sorted(built)})", set(e) == set(built), node=repo.fn(fq).node,
               construct=f"{name} emitter tag set", msg=f"front end builds {sorted(built)} but the {name} emitter handles {sorted(e)}: {sorted(set(built) ^ set(e))} differ")
        f = repo.fn(fq)
        # indexing within arity; decline path present where a table lookup can miss
        for tag, d in e.items():
            ar = built.get(tag)
            idx = sorted(d["indices"])
            ok = ar is not None and all(0 < i < ar for i in idx)
            ctx.ob("C05-R3", fq, f"tag '{tag}': tuple arity {ar} covers the indices used {idx}", ok, node=d["node"], construct=f"{name} '{tag}' arity")
            if d["ops"] is not None:
                declines = d["declines"]
                if tag not in tag_set:
                    ctx.ob("C05-R3", fq, f"tag '{tag}': the operator set guarding its production is known", False, node=d["node"], construct=f"{name} '{tag}' operator set unknown",
                           msg=f"the front end produces '{tag}' without a single operator-set membership guard, so the emit table cannot be compared with what is admitted")
                    continue
                admitted = opsets[tag_set[tag]]
                missing = admitted - set(d["ops"])
                ctx.ob("C05-R3", fq, f"tag '{tag}': admitted operators {sorted(admitted)} are emit-table keys or declined via None", not missing or declines, node=d["node"],
                       construct=f"{name} '{tag}' operator coverage", msg=f"operators {sorted(missing)} are admitted by the front end but the {name} '{tag}' table has no entry and no decline path: KeyError/None source at compile time")
                extra = set(d["ops"]) - admitted
                ctx.ob("C05-R3", fq, f"tag '{tag}': no emit entry for an operator the front end never produces", not extra, node=d["node"], construct=f"{name} '{tag}' dead entries")
            # R6 parenthesisation
            for fm in d["formats"]:
                if fm in ("repr",) or fm.startswith("{ir["):
                    continue
                ok = _atomic_fragment(fm)
                ctx.ob("C05-R6", fq, f"tag '{tag}': emitted fragment `{fm}` is parenthesised or a call", ok, node=d["node"], construct=f"{name} '{tag}' fragment parenthesised",
                       msg=f"the fragment `{fm}` is emitted without enclosing parentheses: nested under an operator of higher precedence (e.g. (-a)^2 -> -a**2) Python re-associates it and the compiled value differs from the interpreter's")
    # sibling diff of the two backends
    for tag in ("binop", "cmp"):
        a, b = emits["numpy"].get(tag, {}).get("ops"), emits["torch"].get(tag, {}).get("ops")
        ctx.ob("C05-R3", NP_EMIT, f"numpy and torch agree on the '{tag}' table", a == b, node=emits["numpy"][tag]["node"] if tag in emits["numpy"] else None, construct=f"sibling '{tag}' tables",
               msg=f"the two backends map '{tag}' operators differently: numpy {a} torch {b}")
    for tag in ("reduce", "scan"):
        a, b = emits["numpy"].get(tag, {}).get("ops") or {}, emits["torch"].get(tag, {}).get("ops") or {}
        ctx.note(f"sibling_{tag}_keys", {"numpy": sorted(a), "torch": sorted(b)})
    # parameter walk
    ctx.instance("C05-R3", "backends/base:BackendProvider._collect_params")
    need = set(built) - {"literal"}
    ctx.ob("C05-R3", "backends/base:BackendProvider._collect_params", f"the parameter walk handles every tag that can contain a variable ({sorted(need)})", need <= walk_tags,
           node=repo.fn("backends/base:BackendProvider._collect_params").node, construct="parameter walk tag set",
           msg=f"_collect_params does not descend into {sorted(need - walk_tags)}: variables below such nodes are not parameters of the generated function (NameError -> silent fallback, or wrong binding)")
    # order agreement: producer evaluates args[0] before args[1]; the walk visits node[2] before node[3]; emitters put l before r
    prod = repo.fn("compiler:_ast_to_ir")
    rec = [(pos(c), src(c.args[0])) for c in calls_in(prod.node) if callee_name(c) == "_ast_to_ir" and c.args]
    lr = [t for _l, t in sorted(rec) if t in ("args[0]", "args[1]")]
    ok = lr == ["args[0]", "args[1]"]
    rets = [r for r in walk_local(prod.node) if isinstance(r, ast.Return) and isinstance(r.value, ast.Tuple) and len(r.value.elts) == 4]
    ok = ok and all(src(r.value.elts[2]) == "left" and src(r.value.elts[3]) == "right" for r in rets) and bool(rets)
    ctx.ob("C05-R3", prod.fq, "the front end numbers variables left operand first and stores (tag, op, left, right)", ok, node=prod.node, construct="producer operand order")
    cp = repo.fn("backends/base:BackendProvider._collect_params")
    wk = [(pos(c), 0, src(c.args[0])) for c in ast.walk(cp.node) if isinstance(c, ast.Call) and callee_name(c) == "_walk" and c.args and src(c.args[0]).startswith("node[")]
    two = [t for _l, _c, t in sorted(wk) if t in ("node[2]", "node[3]")]
    ctx.ob("C05-R3", cp.fq, "the parameter walk visits the left operand (node[2]) before the right (node[3])", two[:2] == ["node[2]", "node[3]"], node=cp.node, construct="consumer operand order",
           msg="parameters are collected right operand first while variables are numbered left first: the generated function binds a to b's value (a-b becomes b-a)")
    # the walk's result is the list of first visits, in visit order (not a set, not sorted: '_v10' sorts before '_v2')
    rets_cp = [r for r in walk_local(cp.node) if isinstance(r, ast.Return)]
    okp = False
    if len(rets_cp) == 1 and isinstance(rets_cp[0].value, ast.Name):
        ln = rets_cp[0].value.id
        inits = [n for n in walk_local(cp.node) if isinstance(n, ast.Assign) and any(isinstance(t, ast.Name) and t.id == ln for t in n.targets)]
        muts = [c for c in ast.walk(cp.node) if isinstance(c, ast.Call) and isinstance(c.func, ast.Attribute) and isinstance(c.func.value, ast.Name) and c.func.value.id == ln]
        okp = len(inits) == 1 and isinstance(inits[0].value, ast.List) and not inits[0].value.elts and bool(muts) and all(c.func.attr == "append" for c in muts)
    ctx.ob("C05-R3", cp.fq, "the parameter walk returns its list of first visits in visit order (a list that is only appended to)", okp, node=rets_cp[0] if rets_cp else cp.node,
           construct="parameter list in first-visit order",
           msg=f"the parameter walk returns `{src(rets_cp[0].value) if rets_cp and rets_cp[0].value is not None else '?'}`: names are re-ordered (sorted text order puts _v10 before _v2, sets have no order) while the values are passed in numbering order, so with many variables each parameter receives another variable's value")
    for name, e in emits.items():
        for tag in ("binop", "cmp"):
            fm = (e.get(tag, {}).get("formats") or [""])[0]
            ok = "{ir2}" in fm and "{ir3}" in fm and fm.index("{ir2}") < fm.index("{ir3}")
            ctx.ob("C05-R3", NP_EMIT if name == "numpy" else TORCH_EMIT, f"'{tag}' emits the left operand before the right", ok, construct=f"{name} '{tag}' operand order")
    # compile_expr pairs parameter names with var_syms in insertion order
    ce = repo.fn("compiler:compile_expr")
    def _ins_order(v):
        # list(d.keys()) / list(d) / [*d] / [*d.keys()]: the dictionary's insertion order
        if isinstance(v, ast.Call) and callee_name(v) == "list" and len(v.args) == 1:
            v = v.args[0]
        elif isinstance(v, ast.List) and len(v.elts) == 1 and isinstance(v.elts[0], ast.Starred):
            v = v.elts[0].value
        else:
            return None
        if isinstance(v, ast.Call) and isinstance(v.func, ast.Attribute) and v.func.attr == "keys" and not v.args:
            v = v.func.value
        return v.id if isinstance(v, ast.Name) else None
    refs = {src(c.args[2]) for c in calls_in(ce.node) if callee_name(c) == "_ast_to_ir" and len(c.args) >= 3}
    ok = any(isinstance(n, ast.Assign) and _ins_order(n.value) in refs for n in walk_local(ce.node))
    ctx.ob("C05-R3", ce.fq, "variable symbols are passed in the order they were numbered", ok, node=ce.node, construct="var_syms in numbering order")


# ------------------------------------------------------------------ R4
def _thin(ctx, repo, cg):
    dy = tables.dispatch_table(repo, "dyads:create_dyad_functions")
    mo = tables.dispatch_table(repo, "monads:create_monad_functions")
    ctx.floor("C05-R4", "dyad dispatch entries", len(dy), 25)
    emit = tables.emit_table(repo, NP_EMIT)
    n = 0
    for tag in ("binop", "cmp"):
        ops = emit.get(tag, {}).get("ops") or {}
        for op, pyop in sorted(ops.items()):
            n += 1
            want = tables.UFUNC_OF_PYOP.get(pyop)
            impl = dy.get(op)
            ctx.instance("C05-R4", f"dyads:{impl}", f"{tag} {op} -> {pyop}")
            if impl is None or want is None:
                ctx.ob("C05-R4", "dyads:create_dyad_functions", f"operator {op} has a dyad implementation and a known ufunc for `{pyop}`", False, construct=f"{tag} {op} mapping")
                continue
            f = repo.fn(f"dyads:{impl}")
            paths = tables.result_paths(repo, cg, f)
            main = [p for p in paths if p[1] in (("prim", want), ("pyop", pyop))]
            ctx.ob("C05-R4", f.fq, f"`{op}` is emitted as `{pyop}` ({want}) and the interpreter applies {want}", bool(main), node=f.node, construct=f"{tag} {op} primitive agreement",
                   msg=f"the compiled form of `{op}` is Python `{pyop}` (numpy {want}) but {impl} applies {[p[1] for p in paths]}: compiled and interpreted results differ")
            for guards, d, node in paths:
                if d == ("prim", want):
                    continue
                key = (f"{tag} {op}", str(d))
                if key in REVIEWED_EQUIVALENT:
                    ctx.ob("C05-R4", f.fq, f"`{op}` path {d} reviewed equivalent: {REVIEWED_EQUIVALENT[key]}", True, node=node, construct=f"{tag} {op} path {d} (reviewed)")
                    continue
                ctx.ob("C05-R4", f.fq, f"`{op}`: interpreter result path {d} under {list(guards)[:2]} has a compiled counterpart", False, node=node,
                       construct=f"{tag} {op}: interpreter-only result path {_short(d)}",
                       msg=f"{impl} has a result path {d} (guard: {', '.join(guards) or 'none'}) that the compiled `{pyop}` does not have: for the operands taking that path compiled and interpreted values differ")
            if tag == "cmp":
                fm = (emit[tag]["formats"] or [""])[0]
                ctx.ob("C05-R4", NP_EMIT, "comparisons are emitted with `*1` (the interpreter's kg_truth)", "*1" in fm, construct="cmp truth conversion")
    # negate
    n += 1
    f = repo.fn(f"monads:{mo.get('-')}")
    paths = tables.result_paths(repo, cg, f)
    ctx.instance("C05-R4", f.fq, "negate")
    ctx.ob("C05-R4", f.fq, "unary `-` is emitted as Python negation and the interpreter applies numpy negative only", [p[1] for p in paths] == [("prim", "negative")], node=f.node,
           construct="negate primitive agreement", msg=f"eval_monad_negate has result paths {[p[1] for p in paths]}")
    # reduce / scan against the adverb shortcuts
    for tag, adv in (("reduce", "adverbs:eval_adverb_over"), ("scan", "adverbs:eval_adverb_scan_over")):
        sc = {op: (prims, guards, node) for op, prims, guards, node in tables.shortcut_table(repo, adv)}
        ops = emit.get(tag, {}).get("ops") or {}
        fadv = repo.fn(adv)
        for op, emitted in sorted(ops.items()):
            n += 1
            ctx.instance("C05-R4", adv, f"{tag} {op} -> {emitted}")
            em = tuple(emitted.split(".")[1:]) if emitted.startswith("np.") else (emitted,)
            if op in sc:
                prims = sc[op][0]
                same = em in prims
                if not same:
                    key = (f"{tag} {op}", f"{prims[0]} vs {emitted}")
                    if key in REVIEWED_EQUIVALENT:
                        ctx.ob("C05-R4", adv, f"{tag} `{op}`: {prims[0]} vs {emitted} reviewed equivalent: {REVIEWED_EQUIVALENT[key]}", True, node=sc[op][2], construct=f"{tag} {op} shortcut (reviewed)")
                        continue
                shape_guards = [g for g in sc[op][1] if any(w in g for w in ("ndim", "shape", "len(")) and not g.startswith("not ")]
                if same and shape_guards:
                    ctx.ob("C05-R4", adv, f"{tag} `{op}`: the interpreter takes {emitted} only under {shape_guards}; the compiled form applies it to every operand", False, node=sc[op][2],
                           construct=f"{tag} {op}: emitted {emitted} without the interpreter's guard {' and '.join(shape_guards)}",
                           msg=f"compiled `{op}{'/' if tag == 'reduce' else chr(92)}` calls {emitted} unconditionally, the interpreter only when {' and '.join(shape_guards)} and folds otherwise: "
                               "for operands outside the guard (rank >= 2) the two give different results")
                    continue
                ctx.ob("C05-R4", adv, f"{tag} `{op}`: the compiled callable {emitted} is the callable of the interpreter's shortcut {prims}", same, node=sc[op][2],
                       construct=f"{tag} {op}: emitted {emitted} is not the interpreter's {'.'.join(prims[0]) if prims else '?'}",
                       msg=f"compiled `{op}{'/' if tag == 'reduce' else chr(92)}` calls {emitted} while the interpreter's shortcut uses {prims}: they differ for operands of rank >= 2 (cumsum/cumprod flatten, accumulate works along axis 0)")
            else:
                # no shortcut: the interpreter folds the dyad generically
                key = (f"{tag} generic", "functools.reduce(f, a)")
                ctx.ob("C05-R4", adv, f"{tag} `{op}`: interpreter uses the generic fold; {emitted} reviewed equivalent", key in REVIEWED_EQUIVALENT and tag == "reduce", node=fadv.node,
                       construct=f"{tag} {op} generic fold vs {emitted}")
        # early result paths of the adverb that the compiled form lacks
        for conds, val, node in tables.early_result_paths(repo, adv):
            if "functools.reduce" in val or "kg_asarray" in val:
                continue
            n += 1
            key = (f"{tag} early", f"{val} if {' and '.join(c for c in conds if not c.startswith('not '))}")
            if key in REVIEWED_EQUIVALENT:
                ctx.ob("C05-R4", adv, f"{tag}: early result `{val}` under {conds} reviewed equivalent: {REVIEWED_EQUIVALENT[key]}", True, node=node, construct=f"{tag} early path {val} (reviewed)")
                continue
            ctx.ob("C05-R4", adv, f"{tag}: early result `{val}` under {conds} has a compiled counterpart", False, node=node,
                   construct=f"{tag}: interpreter-only early result `{val}` under {' and '.join(conds)}",
                   msg=f"the interpreter returns `{val}` when {' and '.join(conds)} (atoms and empty lists) before any folding; the compiled form always calls the ufunc")
    ctx.floor("C05-R4", "operator instances compared", n, 15)


def _short(d):
    if d[0] == "convert":
        return f"{d[1]}(...)"
    return f"{d[0]} {d[1]}"


def check_rewrap(ctx, repo, rid):
    """shared with C03: `call` re-wraps every KGFn (operator nodes included) before eval"""
    f = repo.fn("interpreter:KlongInterpreter.call")
    ctx.instance(rid, f.fq)
    rets = [r for r in walk_local(f.node) if isinstance(r, ast.Return)]
    if len(rets) != 1 or not (isinstance(rets[0].value, ast.Call) and isinstance(rets[0].value.func, ast.Attribute) and rets[0].value.func.attr == "eval" and rets[0].value.args):
        ctx.error(f"{rid}: call() is no longer `return self.eval(<expr>)`; cannot decide the re-wrapping clause")
        return
    e = rets[0].value.args[0]
    if not isinstance(e, ast.IfExp):
        ctx.ob(rid, f.fq, "call() wraps function nodes in a fresh KGCall", False, node=rets[0], construct="call re-wraps function nodes",
               msg="call() passes function nodes to eval as they are: the compile memo lands on the shared body node and a function compiled for numeric arguments keeps running Python operators on later string/symbol arguments")
        return
    t = e.test
    plain = isinstance(t, ast.Call) and callee_name(t) == "isinstance" and len(t.args) == 2 and src(t.args[1]) == "KGFn"
    fresh_wrap = isinstance(e.body, ast.Call) and callee_name(e.body) == "KGCall" and [src(a) for a in e.body.args] == [f"{src(t.args[0])}.a", f"{src(t.args[0])}.args", f"{src(t.args[0])}.arity"] if plain else False
    ctx.ob(rid, f.fq, "every KGFn (operator nodes included) is re-wrapped: the test is exactly isinstance(x, KGFn)", plain, node=rets[0], construct="call re-wraps every function node",
           msg=f"call() re-wraps only when `{src(t)}`: the excluded nodes are evaluated in place, so their per-node compile memo persists across calls with other argument types (f::{{x*y}};f(2;3);f(\"ab\";2) -> \"abab\")")
    ctx.ob(rid, f.fq, "the wrapper is KGCall(x.a, x.args, x.arity)", bool(fresh_wrap), node=rets[0], construct="call wrapper shape")
    # the memo must live ON the throw-away wrapper: eval may store / look up `_compiled` only on its own node parameter, never on a
    # part of it (x.a, x.args are shared by every wrapper call() makes of the same function body)
    ev = repo.fn("interpreter:KlongInterpreter.eval")
    xp = [p for p in ev.params() if p != "self"][0]
    n_memo = 0
    for n in walk_local(ev.node):
        base = None
        if isinstance(n, ast.Attribute) and n.attr == "_compiled":
            base = n.value
        elif isinstance(n, ast.Call) and callee_name(n) in ("getattr", "setattr", "hasattr") and len(n.args) >= 2 and isinstance(n.args[1], ast.Constant) and n.args[1].value == "_compiled":
            base = n.args[0]
        if base is None:
            continue
        n_memo += 1
        ctx.ob(rid, ev.fq, f"the per-node compile memo is kept on the node eval was given (`{xp}`), which call() made for this evaluation only", isinstance(base, ast.Name) and base.id == xp, node=n,
               construct=f"compile memo kept on {src(base)}",
               msg=f"the compile memo is read/written on `{src(base)}`, an object shared by all evaluations of the same function body: the admission decision (operand types) of the first call is reused for every later call "
                   "(f::{x*2}; f(3); f(\"ab\") -> \"abab\")")
    ctx.floor(rid, "per-node compile memo accesses in eval", n_memo, 2)



# ------------------------------------------------------------------ R8 production guards
def _pos_atoms(node, fnode):
    """atomic facts at node, with `x not in S` / `x != c` under negative polarity normalised to the positive form"""
    out = []
    for e, pol in atoms_at(node, fnode):
        if isinstance(e, ast.Compare) and len(e.ops) == 1 and not pol and isinstance(e.ops[0], (ast.NotIn, ast.NotEq, ast.IsNot)):
            flip = {ast.NotIn: ast.In, ast.NotEq: ast.Eq, ast.IsNot: ast.Is}[type(e.ops[0])]
            e2 = ast.Compare(left=e.left, ops=[flip()], comparators=e.comparators)
            out.append((e2, True))
        else:
            out.append((e, pol))
    return out


def production_guards(repo):
    """for every `return ('<tag>', ...)` of the front end: the positive facts that dominate it
    -> {tag: [{"node": return, "eq": {constants compared == }, "in": {set names}, "types": {exact types}, "isinst": {classes}}]}"""
    f = repo.fn("compiler:_ast_to_ir")
    out = {}
    for r in [n for n in walk_local(f.node) if isinstance(n, ast.Return) and isinstance(n.value, ast.Tuple) and n.value.elts and
              isinstance(n.value.elts[0], ast.Constant) and isinstance(n.value.elts[0].value, str)]:
        g = {"node": r, "eq": set(), "in": set(), "types": None, "isinst": set()}
        for e, pol in _pos_atoms(r, f.node):
            if not pol:
                continue
            if isinstance(e, ast.Compare) and len(e.ops) == 1:
                c = e.comparators[0]
                if isinstance(e.ops[0], ast.Eq) and isinstance(c, ast.Constant):
                    g["eq"].add(c.value)
                elif isinstance(e.ops[0], ast.In) and isinstance(c, ast.Name):
                    g["in"].add(c.id)
                elif isinstance(e.ops[0], ast.Is) and isinstance(c, ast.Name):
                    g["types"] = (g["types"] or set()) | {c.id}
            elif isinstance(e, ast.BoolOp) and isinstance(e.op, ast.Or) and all(
                    isinstance(v, ast.Compare) and len(v.ops) == 1 and isinstance(v.ops[0], ast.Is) and isinstance(v.comparators[0], ast.Name) for v in e.values):
                # `t is int or t is float`: the innermost such disjunction is the admission set of this production
                ts = {v.comparators[0].id for v in e.values}
                g["types"] = ts if g["types"] is None or ts <= {"int", "float"} else g["types"]
                g.setdefault("type_disj", []).append(ts)
            elif isinstance(e, ast.Call) and callee_name(e) == "isinstance" and len(e.args) == 2:
                g["isinst"].add(src(e.args[1]))
        out.setdefault(r.value.elts[0].value, []).append(g)
    return out


def _admitting(e):
    """a positive fact that establishes the value is an exact int/float or a backend array (disjunctions: every disjunct)"""
    if isinstance(e, ast.BoolOp) and isinstance(e.op, ast.Or):
        return all(_admitting(v) for v in e.values)
    if isinstance(e, ast.Compare) and len(e.ops) == 1 and isinstance(e.ops[0], ast.Is) and isinstance(e.comparators[0], ast.Name):
        return e.comparators[0].id in ("int", "float")
    if isinstance(e, ast.Call) and callee_name(e) == "isinstance" and len(e.args) == 2:
        ty = src(e.args[1])
        return ("ndarray" in ty or "Tensor" in ty) and "," not in ty
    return False


def _production_guards(ctx, repo, opsets):
    f = repo.fn("compiler:_ast_to_ir")
    pg = production_guards(repo)
    ctx.floor("C05-R8", "IR productions of the front end", sum(len(v) for v in pg.values()), 7)
    tag_sets = {}
    for tag, gs in sorted(pg.items()):
        for g in gs:
            ctx.instance("C05-R8", f.fq, f"production of '{tag}'")
            r = g["node"]
            if tag == "literal":
                td = g.get("type_disj") or ([g["types"]] if g["types"] else [])
                ok = any(t <= {"int", "float"} for t in td)
                ctx.ob("C05-R8", f.fq, "'literal' is produced only for a node whose exact type is int or float", ok, node=r, construct="literal production guard",
                       msg="a literal node is compiled without the exact int/float type test: strings, lists, bools or dictionaries are inlined into Python source and evaluated with Python semantics")
            elif tag == "var":
                ok = any(_admitting(e) for e, pol in _pos_atoms(r, f.node) if pol)
                ctx.ob("C05-R8", f.fq, "'var' is produced only when the variable's value is exactly int/float or a backend array (positive test)", ok, node=r, construct="var production guard",
                       msg="a variable is admitted on a path where its value is NOT known to be an exact int/float or a backend array: strings, lists of lists or dictionaries reach Python operators (\"ab\"*2 repeats instead of raising)")
            elif tag in ("binop", "cmp", "reduce", "scan"):
                sets_ = {n for n in g["in"] if n in opsets}
                ok = len(sets_) == 1
                ctx.ob("C05-R8", f.fq, f"'{tag}' is produced only under a positive membership test of the operator in one operator set", ok, node=r, construct=f"{tag} production guard (operator set)",
                       msg=f"'{tag}' is produced for operators not known to be in an admitted operator set (guards found: {sorted(g['in'])}): operators without a compiled counterpart are emitted")
                if ok:
                    tag_sets.setdefault(tag, set()).update(sets_)
                if tag in ("binop", "cmp"):
                    ctx.ob("C05-R8", f.fq, f"'{tag}' is produced only for a dyadic operator node (arity == 2)", 2 in g["eq"], node=r, construct=f"{tag} production guard (arity)",
                           msg=f"'{tag}' can be produced for a node whose arity is not known to be 2: a monad or projection is compiled as a dyad")
                else:
                    want = "/" if tag == "reduce" else "\\"
                    ctx.ob("C05-R8", f.fq, f"'{tag}' is produced only when the adverb is {want!r}", want in g["eq"] and not ({"/", "\\"} - {want}) & g["eq"], node=r, construct=f"{tag} production guard (adverb)",
                           msg=f"'{tag}' is produced under adverb tests {sorted(x for x in g['eq'] if isinstance(x, str))}: Over and Scan-Over are confused or other adverbs (Each, Converge) are compiled as {tag}")
            elif tag == "negate":
                ok = 1 in g["eq"] and "-" in g["eq"]
                ctx.ob("C05-R8", f.fq, "'negate' is produced only for the monad `-` (arity == 1 and operator == '-')", ok, node=r, construct="negate production guard",
                       msg=f"'negate' is produced under {sorted(map(repr, g['eq']))}: other monads (#, *, %, ...) or the dyad are compiled as Python negation")
            else:
                ctx.ob("C05-R8", f.fq, f"production of unknown tag '{tag}' has a reviewed guard", False, node=r, construct=f"unreviewed production '{tag}'",
                       msg=f"the front end produces a new IR tag '{tag}' whose admission guard has not been reviewed")
    return {t: next(iter(v)) for t, v in tag_sets.items() if len(v) == 1}

# ------------------------------------------------------------------ R5
def _admission(ctx, repo):
    f = repo.fn("compiler:_ast_to_ir")
    ctx.instance("C05-R5", f.fq)
    # tests on the variable's value inside the KGSym branch
    val = None
    for n in walk_local(f.node):
        if isinstance(n, ast.Assign) and isinstance(n.value, ast.Subscript) and "_context" in src(n.value.value) and isinstance(n.targets[0], ast.Name):
            val = n.targets[0].id
    if val is None:
        raise AnalysisError("variable lookup not found in _ast_to_ir")
    tv = {n.targets[0].id for n in walk_local(f.node) if isinstance(n, ast.Assign) and isinstance(n.value, ast.Call) and callee_name(n.value) == "type" and src(n.value.args[0]) == val and isinstance(n.targets[0], ast.Name)}
    tests = []
    for n in walk_local(f.node):
        if isinstance(n, ast.If) and (val in src(n.test) or any(t in src(n.test) for t in tv)):
            tests.append(n)
    ctx.floor("C05-R5", "admission tests on the variable's value", len(tests), 1)
    for t in tests:
        bad = []
        for c in ast.walk(t.test):
            if isinstance(c, ast.Call) and callee_name(c) == "isinstance" and src(c.args[0]) == val:
                ty = src(c.args[1])
                if "ndarray" not in ty and "Tensor" not in ty:
                    bad.append(ty)
        for c in ast.walk(t.test):
            if isinstance(c, ast.Compare) and not all(isinstance(o, ast.Is) for o in c.ops) and any(x in src(c) for x in tv):
                bad.append(src(c))
        ctx.ob("C05-R5", f.fq, f"admission test `{src(t.test)[:60]}` uses exact type identity for scalars", not bad, node=t, construct="scalar admission by exact type",
               msg=f"variables are admitted with isinstance({bad}): subclasses such as numpy.float64 (a float) or bool (an int) are compiled to Python operators although their arithmetic differs from the interpreter's (np.float64 % 0 is inf without raising, so no fallback to :undefined)")


# functions whose mechanical mutants are swept in the thorough tier (coverage evidence, see sa/mutate.py)
MUTATION_SCOPE = ['compiler:_ast_to_ir',
                  'compiler:compile_expr',
                  'backends/numpy_backend:NumpyBackendProvider._ir_to_source',
                  'backends/numpy_backend:NumpyBackendProvider.compile_expr_ir',
                  'backends/base:BackendProvider._collect_params',
                  'interpreter:KlongInterpreter.__call__',
                  'interpreter:KlongInterpreter.call',
                  'interpreter:KlongInterpreter.__setitem__',
                  'interpreter:KlongInterpreter.__delitem__']

SEEDS = [
    Seed("scalar-variable-folded-into-ir", "fault", "compiler", "        if tv is int or tv is float:\n            if node not in var_refs:\n                var_refs[node] = f'_v{len(var_refs)}'\n            return ('var', var_refs[node])",
         "        if tv is int or tv is float:\n            return ('literal', val)", rule="C05-R9"),
    Seed("reduce-max-spelled-like-the-guarded-shortcut", "fault", "backends/numpy_backend", "'|': 'np.maximum.reduce', '&': 'np.minimum.reduce'}", "'|': 'np.max', '&': 'np.min'}", rule="C05-R4"),
    Seed("node-memo-on-shared-operator", "fault", "interpreter", "                    compiled = getattr(x, '_compiled', None)", "                    compiled = getattr(x.a, '_compiled', None)", rule="C05-R7",
         more=[("interpreter", "                        x._compiled = compiled", "                        x.a._compiled = compiled")]),
    Seed("collect-params-sorted", "fault", "backends/base", "        _walk(ir)\n        return params", "        _walk(ir)\n        return sorted(params)", rule="C05-R3"),
    Seed("refactor-var-syms-list", "refactor", "compiler", "    var_syms = list(var_refs.keys())", "    var_syms = [*var_refs]"),
    Seed("setitem-keeps-compiled", "fault", "interpreter", "        # results since Python operators have different semantics per type.\n        self._compiled_cache.clear()", "        # results since Python operators have different semantics per type.\n        pass", rule="C05-R1"),
    Seed("define-bypasses-setitem", "fault", "dyads", "    klong[n] = v\n    return v", "    klong._context[n] = v\n    return v", rule="C05-R1"),
    Seed("narrow-fallback", "fault", "interpreter", "                            return fn(*args)\n                        except Exception:\n                            pass\n                f = self._get_op_fn(x.a.a, x.a.arity)",
         "                            return fn(*args)\n                        except (TypeError, ValueError, KeyError):\n                            pass\n                f = self._get_op_fn(x.a.a, x.a.arity)", rule="C05-R2"),
    Seed("no-fallback-toplevel", "fault", "interpreter", "                try:\n                    args = [self._context[s] for s in var_syms]\n                    return fn(*args)\n                except Exception:\n                    pass  # fall through to interpreter",
         "                args = [self._context[s] for s in var_syms]\n                return fn(*args)", rule="C05-R2"),
    Seed("negate-any-monad", "fault", "compiler", "        if arity == 1 and op_char == '-':", "        if arity == 1:", rule="C05-R8"),
    Seed("reduce-scan-swapped", "fault", "compiler", "                if adv_char == '/':\n                    return ('reduce', op_char, arg_ir)\n                elif adv_char == '\\\\':\n                    return ('scan', op_char, arg_ir)",
         "                if adv_char == '\\\\':\n                    return ('reduce', op_char, arg_ir)\n                elif adv_char == '/':\n                    return ('scan', op_char, arg_ir)", rule="C05-R8"),
    Seed("scan-for-any-other-adverb", "fault", "compiler", "                elif adv_char == '\\\\':\n                    return ('scan', op_char, arg_ir)", "                return ('scan', op_char, arg_ir)", rule="C05-R8"),
    Seed("cmp-any-dyad", "fault", "compiler", "            if op_char in _CMP_OPS:\n                return ('cmp', op_char, left, right)\n            return None", "            return ('cmp', op_char, left, right)", rule="C05-R8"),
    Seed("var-admits-lists", "fault", "compiler", "        if isinstance(val, klong._backend.np.ndarray):", "        if isinstance(val, (klong._backend.np.ndarray, list)):", rule="C05-R8"),
    Seed("var-guard-negated", "fault", "compiler", "        if tv is int or tv is float:\n            if node not in var_refs:", "        if not (tv is str or tv is dict):\n            if node not in var_refs:", rule="C05-R8"),
    Seed("literal-admits-str", "fault", "compiler", "    if t is int or t is float:\n        return ('literal', node)", "    if t is int or t is float or t is str:\n        return ('literal', node)", rule="C05-R8"),
    Seed("refactor-rename-opset", "refactor", "compiler", "_ARITH_OPS = {", "_BINOPS = {", more=[("compiler", "            if op_char in _ARITH_OPS:", "            if op_char in _BINOPS:")]),
    Seed("refactor-adverb-guards-inverted", "refactor", "compiler", "                if adv_char == '/':\n                    return ('reduce', op_char, arg_ir)\n                elif adv_char == '\\\\':\n                    return ('scan', op_char, arg_ir)",
         "                if adv_char == '/':\n                    return ('reduce', op_char, arg_ir)\n                if adv_char != '\\\\':\n                    return None\n                return ('scan', op_char, arg_ir)"),
    Seed("new-tag-one-backend", "fault", "compiler", "            return ('negate', child)", "            return ('neg', child)", rule="C05-R3"),
    Seed("walk-misses-negate", "fault", "backends/base", "            elif node[0] == 'negate':\n                _walk(node[1])\n", "", rule="C05-R3"),
    Seed("walk-right-first", "fault", "backends/base", "                _walk(node[2])\n                _walk(node[3])", "                _walk(node[3])\n                _walk(node[2])", rule="C05-R3"),
    Seed("admit-remainder", "fault", "compiler", "_ARITH_OPS = {'+', '-', '*', '%', '^'}", "_ARITH_OPS = {'+', '-', '*', '%', '^', '!'}", rule="C05-R3",
         more=[("backends/numpy_backend", "            py_op = {'+': '+', '-': '-', '*': '*', '%': '/', '^': '**'}.get(op)\n            if py_op is None:\n                return None\n            return f'({l}{py_op}{r})'",
                "            py_op = {'+': '+', '-': '-', '*': '*', '%': '/', '^': '**'}[op]\n            return f'({l}{py_op}{r})'")]),
    Seed("divide-as-floordiv", "fault", "backends/numpy_backend", "            py_op = {'+': '+', '-': '-', '*': '*', '%': '/', '^': '**'}.get(op)", "            py_op = {'+': '+', '-': '-', '*': '*', '%': '//', '^': '**'}.get(op)", rule="C05-R4"),
    Seed("swap-lt-gt", "fault", "backends/numpy_backend", "            py_cmp = {'=': '==', '>': '>', '<': '<'}.get(op)", "            py_cmp = {'=': '==', '>': '<', '<': '>'}.get(op)", rule="C05-R4"),
    Seed("add-special-case", "fault", "dyads", "    return backend.np.add(a, b)", "    if backend.is_number(a) and backend.is_number(b) and a == 0:\n        return b\n    return backend.np.add(a, b)", rule="C05-R4"),
    Seed("reduce-min-as-max", "fault", "backends/numpy_backend", "'|': 'np.maximum.reduce', '&': 'np.minimum.reduce'}", "'|': 'np.minimum.reduce', '&': 'np.maximum.reduce'}", rule="C05-R4"),
    Seed("isinstance-admission", "fault", "compiler", "        tv = type(val)\n        if tv is int or tv is float:", "        if isinstance(val, (int, float)):", rule="C05-R5"),
    Seed("negate-unparenthesised", "fault", "backends/numpy_backend", "            return f'(-{child})'", "            return f'-{child}'", rule="C05-R6"),
    Seed("call-skips-op-nodes", "fault", "interpreter", "        return self.eval(KGCall(x.a, x.args, x.arity) if isinstance(x, KGFn) else x)", "        return self.eval(KGCall(x.a, x.args, x.arity) if isinstance(x, KGFn) and not x.is_op() else x)", rule="C05-R7"),
    Seed("refactor-handler-comment", "refactor", "interpreter", "                except Exception:\n                    pass  # fall through to interpreter", "                except Exception:  # any failure of the compiled code\n                    pass"),
    Seed("refactor-opset-order", "refactor", "compiler", "_CMP_OPS = {'>', '<', '='}", "_CMP_OPS = {'=', '<', '>'}"),
]
