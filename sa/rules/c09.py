"""C09 — the interpreter is a faithful dictionary of Python values and functions.

Structural clauses decided: a wrapped Python callable is invoked exactly once per application and its
result returned unchanged; positional arguments are collected in the canonical x,y,z order; the
Python-side wrapper checks the argument count against the very function it dispatches, resolves the
name at call time, dispatches at most once per call, and binds its symbol eagerly; values pass through
store/read paths unconverted; wildcard argument collection is reserved for callables without required
parameters.  Which value reaches which parameter for arbitrary signatures is NOT decided.
"""
import ast

from ..model import AnalysisError, src, callee_name, dotted, walk_local, calls_in, FUNC, names_in, pos, is_const
from ..flow import Sem, path_conditions, split_conj, atoms_at, count_paths
from ..common import resolve_single_assign, in_loop, ancestors
from ..selftest import Seed

META = {
    "technique": "call-count path enumeration with exception edges, guard dominance, def-use inside the activation, who-may-write, purity of the signature-inspection helpers, admission/dispatch class agreement",
    "level_text": "Static proof over all paths of KGLambda.__call__/call_with_kwargs, KGFnWrapper.__call__ and the store/read entry points: one invocation per application, arity guard dominating every dispatch, call-time resolution, at most one dispatch even when the dispatched call raises, unconverted pass-through. Reaches the exceptional paths and redefinition/deletion histories that the handful of interop tests do not; does not decide argument routing for arbitrary signatures.",
    "level_note": "decides the structural clause below from source; does not decide the behaviour. Trusted: inspect.signature describes runtime callables (not analysed); `raise` leaves the function; any call may raise, including the dispatched Klong call.",
    "explanation": (
        "Static analysis of klongpy/types.py (KGLambda, KGFnWrapper), klongpy/interpreter.py (set_context_var, __setitem__/__getitem__/"
        "__delitem__) and klongpy/sys_fn.py (_handle_import): per-path call counts with exception edges (a dispatch that raises has "
        "happened), dominance of each dispatch by a len(args)-vs-arity comparison on the dispatched object, reaching definitions of the "
        "dispatched function inside __call__, who-may-write of the wrapper's symbol, and shape checks of the store/read paths."
        " R6: helpers that derive parameter lists from a callable write no shared state; R7: the classes _resolve_fn admits as function values for x/y/z include the classes _eval_fn invokes; the given symbol has priority over the identity search in the wrapper."),
    "assumptions": ["the wrapped callable is reached only through self.fn", "the interpreter is reached as self.klong inside the wrapper"],
}


class DispatchSem(Sem):
    """state: frozenset of dispatch counts (capped at 2); a statement whose dispatch raises has dispatched"""
    base_exc_escapes = False

    def __init__(self, pred):
        self.pred = pred

    def join2(self, a, b):
        return a | b

    def _add(self, node, state):
        ns = count_paths(node, self.pred)
        return frozenset(min(2, x + n) for x in state for n in ns)

    def transfer(self, st, state):
        return self._add(st, state)

    def exc_state(self, st, state):
        return self._add(st, state) | state

    def test_transfer(self, test, state):
        return self._add(test, state)


def check(ctx):
    repo = ctx.repo
    ctx.rule("C09-R1", "call-once: KGLambda.__call__ / call_with_kwargs invoke the wrapped callable exactly once on every path, not in a loop, and return its result unchanged; positional arguments are collected in canonical x,y,z order")
    ctx.rule("C09-R2", "GUARD-DOM: every dispatch in KGFnWrapper.__call__ is dominated by a comparison of len(args) with the arity of the very function dispatched, whose failing arm raises")
    ctx.rule("C09-R3", "call-time resolution: the function dispatched on the symbol path is loaded from the interpreter context inside __call__; a missing symbol falls back to the stored function; the symbol is bound eagerly in __init__ and written nowhere else; at most one dispatch per call even if the dispatched call raises")
    ctx.rule("C09-R4", "pass-through: set_context_var wraps exactly the callables that are not already KGLambda and stores every other value as given; __getitem__ returns non-function values as stored; __setitem__/__delitem__ invalidate the compile memo")
    ctx.rule("C09-R6", "signature inspection is a function of the callable alone: the helpers that derive parameter lists / arity from a Python callable write no module-level or shared state (no memo keyed by anything but the callable's own identity)")
    ctx.rule("C09-R7", "admission agrees with dispatch: the classes _resolve_fn accepts as a function value for a parameter symbol (x, y, z) include every class _eval_fn can invoke")
    ctx.rule("C09-R5", "wildcard argument collection is used only for callables without required positional parameters (or with *args)")

    _r1(ctx, repo)
    _r2_r3(ctx, repo)
    _r4(ctx, repo)
    _r5(ctx, repo)
    _r6_r7(ctx, repo)


def _r1(ctx, repo):
    for fq in ("types:KGLambda.__call__", "types:KGLambda.call_with_kwargs"):
        f = repo.fn(fq)
        ctx.instance("C09-R1", fq)
        is_fn = lambda c: isinstance(c.func, ast.Attribute) and c.func.attr == "fn" and dotted(c.func.value) == "self"
        sites = [c for c in calls_in(f.node) if is_fn(c)]
        exits = DispatchSem(is_fn).run(f.node, frozenset([0]))
        rets = [x for x in exits if x.kind == "return"]
        ok = bool(rets) and all(x.state == frozenset([1]) for x in rets) and not any(in_loop(c, f.node) for c in sites)
        ctx.ob("C09-R1", fq, f"the wrapped callable is invoked exactly once on each of the {len(rets)} return paths", ok, node=f.node, construct="self.fn called once per application",
               msg="a path invokes the wrapped Python callable " + ", ".join(str(sorted(x.state)) for x in rets) + " times per application")
        # the result is returned unchanged: every return value is (a conditional between) self.fn(...) calls
        for r in [n for n in walk_local(f.node) if isinstance(n, ast.Return)]:
            v = r.value
            alts = [v.body, v.orelse] if isinstance(v, ast.IfExp) else [v]
            alts = [resolve_single_assign(a, f.node) for a in alts]
            ctx.ob("C09-R1", fq, "the return value is the wrapped callable's result, unconverted", all(isinstance(a, ast.Call) and is_fn(a) for a in alts), node=r,
                   construct="result returned unchanged", msg=f"the result of the Python callable is post-processed before it is returned: {src(v)[:80]}")
        # klong is passed first iff requested, then exactly the collected positional args
        for c in sites:
            args_ = [a for a in c.args]
            star = [a for a in args_ if isinstance(a, ast.Starred) and isinstance(a.value, ast.Name)]

            def _lead(a):
                """the interpreter, or `*((klong,) if self._provide_klong else ())`"""
                if isinstance(a, ast.Name) and a.id == "klong":
                    return True
                if isinstance(a, ast.Starred) and isinstance(a.value, ast.IfExp):
                    t, b, o = a.value.test, a.value.body, a.value.orelse
                    if isinstance(t, ast.UnaryOp) and isinstance(t.op, ast.Not):
                        t, b, o = t.operand, o, b
                    one = isinstance(b, ast.Tuple) and len(b.elts) == 1 and isinstance(b.elts[0], ast.Name) and b.elts[0].id == "klong"
                    return one and isinstance(o, ast.Tuple) and not o.elts and dotted(t) == "self._provide_klong"
                return False
            ok = len(star) == 1 and (len(args_) == 1 or (len(args_) == 2 and _lead(args_[0]) and args_[1] is star[0]))
            ctx.ob("C09-R1", fq, "the callable receives (klong,)? followed by exactly the collected positional arguments", ok, node=c, construct=f"argument list {src(c)[:60]}")
    # canonical order of the collected arguments
    init = repo.fn("types:KGLambda.__init__")
    ctx.instance("C09-R1", init.fq)
    # where the parameter names come from: the caller's explicit list, else the callable's SIGNATURE (inspect.signature follows
    # __wrapped__ / __signature__, so a functools.wraps-decorated callable keeps its x/y/z); never the raw code object
    from ..common import value_alternatives
    memb = [n for n in walk_local(init.node) if isinstance(n, ast.Compare) and len(n.ops) == 1 and isinstance(n.ops[0], ast.In) and isinstance(n.comparators[0], ast.Name)]
    pnames = sorted({n.comparators[0].id for n in memb if n.comparators[0].id not in init.params()})
    ctx.floor("C09-R1", "locals of KGLambda.__init__ that hold the callable's parameter names", len(pnames), 1)
    from ..model import enclosing_stmt as _est
    for pn in pnames:
        use = next(n for n in memb if n.comparators[0].id == pn)
        alts = value_alternatives(ast.Name(id=pn, ctx=ast.Load()), init.node, _est(use))
        bad = [v for v, _c in alts if not ((isinstance(v, ast.Name) and v.id in init.params()) or (isinstance(v, ast.Call) and callee_name(v) == "safe_inspect"))]
        ctx.ob("C09-R1", init.fq, f"`{pn}` is the explicit argument list or safe_inspect(fn) (the callable's signature)", not bad, node=use, construct=f"parameter names taken from {src(bad[0])[:50] if bad else ''}",
               msg=f"the parameter names can come from `{src(bad[0])[:60] if bad else ''}` instead of the callable's signature: a decorated callable (functools.wraps around (*args, **kwargs)) is then seen "
                   "without x/y/z, registered as a nilad and called without its arguments")
    asg = [n for n in walk_local(init.node) if isinstance(n, ast.Assign) and any(dotted(t) == "self.args" for t in n.targets)]
    if len(asg) != 1:
        ctx.ob("C09-R1", init.fq, "self.args has a single definition", False, node=init.node, construct="self.args definition")
    else:
        v = resolve_single_assign(asg[0].value, init.node)
        verdict = None
        if isinstance(v, ast.ListComp) and len(v.generators) == 1:
            it = v.generators[0].iter
            if isinstance(it, ast.Name) and it.id == "reserved_fn_args":
                verdict = True
            elif isinstance(it, ast.Name) or (isinstance(it, ast.Call)):
                verdict = False     # iterating the signature / another collection: declared order, not x,y,z order
        elif isinstance(v, ast.Call) and callee_name(v) == "sorted" and any(k.arg == "key" and "reserved_fn_args" in src(k.value) for k in v.keywords):
            verdict = True
        if verdict is None:
            ctx.error(f"C09-R1: cannot establish the order in which KGLambda collects arguments from `{src(v)[:80]}`")
        else:
            ctx.ob("C09-R1", init.fq, "positional arguments are collected in canonical x,y,z order (iteration over reserved_fn_args)", verdict, node=asg[0],
                   construct="argument order is x,y,z", msg="arguments are collected in the callable's declared parameter order: fn(y, x) receives the first Klong argument as y")
    gp = repo.fn_opt("types:KGLambda._get_pos_args")
    if gp is None:
        # found by role: the KGLambda method that reads the call frame by the symbols in self.args (the collection may have been
        # split into one method per mode)
        cands = [g for g in repo.module("types").funcs.values() if g.cls == "KGLambda" and g.parent is None and len(g.params()) == 2 and
                 any(isinstance(n, (ast.ListComp, ast.For)) and dotted(n.generators[0].iter if isinstance(n, ast.ListComp) else n.iter) == "self.args" for n in walk_local(g.node))]
        if len(cands) != 1:
            raise AnalysisError("anchor function vanished: types:KGLambda._get_pos_args (and no single method collecting by self.args found)")
        gp = cands[0]
    ctx.instance("C09-R1", gp.fq)
    # the function serves two modes; the rule is about the non-wildcard one: partially evaluate on self._wildcard == False
    from ..specialize import specialise
    gnode, why = specialise(gp, {"self._wildcard": False})
    if gnode is None:
        ctx.error(f"C09-R1: cannot specialise {gp.fq} on the wildcard flag: {why}")
        return
    comps = [n for n in walk_local(gnode) if isinstance(n, ast.ListComp) and len(n.generators) == 1 and not n.generators[0].ifs and dotted(n.generators[0].iter) == "self.args"]
    from ..flow import return_alts
    alts = [a for _f, a, _r in return_alts(gnode)]
    # that comprehension is what a non-wildcard collection returns (directly or through one local)
    def _flows(comp, a):
        if a is comp:
            return True
        return isinstance(a, ast.Name) and any(isinstance(d, ast.Assign) and d.value is comp and any(isinstance(t, ast.Name) and t.id == a.id for t in d.targets) for d in walk_local(gnode)) and \
            sum(1 for d in walk_local(gnode) if isinstance(d, ast.Name) and d.id == a.id and isinstance(d.ctx, ast.Store)) == 1
    ok = bool(alts) and len(comps) == 1 and all(_flows(comps[0], a) for a in alts)
    ctx.ob("C09-R1", gp.fq, "non-wildcard collection reads exactly ctx[x] for x in self.args, in order", ok and
           isinstance(comps[0].elt, ast.Subscript) and isinstance(comps[0].elt.slice, ast.Name) and comps[0].elt.slice.id == comps[0].generators[0].target.id and
           isinstance(comps[0].elt.value, ast.Name) and comps[0].elt.value.id in gp.params(),
           node=gp.node, construct="ctx[x] for x in self.args")


def _r2_r3(ctx, repo):
    f = repo.fn("types:KGFnWrapper.__call__")
    init = repo.fn("types:KGFnWrapper.__init__")

    def is_dispatch(c):
        return isinstance(c.func, ast.Attribute) and c.func.attr in ("call", "eval") and dotted(c.func.value) == "self.klong"
    sites = [c for c in calls_in(f.node) if is_dispatch(c)]
    ctx.floor("C09-R2", "dispatch sites in KGFnWrapper.__call__", len(sites), 1)
    vararg = f.node.args.vararg.arg if f.node.args.vararg else "args"
    for c in sites:
        ctx.instance("C09-R2", f.fq, src(c)[:70])
        kg = c.args[0] if c.args else None
        fobj = None
        if isinstance(kg, ast.Call) and callee_name(kg) == "KGCall" and kg.args:
            a0 = kg.args[0]
            if isinstance(a0, ast.Attribute) and a0.attr == "a":
                fobj = src(a0.value)
        ctx.ob("C09-R2", f.fq, "the dispatch is KGCall(<fn>.a, [...], <fn>.arity) of one function object", fobj is not None and len(kg.args) >= 3 and src(kg.args[2]) == f"{fobj}.arity",
               node=c, construct="dispatch shape")
        if fobj is None:
            continue
        guard = False
        for t, pol in path_conditions(c, f.node):
            for e, p in split_conj(t, pol):
                if isinstance(e, ast.Compare) and len(e.ops) == 1:
                    l, r = src(e.left), src(e.comparators[0])
                    pair = {l, r}
                    if pair == {f"len({vararg})", f"{fobj}.arity"}:
                        # the condition known here must be "equal"
                        if (isinstance(e.ops[0], ast.NotEq) and not p) or (isinstance(e.ops[0], ast.Eq) and p):
                            guard = True
        ctx.ob("C09-R2", f.fq, f"dispatch of {fobj} is dominated by len({vararg}) == {fobj}.arity (the failing arm raises)", guard, node=c,
               construct=f"arity guard for {fobj}", msg=f"the call through the Python wrapper dispatches {fobj} without checking the number of arguments against {fobj}.arity")
        # the arguments passed are the caller's arguments (lists converted to arrays is the documented conversion)
        argl = kg.args[1] if len(kg.args) > 1 else None
        e = argl.elts[0].value if isinstance(argl, ast.List) and len(argl.elts) == 1 and isinstance(argl.elts[0], ast.Starred) else argl      # [*xs] or xs
        if isinstance(e, ast.Name):
            defs = [n for n in walk_local(f.node) if isinstance(n, ast.Assign) and any(isinstance(t, ast.Name) and t.id == e.id for t in n.targets)]
            if defs:
                e = [n.value for n in defs]          # every definition of the list has to be a faithful copy of the caller's arguments
        def _iter_source(x):
            """the collection a list-building expression walks once, unfiltered: [.. for a in xs] / list(.. for a in xs) / list(xs) / [*xs]"""
            if isinstance(x, (ast.ListComp, ast.GeneratorExp)) and len(x.generators) == 1 and not x.generators[0].ifs:
                return x.generators[0].iter
            if isinstance(x, ast.Call) and callee_name(x) in ("list", "tuple") and len(x.args) == 1:
                return _iter_source(x.args[0]) if isinstance(x.args[0], (ast.ListComp, ast.GeneratorExp, ast.Call)) else x.args[0]
            if isinstance(x, ast.List) and len(x.elts) == 1 and isinstance(x.elts[0], ast.Starred):
                return _iter_source(x.elts[0].value) if isinstance(x.elts[0].value, (ast.ListComp, ast.GeneratorExp, ast.Call)) else x.elts[0].value
            return None
        its_ = [_iter_source(x) for x in (e if isinstance(e, list) else [e])]
        ok = bool(its_) and all(isinstance(it_, ast.Name) and it_.id == vararg for it_ in its_)
        # ... and on EVERY path a Python list among them has been turned into an array: a raw list is a program to the interpreter
        from ..common import value_alternatives as _valts
        from ..model import enclosing_stmt as _est2
        e0 = argl.elts[0].value if isinstance(argl, ast.List) and len(argl.elts) == 1 and isinstance(argl.elts[0], ast.Starred) else argl
        alts_ = _valts(e0, f.node, _est2(c)) if e0 is not None else []

        def _converts(x):
            while isinstance(x, ast.Call) and callee_name(x) in ("list", "tuple") and len(x.args) == 1:
                x = x.args[0]
            if isinstance(x, ast.List) and len(x.elts) == 1 and isinstance(x.elts[0], ast.Starred):
                x = x.elts[0].value
            return isinstance(x, (ast.ListComp, ast.GeneratorExp)) and any(isinstance(n, ast.Call) and callee_name(n) in ("asarray", "kg_asarray", "array") for n in ast.walk(x.elt))
        conv = bool(alts_) and all(_converts(v_) for v_, _c in alts_)
        ctx.ob("C09-R2", f.fq, "Python lists among the arguments are converted to arrays on every path to the dispatch", conv, node=c, construct=f"list arguments converted before dispatching {fobj}",
               msg=f"on some path {fobj} is dispatched with the caller's arguments as they came ({[src(v_)[:30] for v_, _c in alts_ if not _converts(v_)]}): a Python list handed to the interpreter is "
                   "evaluated as a PROGRAM, the callee receives its last element (klong['f']([10,20,30]) passes 30)")
        ctx.ob("C09-R2", f.fq, "every caller argument is forwarded, in order", ok, node=c, construct="arguments forwarded in order")
    # ---- R3
    ctx.instance("C09-R3", f.fq)
    def origins(e, seen=()):
        """where a dispatched function value can come from: 'looked' (context lookup under the wrapper's symbol, made in this call),
        'stored' (self.fn), 'none' (the fallback marker), or ('other', text)"""
        if isinstance(e, ast.Constant) and e.value is None:
            return {("none", None)}
        if isinstance(e, ast.Subscript) and dotted(e.value) in ("self.klong._context", "self.klong") and "self._sym" in src(e.slice):
            return {("looked", e)}
        if isinstance(e, ast.Attribute) and dotted(e) == "self.fn":
            return {("stored", None)}
        if isinstance(e, ast.IfExp):
            return origins(e.body, seen) | origins(e.orelse, seen)
        if isinstance(e, ast.BoolOp):
            out = set()
            for v_ in e.values:
                out |= origins(v_, seen)
            return out
        if isinstance(e, ast.Name):
            if e.id in seen:
                return set()
            defs_ = [n.value for n in walk_local(f.node) if isinstance(n, ast.Assign) and any(isinstance(t, ast.Name) and t.id == e.id for t in n.targets)]
            out = set()
            for d_ in defs_:
                out |= origins(d_, seen + (e.id,))
            return out or {("other", src(e))}
        return {("other", src(e)[:40])}
    disp = []
    for c in sites:
        if isinstance(c.args[0], ast.Call) and c.args[0].args and isinstance(c.args[0].args[0], ast.Attribute):
            disp.append((c, origins(c.args[0].args[0].value)))
    dyn = [(c, o) for c, o in disp if any(k == "looked" for k, _x in o)]
    ctx.ob("C09-R3", f.fq, "one dispatch uses a function value looked up during the call", len(dyn) >= 1, node=f.node, construct="call-time resolved dispatch present",
           msg="no dispatch in __call__ uses a function resolved at call time: redefinitions of the name are not followed")
    ctx.ob("C09-R3", f.fq, "a dispatch of the stored function exists as the fallback", any(any(k == "stored" for k, _x in o) for _c, o in disp), node=f.node, construct="fallback dispatch present")
    for c, o in disp:
        others = sorted(x for k, x in o if k == "other")
        ctx.ob("C09-R3", f.fq, "the dispatched function is read from the interpreter context under the wrapper's symbol inside __call__ (or is the stored function)", not others, node=c,
               construct="dispatched function looked up at call time", msg=f"the function dispatched can be {others}: not a call-time lookup of the symbol")
    for c, o in dyn:
        looked = [x for k, x in o if k == "looked"]
        for x in looked:
            tr = next((p for p in ancestors(x, f.node) if isinstance(p, ast.Try)), None)
            okh = tr is not None and any(h.type is not None and "KeyError" in src(h.type) for h in tr.handlers) and not any(
                isinstance(n, ast.Raise) for h in tr.handlers for n in ast.walk(h))
            ctx.ob("C09-R3", f.fq, "a deleted symbol (KeyError from the lookup) falls back to the stored function instead of escaping", okh, node=x, construct="KeyError fallback on lookup")
    # at most one dispatch per call, even when the dispatched call raises
    exits = DispatchSem(is_dispatch).run(f.node, frozenset([0]))
    bad = [x for x in exits if 2 in x.state]
    rets = [x for x in exits if x.kind == "return"]
    ctx.ob("C09-R3", f.fq, f"at most one dispatch on every path, exceptional continuations included ({len(exits)} exits)", not bad and all(x.state == frozenset([1]) for x in rets),
           node=(bad[0].node if bad else f.node), construct="at most one dispatch per call",
           msg="a path dispatches twice: an exception raised by the dispatched function is caught by a handler that then falls through to a second dispatch (the Klong function and its side effects run twice)",
           path=(f"entry {f.fq} -> dispatch raises -> handler -> second dispatch -> {bad[0].kind}@{bad[0].line}" if bad else None))
    # the symbol is bound eagerly and written nowhere else
    ctx.instance("C09-R3", init.fq)
    stores = []
    for g in repo.module("types").funcs.values():
        if g.cls == "KGFnWrapper":
            for n in walk_local(g.node):
                if isinstance(n, ast.Attribute) and n.attr == "_sym" and isinstance(n.ctx, (ast.Store, ast.Del)):
                    stores.append((g, n))
    in_init = [n for g, n in stores if g.name == "__init__"]
    ctx.ob("C09-R3", init.fq, "the wrapper's symbol is assigned in __init__ (eagerly: given or searched at construction)", len(in_init) == 1, node=init.node,
           construct="_sym bound in __init__", msg="the symbol is not bound at construction time: a redefinition before the first call makes the identity search fail and pins the stale function")
    for g, n in stores:
        if g.name != "__init__":
            ctx.ob("C09-R3", g.fq, "the wrapper's symbol is never rewritten after construction", False, node=n._parent, construct=f"store to _sym in {g.name}",
                   msg="the wrapper forgets/changes its symbol after construction: later redefinitions of the name are no longer followed")
    props = [g for g in repo.module("types").funcs.values() if g.cls == "KGFnWrapper" and g.name == "_sym"]
    ctx.ob("C09-R3", init.fq, "_sym is a plain attribute, not a lazily computed property", not props, node=init.node, construct="_sym is not lazy")
    if in_init:
        v = in_init[0]._parent.value
        store_stmt = in_init[0]._parent
        is_search = lambda e: any(isinstance(c, ast.Call) and callee_name(c) == "_find_symbol" for c in ast.walk(e))

        def alternatives(e, conds=()):
            """the values the stored expression can take, each with the (test, polarity) facts under which it is the one taken"""
            if isinstance(e, ast.IfExp):
                return alternatives(e.body, conds + ((e.test, True),)) + alternatives(e.orelse, conds + ((e.test, False),))
            if isinstance(e, ast.BoolOp) and isinstance(e.op, ast.Or):
                out, c = [], conds
                for x in e.values:
                    out += alternatives(x, c)
                    c = c + ((x, False),)
                return out
            if isinstance(e, ast.Name):
                defs = [d for d in walk_local(init.node) if isinstance(d, ast.Assign) and len(d.targets) == 1 and isinstance(d.targets[0], ast.Name) and d.targets[0].id == e.id
                        and pos(d) < pos(store_stmt)]
                if defs:
                    out = [] if e.id not in init.params() and all(path_conditions(d, init.node) == [] for d in defs[-1:]) else [(e, conds)]
                    for d in defs:
                        if e.id in names_in(d.value) and not is_search(d.value) and not isinstance(d.value, (ast.IfExp, ast.BoolOp)):
                            out.append((d.value, conds))
                        else:
                            out += alternatives(d.value, conds + tuple(path_conditions(d, init.node)))
                    return out
            return [(e, conds)]
        alts_v = alternatives(v)
        symp = next((p for p in init.params() if p not in ("self", "fn", "klong") and any(isinstance(a, ast.Name) and a.id == p for a, _c in alts_v)), None)
        ok = symp is not None and any(is_search(a) for a, _c in alts_v)
        ctx.ob("C09-R3", init.fq, "the symbol is the one given by the creator, else the one the function is bound to now", ok, node=in_init[0]._parent, construct="_sym = sym or search")
        # the given name has priority over the identity search (a function bound under two names keeps the name it was read through)

        def says_absent(t, pol):
            """the fact (t is pol) means the creator gave no symbol"""
            for a, ap in split_conj(t, pol):
                if isinstance(a, ast.Name) and a.id == symp and ap is False:
                    return True
                if isinstance(a, ast.Compare) and len(a.ops) == 1 and isinstance(a.left, ast.Name) and a.left.id == symp and is_const(a.comparators[0], None):
                    if (isinstance(a.ops[0], ast.Is) and ap is True) or (isinstance(a.ops[0], ast.IsNot) and ap is False):
                        return True
            return False
        pri = ok and all(any(says_absent(t, p_) for t, p_ in c) for a, c in alts_v if is_search(a)) and not any(is_search(t) for _a, c in alts_v for t, _p in c)
        ctx.ob("C09-R3", init.fq, "the name given by the creator has priority over the identity search", pri or not ok, node=in_init[0]._parent, construct="given symbol has priority",
               msg="the wrapper prefers the first symbol bound to the same function object over the name it was read through: with two names bound to one function (g::f) klong['g'] follows later redefinitions of f, not of g")


def _r6_r7(ctx, repo):
    # ---- R6: no shared state written by the inspection helpers
    tm = repo.module("types")
    helpers = [f for f in tm.funcs.values() if f.parent is None and (
        (f.cls is None and any((dotted(c.func) or "").startswith("inspect.") for c in calls_in(f.node))) or
        (f.cls == "KGLambda" and f.name in ("__init__", "_get_pos_args", "get_arity")))]
    ctx.floor("C09-R6", "signature-inspection helpers", len(helpers), 2)
    for f in helpers:
        ctx.instance("C09-R6", f.fq)
        params = set(f.params())
        local = set(params)
        for n in walk_local(f.node):
            if isinstance(n, ast.Name) and isinstance(n.ctx, ast.Store):
                local.add(n.id)
        glob = {x for n in walk_local(f.node) if isinstance(n, (ast.Global, ast.Nonlocal)) for x in n.names}
        bad = []
        for n in walk_local(f.node):
            tgts = []
            if isinstance(n, ast.Assign):
                tgts = n.targets
            elif isinstance(n, (ast.AugAssign, ast.AnnAssign)):
                tgts = [n.target]
            for t in tgts:
                base = t
                while isinstance(base, (ast.Subscript, ast.Attribute)):
                    base = base.value
                if isinstance(base, ast.Name) and ((base.id not in local and t is not base) or base.id in glob):
                    bad.append(t)
            if isinstance(n, ast.Call) and isinstance(n.func, ast.Attribute) and n.func.attr in ("setdefault", "update", "append", "add", "__setitem__"):
                base = n.func.value
                while isinstance(base, (ast.Subscript, ast.Attribute)):
                    base = base.value
                if isinstance(base, ast.Name) and base.id not in local:
                    bad.append(n)
        deco = [d for d in f.node.decorator_list if "cache" in src(d)]
        ctx.ob("C09-R6", f.fq, "writes only its own locals / the object under construction", not bad and not deco, node=(bad[0] if bad else f.node),
               construct=f"shared state written by {f.name}" + (f": {src(bad[0])[:40]}" if bad else (f": @{src(deco[0])}" if deco else "")),
               msg=f"{f.name} records what it learned about one callable in shared state ({src(bad[0])[:60] if bad else src(deco[0]) if deco else ''}): callables that look alike to the memo key (same code object, e.g. every function produced by one decorator) get each other's parameter list and are called with the wrong arguments")
    # ---- R7
    rf = repo.fn("interpreter:KlongInterpreter._resolve_fn")
    ef = repo.fn("interpreter:KlongInterpreter._eval_fn")
    ctx.instance("C09-R7", rf.fq)

    def classes(test_call):
        a = test_call.args[1]
        return {dotted(e) for e in (a.elts if isinstance(a, ast.Tuple) else [a])}
    # the resolution may be split over helpers of the same class / module that _resolve_fn calls: look one level down as well
    scope_fns = [rf]
    for c in calls_in(rf.node):
        nm = callee_name(c)
        g = rf.module.funcs.get(f"{rf.cls}.{nm}") or rf.module.funcs.get(nm or "")
        if g is not None and g is not rf and g not in scope_fns:
            scope_fns.append(g)
    admit = set()
    for g in scope_fns:
        looked = {n.targets[0].id for n in walk_local(g.node) if isinstance(n, ast.Assign) and isinstance(n.targets[0], ast.Name) and
                  isinstance(n.value, ast.Subscript) and "_context" in src(n.value.value)}
        for c in calls_in(g.node):
            if callee_name(c) in ("isinstance", "issubclass") and len(c.args) == 2 and any(isinstance(x, ast.Name) and x.id in looked for x in ast.walk(c.args[0])):
                admit |= classes(c)
    invoke = set()
    from ..flow import return_alts
    # the classes _eval_fn distinguishes when it finally invokes the resolved function (conditional expression or statements alike)
    for facts, v, _r in return_alts(ef.node):
        if not isinstance(v, ast.Call):
            continue
        for e, _pol in facts:
            if isinstance(e, ast.Call) and callee_name(e) in ("isinstance", "issubclass") and len(e.args) == 2 and \
                    any(isinstance(x, ast.Name) for x in ast.walk(e.args[0])):
                cl = classes(e)
                if cl & {"KGLambda", "KGFn", "KGCall"}:
                    invoke |= cl
    ctx.ob("C09-R7", rf.fq, f"classes admitted as a function value for x/y/z {sorted(admit)} include the classes _eval_fn invokes specially {sorted(invoke)} and KGFn",
           bool(admit) and bool(invoke) and (invoke | {"KGFn"}) <= admit, node=rf.node, construct="function-value classes admitted for parameter symbols",
           msg=f"_resolve_fn treats the value of x/y/z as a function only if it is one of {sorted(admit)}, but _eval_fn can invoke {sorted(invoke | {'KGFn'})}: a Python callable passed as an argument and applied through x(...) is never called (the argument is returned instead)")


def check_assignment_stores_the_object(ctx, repo, rid):
    """klong[name] = v binds the OBJECT v: KlongInterpreter.__setitem__ hands its value parameter to the context as it is (no copy, no
    conversion, no re-binding of the parameter on the way).  Aliases made by `E::D` / `d::x` then see every in-situ update."""
    f = repo.fn("interpreter:KlongInterpreter.__setitem__")
    ctx.instance(rid, f.fq)
    vparam = f.params()[-1]
    rebinds = [n for n in walk_local(f.node) if isinstance(n, ast.Name) and n.id == vparam and isinstance(n.ctx, ast.Store)]
    stores = [n for n in walk_local(f.node) if isinstance(n, ast.Assign) and any(isinstance(t, ast.Subscript) and "_context" in src(t.value) for t in n.targets)]
    ok = not rebinds and len(stores) == 1 and isinstance(stores[0].value, ast.Name) and stores[0].value.id == vparam
    ctx.ob(rid, f.fq, f"the context receives the value parameter `{vparam}` itself", ok, node=(rebinds[0]._parent if rebinds else (stores[0] if stores else f.node)),
           construct="assignment stores a copy / a converted value",
           msg=f"klong[name] = value does not store the value it was given (`{vparam}` is re-bound or the store takes `{src(stores[0].value)[:40] if stores else '?'}`): a dictionary assigned to a second name "
               "is a different object afterwards, so updates made through one name are invisible through the other")


def _r4(ctx, repo):
    check_assignment_stores_the_object(ctx, repo, "C09-R4")
    scv = repo.fn("interpreter:set_context_var")
    ctx.instance("C09-R4", scv.fq)
    params = scv.params()
    dparam, vparam = params[0], params[-1]
    wraps = [n for n in walk_local(scv.node) if isinstance(n, ast.Call) and callee_name(n) == "KGLambda"]
    ok = len(wraps) == 1
    guard_ok = False
    if ok:
        facts = atoms_at(wraps[0], scv.node)
        c1 = any(isinstance(e, ast.Call) and callee_name(e) == "callable" and p for e, p in facts)
        c2 = any(isinstance(e, ast.Call) and callee_name(e) in ("issubclass", "isinstance") and "KGLambda" in src(e) and not p for e, p in facts)
        guard_ok = c1 and c2
    ctx.ob("C09-R4", scv.fq, "wrapping happens exactly for callables that are not already KGLambda", ok and guard_ok, node=scv.node, construct="wrap guard callable and not KGLambda")
    # every other value is stored as given: the only rebinding of v is the wrapping branch
    rebinds = [n for n in walk_local(scv.node) if isinstance(n, ast.Assign) and any(isinstance(t, ast.Name) and t.id == vparam for t in n.targets)]
    ok = all(any(w in list(ast.walk(p)) for w in wraps for p in [s]) or _in_same_if(n, wraps) for n in rebinds for s in [n])
    ctx.ob("C09-R4", scv.fq, "no conversion of stored values outside the wrapping branch", ok, node=scv.node, construct="values stored unconverted",
           msg="set_context_var converts the value before storing it: klong[name] no longer reads back what was stored")
    stores = [n for n in walk_local(scv.node) if isinstance(n, ast.Assign) and any(isinstance(t, ast.Subscript) and isinstance(t.value, ast.Name) and t.value.id == dparam for t in n.targets)]
    ok = len(stores) == 1 and isinstance(stores[0].value, ast.Name) and stores[0].value.id == vparam and not [t for t, _p in path_conditions(stores[0], scv.node) if not isinstance(getattr(t, "_parent", None), ast.Assert)]
    if not ok and stores:
        # the same thing written with one store per branch: every store puts either the value as given or the wrapper built from it,
        # and every normal path through the function has made a store
        def _stored_ok(v_):
            if isinstance(v_, ast.Name) and v_.id == vparam:
                return True
            return isinstance(v_, ast.Call) and callee_name(v_) == "KGCall" and any(w in list(ast.walk(v_)) or (
                isinstance(a_, ast.Name) and any(isinstance(d_, ast.Assign) and d_.value in wraps and any(isinstance(t_, ast.Name) and t_.id == a_.id for t_ in d_.targets)
                                                 for d_ in walk_local(scv.node))) for w in wraps for a_ in v_.args[:1])

        class _Stored(Sem):
            base_exc_escapes = False

            def join2(self, a, b):
                return a and b

            def transfer(self, st, state):
                return state or st in stores
        from ..flow import Sem as _S
        exits = _Stored().run(scv.node, False)
        ok = all(_stored_ok(s_.value) for s_ in stores) and all(e_.state for e_ in exits if e_.kind == "return") and any(e_.kind == "return" for e_ in exits)
    ctx.ob("C09-R4", scv.fq, "the value is stored unconditionally under the given symbol", ok, node=scv.node, construct="d[sym] = v unconditional")
    # wrapped callable: KGCall(KGLambda(v), args=None, arity=<its arity>)
    for n in rebinds:
        if isinstance(n.value, ast.Call) and callee_name(n.value) == "KGCall":
            ok = any(k.arg == "arity" and "get_arity" in src(k.value) for k in n.value.keywords) or (len(n.value.args) >= 3 and "get_arity" in src(n.value.args[2]))
            ctx.ob("C09-R4", scv.fq, "the wrapped callable carries the arity inferred from its signature", ok, node=n, construct="KGCall(KGLambda(v), arity=get_arity())")
    gi = repo.fn("interpreter:KlongInterpreter.__getitem__")
    ctx.instance("C09-R4", gi.fq)
    from ..flow import return_alts
    alts = return_alts(gi.node)

    def raw(e):
        d = resolve_single_assign(e, gi.node) if isinstance(e, ast.Name) else e
        return isinstance(d, ast.Subscript) and dotted(d.value) == "self._context"

    def fn_fact(facts):
        """True/False when the facts say the value is / is not a KGFn, None when they say nothing"""
        for e, pol in facts:
            if isinstance(e, ast.Call) and callee_name(e) in ("issubclass", "isinstance") and len(e.args) == 2 and "KGFn" in src(e.args[1]):
                return pol
        return None
    ok = bool(alts)
    seen_raw = seen_wrapped = False
    for facts, v, _r in alts:
        ff = fn_fact(facts)
        if v is not None and raw(v) and ff is not True:
            seen_raw = True
        elif isinstance(v, ast.Call) and callee_name(v) == "KGFnWrapper" and ff is True and len(v.args) >= 2 and raw(v.args[1]) and any(k.arg == "sym" for k in v.keywords):
            seen_wrapped = True
        else:
            ok = False
    ok = ok and seen_raw and seen_wrapped
    ctx.ob("C09-R4", gi.fq, "__getitem__ returns stored non-function values as they are, and functions in a wrapper that knows its symbol", ok, node=gi.node,
           construct="read path unconverted", msg="the read path converts values (or wraps functions without their symbol)")
    for fq in ("interpreter:KlongInterpreter.__setitem__", "interpreter:KlongInterpreter.__delitem__"):
        f = repo.fn(fq)
        ctx.instance("C09-R4", fq)
        exits = _InvalSem().run(f.node, frozenset([False]))
        rets = [x for x in exits if x.kind == "return"]
        ok = bool(rets) and all(x.state == frozenset([True]) for x in rets)
        ctx.ob("C09-R4", fq, "every normal return has cleared the compiled-expression memo", ok, node=f.node, construct="compile memo invalidated",
               msg="a store/delete of a variable can return without clearing the compiled-expression cache: compiled code keeps using assumptions about the old value")


class _InvalSem(Sem):
    base_exc_escapes = False

    def join2(self, a, b):
        return a | b

    def transfer(self, st, state):
        for c in calls_in(st):
            if isinstance(c.func, ast.Attribute) and c.func.attr == "clear" and dotted(c.func.value) == "self._compiled_cache":
                return frozenset([True])
        if isinstance(st, ast.Assign) and any(dotted(t) == "self._compiled_cache" for t in st.targets) and isinstance(st.value, ast.Dict) and not st.value.keys:
            return frozenset([True])
        return state


def _in_same_if(n, wraps):
    for w in wraps:
        pw = [p for p in ancestors(w) if isinstance(p, ast.If)]
        pn = [p for p in ancestors(n) if isinstance(p, ast.If)]
        if pw and pn and pw[0] is pn[0]:
            return True
    return False


def _r5(ctx, repo):
    f = repo.fn("sys_fn:_handle_import")
    sites = [c for c in calls_in(f.node) if callee_name(c) == "KGLambda" and any(k.arg == "wildcard" and isinstance(k.value, ast.Constant) and k.value.value is True for k in c.keywords)]
    ctx.floor("C09-R5", "wildcard wrapping sites in _handle_import", len(sites), 1)
    from ..common import emptiness, justified
    # the collections of required parameters: comprehensions over the signature that keep parameters without a default
    required = {n.targets[0].id for n in walk_local(f.node) if isinstance(n, ast.Assign) and isinstance(n.targets[0], ast.Name) and isinstance(n.value, ast.ListComp) and
                any(isinstance(c, ast.Compare) and isinstance(c.ops[0], ast.Eq) and "Parameter.empty" in src(c) for c in ast.walk(n.value))}
    ctx.control("C09-R5", f"the collection of required parameters is recognised ({sorted(required)})", bool(required))

    def accept(e, pol):
        if isinstance(e, ast.Compare) and isinstance(e.ops[0], ast.In) and isinstance(e.left, ast.Constant) and e.left.value == "args" and pol:
            return True                       # *args in the signature
        return emptiness(e, pol) in required   # no required parameter
    for c in sites:
        ctx.instance("C09-R5", f.fq, src(c)[:60])
        ok = justified(atoms_at(c, f.node), f.node, accept)
        ctx.ob("C09-R5", f.fq, "wildcard collection only under `'args' in signature` or an empty collection of required parameters", ok, node=c,
               construct="wildcard only without required parameters",
               msg="a callable with required parameters is wrapped in wildcard mode: it is called with whatever x,y,z are visible in enclosing frames, not with exactly its arguments")


# functions whose mechanical mutants are swept in the thorough tier (coverage evidence, see sa/mutate.py)
MUTATION_SCOPE = ['types:KGLambda.__init__',
                  'types:KGLambda.__call__',
                  'types:KGLambda.call_with_kwargs',
                  'types:KGLambda._get_pos_args',
                  'types:KGFnWrapper.__init__',
                  'types:KGFnWrapper.__call__',
                  'interpreter:set_context_var',
                  'interpreter:KlongInterpreter.__getitem__',
                  'interpreter:KlongInterpreter.__setitem__',
                  'interpreter:KlongInterpreter.__delitem__']

SEEDS = [
    Seed("fallback-dispatch-without-list-conversion", "fault", "types", "        fn_args = [np.asarray(x) if isinstance(x, list) else x for x in args]\n        return self.klong.call(KGCall(self.fn.a, [*fn_args], self.fn.arity))",
         "        fn_args = args\n        return self.klong.call(KGCall(self.fn.a, [*fn_args], self.fn.arity))", rule="C09-R2"),
    Seed("setitem-copies-dicts", "fault", "interpreter", "        k = k if isinstance(k, KGSym) else KGSym(k)\n        self._context[k] = v\n",
         "        k = k if isinstance(k, KGSym) else KGSym(k)\n        if type(v) is dict:\n            v = dict(v)\n        self._context[k] = v\n", rule="C09-R4"),
    Seed("param-names-from-code-object", "fault", "types", "        params = args or safe_inspect(fn)", "        params = args or (fn.__code__.co_varnames[:fn.__code__.co_argcount] if hasattr(fn, '__code__') else safe_inspect(fn))", rule="C09-R1"),
    Seed("found-symbol-first", "fault", "types", "        self._sym = sym if sym is not None else self._find_symbol(fn)", "        self._sym = self._find_symbol(fn) or sym", rule="C09-R3"),
    Seed("refactor-sym-or-search", "refactor", "types", "        self._sym = sym if sym is not None else self._find_symbol(fn)", "        self._sym = sym or self._find_symbol(fn)"),
    Seed("inspect-memo-by-code", "fault", "types", "def safe_inspect(fn, follow_wrapped=True):\n    try:\n        return inspect.signature(fn, follow_wrapped=follow_wrapped).parameters",
         "_SIG = {}\n\n\ndef safe_inspect(fn, follow_wrapped=True):\n    k = getattr(fn, '__code__', None)\n    if k in _SIG:\n        return _SIG[k]\n    try:\n        _SIG[k] = inspect.signature(fn, follow_wrapped=follow_wrapped).parameters\n        return _SIG[k]", rule="C09-R6"),
    Seed("resolve-drops-lambda", "fault", "interpreter", "                if isinstance(_f, (KGFn,KGLambda)) or not in_map(f, reserved_fn_symbols):", "                if isinstance(_f, KGFn) or not in_map(f, reserved_fn_symbols):", rule="C09-R7"),
    Seed("probe-call", "fault", "types", "        pos_args = self._get_pos_args(ctx)\n        return self.fn(klong, *pos_args) if self._provide_klong else self.fn(*pos_args)\n\n    def call_with_kwargs",
         "        pos_args = self._get_pos_args(ctx)\n        if self._provide_klong:\n            self.fn(klong, *pos_args)\n        return self.fn(klong, *pos_args) if self._provide_klong else self.fn(*pos_args)\n\n    def call_with_kwargs", rule="C09-R1"),
    Seed("result-converted", "fault", "types", "        return self.fn(klong, *pos_args, **kwargs) if self._provide_klong else self.fn(*pos_args, **kwargs)",
         "        r = self.fn(klong, *pos_args, **kwargs) if self._provide_klong else self.fn(*pos_args, **kwargs)\n        return np.asarray(r) if isinstance(r, list) else r", rule="C09-R1"),
    Seed("declared-order", "fault", "types", "        self.args = [reserved_fn_symbol_map[x] for x in reserved_fn_args if x in params]",
         "        self.args = [reserved_fn_symbol_map[x] for x in params if x in reserved_fn_args]", rule="C09-R1"),
    Seed("drop-fallback-arity-check", "fault", "types", "        if len(args) != self.fn.arity:\n            raise RuntimeError(f\"Klong function called with {len(args)} but expected {self.fn.arity}\")\n", "", rule="C09-R2"),
    Seed("guard-wrong-object", "fault", "types", "                if len(args) != current.arity:", "                if len(args) != self.fn.arity:", rule="C09-R2"),
    Seed("cache-resolved-in-init", "fault", "types", "                current = self.klong._context[self._sym]", "                current = self.fn", rule="C09-R3"),
    Seed("wide-try-double-dispatch", "fault", "types",
         "            try:\n                current = self.klong._context[self._sym]\n            except KeyError:\n                # Symbol was deleted, fall through to original function\n                current = None\n            if isinstance(current, KGFn) and not isinstance(current, KGCall):\n                # Use the current definition\n                if len(args) != current.arity:\n                    raise RuntimeError(f\"Klong function called with {len(args)} but expected {current.arity}\")\n                fn_args = [np.asarray(x) if isinstance(x, list) else x for x in args]\n                return self.klong.call(KGCall(current.a, [*fn_args], current.arity))\n",
         "            try:\n                current = self.klong._context[self._sym]\n                if isinstance(current, KGFn) and not isinstance(current, KGCall):\n                    if len(args) != current.arity:\n                        raise RuntimeError(f\"Klong function called with {len(args)} but expected {current.arity}\")\n                    fn_args = [np.asarray(x) if isinstance(x, list) else x for x in args]\n                    return self.klong.call(KGCall(current.a, [*fn_args], current.arity))\n            except KeyError:\n                pass\n", rule="C09-R3"),
    Seed("forget-symbol", "fault", "types", "                # Symbol was deleted, fall through to original function\n                current = None", "                self._sym = None\n                current = None", rule="C09-R3"),
    Seed("convert-on-store", "fault", "interpreter", "        v = KGCall(x,args=None,arity=x.get_arity())\n    d[sym] = v", "        v = KGCall(x,args=None,arity=x.get_arity())\n    elif isinstance(v, list):\n        v = list(v)\n    d[sym] = v", rule="C09-R4"),
    Seed("setitem-no-invalidate", "fault", "interpreter", "        self._context[k] = v\n        # Compiled expressions assume", "        self._context[k] = v\n        if callable(v):\n            return\n        # Compiled expressions assume", rule="C09-R4"),
    Seed("wildcard-with-required", "fault", "sys_fn", "                if not required_args and optional_args:", "                if optional_args and len(required_args) < len(reserved_fn_args):", rule="C09-R5"),
    Seed("refactor-single-lookup-var", "refactor", "types", "                current = self.klong._context[self._sym]\n", "                ctx = self.klong._context\n                current = ctx[self._sym]\n".replace("ctx[self._sym]", "self.klong._context[self._sym]")),
    Seed("refactor-guard-eq", "refactor", "types", "        if len(args) != self.fn.arity:\n            raise RuntimeError(f\"Klong function called with {len(args)} but expected {self.fn.arity}\")\n",
         "        if not (len(args) == self.fn.arity):\n            raise RuntimeError(f\"Klong function called with {len(args)} but expected {self.fn.arity}\")\n"),
    Seed("refactor-call-temp", "refactor", "types", "        return self.fn(klong, *pos_args) if self._provide_klong else self.fn(*pos_args)\n\n    def call_with_kwargs",
         "        if self._provide_klong:\n            return self.fn(klong, *pos_args)\n        return self.fn(*pos_args)\n\n    def call_with_kwargs"),
]
