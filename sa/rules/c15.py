"""C15 — timers tick once per interval until stopped, and stop for good.

Structural clause decided: the cancellation typestate.  After the user callback ran, the timer is
re-armed only on paths that (a) saw a true callback result and (b) re-read, after the callback, the
state that cancel() writes and found the timer alive; every armed loop handle is stored where cancel()
finds it; a false result disarms; cancel() reports 1 exactly for the live->dead transition.
Tick times (the floating-point drift formula) are NOT decided.
"""
import ast

from ..model import AnalysisError, src, callee_name, dotted, walk_local, calls_in, FUNC
from ..flow import Sem, path_conditions, split_conj, atoms_at, refine_bool
from ..selftest import Seed

META = {
    "technique": "typestate over all paths of the periodic runner (guard dominance after the callback), who-may-write of the cancel state, reaching definitions of the callback",
    "level_text": "Static proof over all paths of the periodic runner and of cancel(): no re-arm after cancellation, every handle cancellable, false result disarms, .timerc result equals the live->dead transition. Covers every callback/cancel interleaving position that is visible in the code shape (cancel inside the callback included), which sleeping tests cannot construct; does not decide tick times.",
    "level_note": "decides the structural clause below from source; does not decide the behaviour. Trusted: asyncio handles' cancel() prevents a scheduled callback from running; call_soon/call_later/call_at are the only scheduling APIs (listed).",
    "explanation": (
        "Static analysis of klongpy/sys_fn_timer.py: exit-path abstract interpretation of the periodic runner with the state "
        "(callback result truth, cancel-state re-read after the callback, handle dead/alive), a typestate check of cancel(), a "
        "repository-wide who-may-write of the cancel-visible attribute, and reaching definitions of the callback handed to the "
        "runner. Decides the cancellation clause of C15, not the tick times."),
    "assumptions": ["a cancelled asyncio Handle/TimerHandle is never run", "the user callback is invoked only through the name bound to the runner's callback parameter"],
}

MOD = "sys_fn_timer"
SCHED = {"call_soon", "call_later", "call_at", "call_soon_threadsafe"}


def _sched_calls(node):
    return [c for c in calls_in(node) if isinstance(c.func, ast.Attribute) and c.func.attr in SCHED]


def discover(repo):
    """-> (handler class name, cancel FuncInfo, state attrs, outer periodic fn, runner fn)"""
    m = repo.module(MOD)
    cancel = None
    for f in m.funcs.values():
        if f.cls and f.name == "cancel":
            cancel = f
    if cancel is None:
        raise AnalysisError("no cancel() method in the timer module")
    attrs = set()
    for n in walk_local(cancel.node):
        if isinstance(n, ast.Attribute) and isinstance(n.ctx, ast.Store) and isinstance(n.value, ast.Name) and n.value.id == "self":
            attrs.add(n.attr)
        # the attribute whose .cancel() is called holds the loop handle
        if isinstance(n, ast.Call) and isinstance(n.func, ast.Attribute) and n.func.attr == "cancel" and isinstance(n.func.value, ast.Attribute) \
                and isinstance(n.func.value.value, ast.Name) and n.func.value.value.id == "self":
            attrs.add(n.func.value.attr)
        if isinstance(n, ast.Compare) and isinstance(n.left, ast.Attribute) and isinstance(n.left.value, ast.Name) and n.left.value.id == "self" \
                and isinstance(n.comparators[0], ast.Constant) and n.comparators[0].value is None:
            attrs.add(n.left.attr)
    if not attrs:
        raise AnalysisError("cancel() writes no state attribute")
    runner = outer = None
    for f in m.funcs.values():
        if f.parent is not None and any(c.args and isinstance(c.args[0], ast.Name) and c.args[0].id == f.name for c in _sched_calls(f.node)):
            runner, outer = f, f.parent
    if runner is None:
        # a runner that does not re-arm itself: the nested function handed to the scheduler by its definer
        for f in m.funcs.values():
            if f.parent is not None and any(c.args and isinstance(c.args[0], ast.Name) and c.args[0].id == f.name
                                            for c in _sched_calls(f.parent.node)):
                runner, outer = f, f.parent
    if runner is None:
        raise AnalysisError("periodic runner (nested function scheduled on the loop) not found")
    return cancel.cls, cancel, attrs, outer, runner


def callback_names(outer, runner):
    """names inside the runner that denote the user callback"""
    oparams = set(outer.params())
    names = set()
    a = runner.node.args
    pos = a.posonlyargs + a.args
    for p, d in zip(pos[len(pos) - len(a.defaults):], a.defaults):
        if isinstance(d, ast.Name) and d.id in oparams:
            names.add(p.arg)
    for n in walk_local(runner.node):
        if isinstance(n, ast.Call) and isinstance(n.func, ast.Name) and n.func.id in oparams and n.func.id not in runner.params():
            names.add(n.func.id)
    return names


class RunnerSem(Sem):
    """state: frozenset of (rt, chk, dead)
       rt  : truth of the callback's result on this path: T / F / ? ; '-' before the callback ran
       chk : 'pre' (callback not yet run) / 'unchecked' / 'alive' / 'deadknown'  (cancel state re-read after the callback?)
       dead: handle marked dead (cancel() called / state attr set to None) since the last arming"""
    base_exc_escapes = False

    def __init__(self, cbnames, handle, attrs, report):
        self.cb, self.handle, self.attrs, self.report = cbnames, handle, attrs, report
        self.result_vars = set()

    def join2(self, a, b):
        return a | b

    def _is_cb_call(self, n):
        return isinstance(n, ast.Call) and isinstance(n.func, ast.Name) and n.func.id in self.cb

    def _reads_state(self, e):
        return isinstance(e, ast.Attribute) and e.attr in self.attrs and isinstance(e.value, ast.Name) and e.value.id == self.handle

    def transfer(self, st, state):
        has_cb = any(self._is_cb_call(n) for n in walk_local(st))
        if has_cb:
            state = frozenset(("?", "unchecked", d) for _rt, _c, d in state)
            if isinstance(st, ast.Assign):
                for t in st.targets:
                    if isinstance(t, ast.Name):
                        self.result_vars.add(t.id)
        elif isinstance(st, ast.Assign) and isinstance(st.value, ast.Name) and st.value.id in self.result_vars:
            for t in st.targets:
                if isinstance(t, ast.Name):
                    self.result_vars.add(t.id)      # alias of the callback result
        elif isinstance(st, ast.Assign) and any(isinstance(t, ast.Name) and t.id in self.result_vars for t in st.targets):
            state = frozenset(("?", c, d) for _rt, c, d in state)
        for c in calls_in(st):
            if isinstance(c.func, ast.Attribute) and c.func.attr in SCHED:
                self.report("rearm", c, state)
                state = frozenset((rt, ck, False) for rt, ck, _d in state)
            if isinstance(c.func, ast.Attribute) and c.func.attr == "cancel" and isinstance(c.func.value, ast.Name) and c.func.value.id == self.handle:
                state = frozenset((rt, ck, True) for rt, ck, _d in state)
        if isinstance(st, ast.Assign) and isinstance(st.value, ast.Constant) and st.value.value is None and \
                any(self._reads_state(t) for t in st.targets):
            state = frozenset((rt, ck, True) for rt, ck, _d in state)
        return state

    def test_transfer(self, test, state):
        if any(self._is_cb_call(n) for n in ast.walk(test)):
            state = frozenset(("?", "unchecked", d) for _rt, _c, d in state)
        return state

    def _atom(self, e, pol, state):
        new = set()
        for rt, ck, d in state:
            is_r = (isinstance(e, ast.Name) and e.id in self.result_vars) or self._is_cb_call(e)
            if is_r:
                want = "T" if pol else "F"
                if rt in ("?", want):
                    new.add((want, ck, d))
                continue
            alive = None
            if self._reads_state(e):
                alive = pol
            elif isinstance(e, ast.Compare) and len(e.ops) == 1 and self._reads_state(e.left) and \
                    isinstance(e.comparators[0], ast.Constant) and e.comparators[0].value is None:
                if isinstance(e.ops[0], (ast.IsNot, ast.NotEq)):
                    alive = pol
                elif isinstance(e.ops[0], (ast.Is, ast.Eq)):
                    alive = not pol
            if alive is not None and ck != "pre":
                new.add((rt, "alive" if alive else "deadknown", d))
                continue
            new.add((rt, ck, d))
        return frozenset(new) or None

    def refine(self, test, state):
        return refine_bool(test, state, self._atom, lambda a, b: a | b)


def check(ctx):
    repo = ctx.repo
    m = repo.module(MOD)
    hcls, cancel, attrs, outer, runner = discover(repo)
    ctx.note("timer_model", {"handler_class": hcls, "cancel_writes": sorted(attrs), "periodic": outer.fq, "runner": runner.fq})
    ctx.rule("C15-R1", "typestate: every re-arm reachable after the callback ran is on a path that re-read the state cancel() writes, after the callback, and found the timer alive")
    ctx.rule("C15-R2", "every scheduling call of the timer module stores its handle in the cancel-visible attribute of the timer object that is returned to the program")
    ctx.rule("C15-R3", "re-arm only on a true callback result; on a false result the handle is marked dead before the runner returns")
    ctx.rule("C15-R4", "cancel(): 0 without side effect when already dead, else cancels the delegate, marks dead, returns 1; who-may-write the state attribute = __init__, cancel, arming sites; .timerc returns cancel()'s result")
    ctx.rule("C15-R5", "a Klong function callback is wrapped in the re-resolving wrapper before it reaches the runner")
    ctx.trust("asyncio: Handle.cancel() prevents the scheduled call", "scheduling APIs considered: " + ", ".join(sorted(SCHED)))

    cbnames = callback_names(outer, runner)
    if not cbnames:
        raise AnalysisError("the runner does not invoke the periodic function's callback parameter")
    rparams = runner.params()
    handle = rparams[0] if rparams else None
    if handle is None:
        raise AnalysisError("runner has no handle parameter")

    # ---- R1 / R3 on the runner
    events = []
    sem = RunnerSem(cbnames, handle, attrs, lambda kind, node, state: events.append((kind, node, state)))
    exits = sem.run(runner.node, frozenset([("-", "pre", False)]))
    rearm_sites = {}
    for kind, node, state in events:
        rearm_sites.setdefault(node, set()).update(state)
    ctx.floor("C15-R1", "re-arm sites inside the runner", len(rearm_sites), 1)
    for node, states in rearm_sites.items():
        ctx.instance("C15-R1", runner.fq, src(node))
        bad1 = [s for s in states if s[1] in ("unchecked", "deadknown")]
        ctx.ob("C15-R1", runner.fq, "re-arm is dominated, after the callback, by a test that the cancel state is still alive", not bad1,
               node=node, construct=f"re-arm {node.func.attr} after callback",
               msg=f"the timer is re-armed on a path that never re-reads {handle}.{'/'.join(sorted(attrs))} after the callback: a callback that cancels its own timer gets 1 from .timerc and the timer keeps firing",
               path=f"entry {runner.fq} -> callback -> re-arm@{node.lineno}")
        bad3 = [s for s in states if s[0] != "T"]
        ctx.ob("C15-R3", runner.fq, "re-arm is control-dependent on a true callback result", not bad3, node=node,
               construct=f"re-arm {node.func.attr} without true result",
               msg="the timer is re-armed on a path where the callback's result is false or not yet known",
               path=f"entry {runner.fq} -> re-arm@{node.lineno}")
        # the re-armed callable is the runner with the same handle
        a = node.args
        off = 1 if node.func.attr in ("call_later", "call_at") else 0
        ok = len(a) >= off + 2 and isinstance(a[off], ast.Name) and a[off].id == runner.name and isinstance(a[off + 1], ast.Name) and a[off + 1].id == handle
        ctx.ob("C15-R2", runner.fq, "the re-armed callable is the runner itself with the same handle", ok, node=node,
               construct=f"re-arm target of {node.func.attr}")
    ctx.instance("C15-R3", runner.fq, "false result disarms")
    badx = [x for x in exits if x.kind == "return" and any(rt == "F" and not d for rt, _c, d in x.state)]
    ctx.ob("C15-R3", runner.fq, f"on every return with a false callback result the handle was marked dead ({len(exits)} exits)", not badx,
           node=(badx[0].node if badx else runner.node), construct="false result leaves handle alive",
           msg="a false callback result ends the ticking without marking the handle dead: .timerc would later report 1 for a timer that already stopped",
           path=(f"entry {runner.fq} -> return@{badx[0].line}" if badx else None))
    # the callback is invoked exactly once per run of the runner, not in a loop
    cbcalls = [n for n in walk_local(runner.node) if sem._is_cb_call(n)]
    in_loop = any(any(isinstance(p, (ast.For, ast.While)) for p in _anc(n, runner.node)) for n in cbcalls)
    ctx.ob("C15-R1", runner.fq, "the user callback is invoked once per run of the runner (one call site, not in a loop)", len(cbcalls) == 1 and not in_loop,
           node=runner.node, construct="callback invoked once per tick", msg=f"{len(cbcalls)} callback call sites{' inside a loop' if in_loop else ''}: a tick would invoke the callback more than once")

    # ---- R2 every scheduling call stores its handle
    sched = []
    for f in m.funcs.values():
        for c in _sched_calls(f.node):
            sched.append((f, c))
    ctx.floor("C15-R2", "scheduling calls in the timer module", len(sched), 3)
    stored_on = set()
    for f, c in sched:
        ctx.instance("C15-R2", f.fq, src(c))
        st, val = c._parent, c
        while isinstance(st, ast.IfExp) and val in (st.body, st.orelse):      # `h.delegate = loop.call_soon(..) if c else loop.call_at(..)`
            st, val = st._parent, st
        ok = isinstance(st, ast.Assign) and st.value is val and len(st.targets) == 1 and isinstance(st.targets[0], ast.Attribute) \
            and st.targets[0].attr in attrs and isinstance(st.targets[0].value, ast.Name)
        if ok:
            stored_on.add((f.fq, st.targets[0].value.id))
        ctx.ob("C15-R2", f.fq, f"handle returned by {c.func.attr} is stored in .{'/'.join(sorted(attrs))} of the timer object", ok, node=c,
               construct=f"{c.func.attr} handle stored", msg="a scheduled tick whose loop handle is not stored cannot be cancelled by .timerc")
    # the object armed in the outer function is the one returned and the one handed to the runner
    rets = [n for n in walk_local(outer.node) if isinstance(n, ast.Return) and n.value is not None]
    armed = {v for fq, v in stored_on if fq == outer.fq}
    ok = bool(rets) and all(isinstance(r.value, ast.Name) and r.value.id in armed for r in rets)
    ctx.ob("C15-R2", outer.fq, "the periodic function returns the very timer object whose attribute holds the armed handle", ok, node=outer.node,
           construct="returned handle is the armed one")
    for c in _sched_calls(outer.node):
        off = 1 if c.func.attr in ("call_later", "call_at") else 0
        a = c.args
        ok = len(a) >= off + 2 and isinstance(a[off], ast.Name) and a[off].id == runner.name and isinstance(a[off + 1], ast.Name) and a[off + 1].id in armed
        ctx.ob("C15-R2", outer.fq, "the first tick runs the runner with the returned timer object", ok, node=c, construct=f"first arm target of {c.func.attr}")

    # ---- R4 cancel typestate and who-may-write
    _check_cancel(ctx, cancel, attrs)
    n_w = 0
    for mn, mod in repo.modules.items():
        for n in ast.walk(mod.tree):
            if isinstance(n, ast.Attribute) and n.attr in attrs and isinstance(n.ctx, (ast.Store, ast.Del)) and (mn == MOD):
                n_w += 1
                fn = n
                while fn is not None and not isinstance(fn, FUNC):
                    fn = getattr(fn, "_parent", None)
                fi = getattr(fn, "_fi", None)
                st = n._parent
                def _is_sched(v):
                    if isinstance(v, ast.IfExp):
                        return _is_sched(v.body) and _is_sched(v.orelse)
                    return isinstance(v, ast.Call) and isinstance(v.func, ast.Attribute) and v.func.attr in SCHED
                arming = isinstance(st, ast.Assign) and _is_sched(st.value)
                ok = arming or (fi is not None and fi.cls == hcls and fi.name in ("__init__", "cancel"))
                ctx.ob("C15-R4", fi.fq if fi else f"{mn}:<module>", f"store to .{n.attr} is an arming site or inside {hcls}.__init__/cancel", ok, node=st,
                       construct=f"store to .{n.attr}", msg=f"the cancel state .{n.attr} is written outside __init__/cancel/arming: cancellation can be undone or faked")
    ctx.floor("C15-R4", "stores to the cancel state", n_w, 4)
    # .timerc returns the result of cancel()
    tc = [f for f in m.funcs.values() if f.parent is None and not f.cls and any(
        isinstance(c.func, ast.Attribute) and c.func.attr == "cancel" for c in calls_in(f.node))]
    ctx.floor("C15-R4", "system function that calls cancel()", len(tc), 1)
    for f in tc:
        ctx.instance("C15-R4", f.fq)
        from ..common import handle_type_accepted
        found, accepted, bad = handle_type_accepted(f, hcls)
        ctx.ob("C15-R4", f.fq, f"a {hcls} value (what .timer returns) is accepted as given by .timerc", found and accepted, node=f.node, construct="timerc accepts the handle timer returns",
               msg=f".timerc only looks for the handle under `{bad}`: the object .timer returns is not of that kind")
        p = f.params()
        from ..flow import return_alts
        for facts, v, r in return_alts(f.node):      # `if timer: return x.cancel()` / `return 0` and `return x.cancel() if timer else 0` alike
            is_cancel = isinstance(v, ast.Call) and isinstance(v.func, ast.Attribute) and v.func.attr == "cancel" and isinstance(v.func.value, ast.Name) and v.func.value.id in p
            zero_ok = isinstance(v, ast.Constant) and v.value == 0 and any(
                isinstance(e, ast.Call) and callee_name(e) == "isinstance" and not pol for e, pol in facts)
            ctx.ob("C15-R4", f.fq, "returns cancel()'s result, or 0 only for a value that is not a timer", is_cancel or zero_ok, node=r,
                   construct=f"return {src(v) if v is not None else None}", msg=".timerc's result is not the live->dead transition reported by cancel()")

    # ---- R5 callback wrapped before the runner sees it
    _check_wrapping(ctx, repo, outer)
    # the wrapper itself: call-time resolution, eager symbol binding, at most one dispatch per tick (shared with C09)
    ctx.rule("C09-R2", "shared with C09: arity guard dominates every dispatch of the re-resolving wrapper")
    ctx.rule("C09-R3", "shared with C09: the wrapper resolves its symbol at call time, binds it eagerly at construction and dispatches at most once per call")
    from . import c09
    c09._r2_r3(ctx, repo)


def _anc(node, stop):
    p = getattr(node, "_parent", None)
    while p is not None and p is not stop:
        yield p
        p = getattr(p, "_parent", None)


class CancelSem(Sem):
    """state: frozenset of (known, cancelled, marked): known in D(ead) A(live) ?"""
    base_exc_escapes = False

    def __init__(self, attrs, result_vars=()):
        self.attrs = attrs
        self.result_vars = set(result_vars)     # locals that are returned (single-exit spelling): their constant value rides in the state

    def join2(self, a, b):
        return a | b

    def _state_ref(self, e):
        return isinstance(e, ast.Attribute) and e.attr in self.attrs and isinstance(e.value, ast.Name) and e.value.id == "self"

    def transfer(self, st, state):
        for c in calls_in(st):
            if isinstance(c.func, ast.Attribute) and c.func.attr == "cancel" and self._state_ref(c.func.value):
                state = frozenset((k, True, m) + tuple(r) for k, _c, m, *r in state)
        if isinstance(st, ast.Assign) and any(self._state_ref(t) for t in st.targets):
            isnone = isinstance(st.value, ast.Constant) and st.value.value is None
            state = frozenset((k, c, isnone) + tuple(r) for k, c, _m, *r in state)
        if isinstance(st, ast.Assign) and len(st.targets) == 1 and isinstance(st.targets[0], ast.Name) and st.targets[0].id in self.result_vars:
            v = st.value.value if isinstance(st.value, ast.Constant) else "?"
            state = frozenset((k, c, m, v) for k, c, m, *_r in state)
        return state

    def _atom(self, e, pol, state):
        dead_pol = None
        if isinstance(e, ast.Compare) and len(e.ops) == 1 and self._state_ref(e.left) and isinstance(e.comparators[0], ast.Constant) \
                and e.comparators[0].value is None:
            dead_pol = pol if isinstance(e.ops[0], (ast.Is, ast.Eq)) else (not pol)
        elif self._state_ref(e):
            dead_pol = not pol
        if dead_pol is None:
            return state
        want = "D" if dead_pol else "A"
        out = {(want, c, m) + tuple(r) for k, c, m, *r in state if k in ("?", want)}
        return frozenset(out) or None

    def refine(self, test, state):
        return refine_bool(test, state, self._atom, lambda a, b: a | b)


def _check_cancel(ctx, cancel, attrs):
    ctx.instance("C15-R4", cancel.fq)
    rvars = {r.value.id for r in walk_local(cancel.node) if isinstance(r, ast.Return) and isinstance(r.value, ast.Name)}
    exits = CancelSem(attrs, rvars).run(cancel.node, frozenset([("?", False, False, None)]))
    rets = [x for x in exits if x.kind == "return"]
    n_paths = 0
    for x in rets:
        v = x.node.value if isinstance(x.node, ast.Return) else None
        for k, c, m, rv in sorted(x.state, key=str):
            n_paths += 1
            val = v.value if isinstance(v, ast.Constant) else (rv if isinstance(v, ast.Name) and v.id in rvars else None)
            if val == 0:
                ok = k == "D" and not c
                msg = "cancel() returns 0 on a path where the timer may be alive or after touching the delegate"
            elif val == 1:
                ok = k == "A" and c and m
                msg = "cancel() returns 1 without having cancelled the delegate and marked the timer dead on a path where it was alive"
            else:
                ok, msg = False, "cancel() returns something other than the constants 0/1"
            ctx.ob("C15-R4", cancel.fq, f"return {val!r} in state known={k} cancelled={c} marked={m}", ok, node=x.node,
                   construct=f"cancel() return {val!r} [{k},{'c' if c else '-'},{'m' if m else '-'}]", msg=msg)
    ctx.floor("C15-R4", "return paths of cancel() (return statement x abstract state)", n_paths, 2)


def _check_wrapping(ctx, repo, outer):
    m = repo.module(MOD)
    callers = [(f, c) for f in m.funcs.values() for c in calls_in(f.node) if isinstance(c.func, ast.Name) and c.func.id == outer.name]
    ctx.floor("C15-R5", "callers of the periodic function", len(callers), 1)
    oparams = outer.params()
    for f, c in callers:
        ctx.instance("C15-R5", f.fq, src(c))
        # the callback argument: the parameter the runner's default binds
        cbp = None
        runner_defaults = [d.id for g in m.funcs.values() if g.parent is outer for d in g.node.args.defaults if isinstance(d, ast.Name)]
        for p in oparams:
            if p in runner_defaults:
                cbp = p
        if cbp is None:
            cbp = oparams[-1]
        idx = oparams.index(cbp)
        arg = c.args[idx] if idx < len(c.args) else next((k.value for k in c.keywords if k.arg == cbp), None)
        if not isinstance(arg, ast.Name):
            ctx.ob("C15-R5", f.fq, "callback argument is a local variable with analysable definitions", False, node=c, construct="callback argument shape")
            continue
        from ..common import name_defs
        wrapped = False
        for v, d in name_defs(f.node, arg.id):
            if isinstance(v, ast.Constant) and v.value is None:
                continue          # the 'no callback' placeholder of an error path (the function returns the error before using it)
            is_wrap = isinstance(v, ast.Call) and callee_name(v) == "KGFnWrapper"
            facts = atoms_at(d, f.node)
            kgfn_true = any(isinstance(e, ast.Call) and callee_name(e) == "isinstance" and len(e.args) == 2 and src(e.args[1]) in ("KGFn", "(KGFn,)") and pol for e, pol in facts)
            kgfn_false = any(isinstance(e, ast.Call) and callee_name(e) == "isinstance" and len(e.args) == 2 and src(e.args[1]) in ("KGFn", "(KGFn,)") and not pol for e, pol in facts)
            if is_wrap:
                # wrapper must not pin a symbol by a constant and must wrap the incoming function value
                fparams = set(f.params())
                ok = any(isinstance(a, ast.Name) and a.id in fparams for a in v.args[1:2])
                ctx.ob("C15-R5", f.fq, "the wrapper wraps the function argument itself (dynamic re-resolution by symbol lookup)", ok, node=d, construct="KGFnWrapper(klong, z)")
                wrapped = wrapped or kgfn_true
            else:
                ctx.ob("C15-R5", f.fq, "an unwrapped callback is only taken when the value is not a Klong function", kgfn_false, node=d,
                       construct=f"unwrapped callback {src(v)}", msg="a Klong function can reach the periodic runner unwrapped: redefinitions of a named callback would not take effect at the next tick")
        ctx.ob("C15-R5", f.fq, "under isinstance(z, KGFn) the callback is bound to the re-resolving wrapper", wrapped, node=c, construct="KGFn callback wrapped")


# functions whose mechanical mutants are swept in the thorough tier (coverage evidence, see sa/mutate.py)
MUTATION_SCOPE = ['sys_fn_timer:KGTimerHandler.__init__',
                  'sys_fn_timer:KGTimerHandler.cancel',
                  'sys_fn_timer:_call_periodic',
                  'sys_fn_timer:_call_periodic.run',
                  'sys_fn_timer:eval_sys_fn_timer',
                  'sys_fn_timer:eval_sys_fn_cancel_timer',
                  'types:KGFnWrapper.__call__']

SEEDS = [
    Seed("drop-cancel-check", "fault", MOD, "        if r and handle.delegate is not None:", "        if r:", rule="C15-R1"),
    Seed("check-before-callback", "fault", MOD, "        r = fn()\n        # the callback may have cancelled this timer (delegate is None then)\n        if r and handle.delegate is not None:",
         "        alive = handle.delegate is not None\n        r = fn()\n        if r and alive:", rule="C15-R1"),
    Seed("fire-and-forget", "fault", MOD, "                handle.delegate = loop.call_soon(run, handle)", "                loop.call_soon(run, handle)", rule="C15-R2"),
    Seed("rearm-regardless-of-result", "fault", MOD, "        if r and handle.delegate is not None:", "        if handle.delegate is not None:", rule="C15-R3"),
    Seed("false-result-no-disarm", "fault", MOD, "        else:\n            handle.cancel()\n", "        else:\n            pass\n", rule="C15-R3"),
    Seed("cancel-returns-1-when-dead", "fault", MOD, "        if self.delegate is None:\n            return 0", "        if self.delegate is None:\n            return 1", rule="C15-R4"),
    Seed("cancel-forgets-mark", "fault", MOD, "        self.delegate.cancel()\n        self.delegate = None", "        self.delegate.cancel()", rule="C15-R4"),
    Seed("cancel-forgets-delegate", "fault", MOD, "        self.delegate.cancel()\n        self.delegate = None", "        self.delegate = None", rule="C15-R4"),
    Seed("timerc-returns-const", "fault", MOD, "    return x.cancel()", "    x.cancel()\n    return 1", rule="C15-R4"),
    Seed("unwrapped-kgfn", "fault", MOD, "        callback = KGFnWrapper(klong, z)", "        callback = lambda: klong.call(KGCall(z.a, [], z.arity))", rule="C15-R5"),
    Seed("returns-other-handle", "fault", MOD, "    return periodic", "    return KGTimerHandler(name, interval)", rule="C15-R2"),
    Seed("callback-twice", "fault", MOD, "        r = fn()\n", "        fn()\n        r = fn()\n", rule="C15-R1"),
    Seed("refactor-split-tests", "refactor", MOD, "        if r and handle.delegate is not None:", "        alive = r\n        if alive and not (handle.delegate is None):"),
    Seed("refactor-early-return", "refactor", MOD,
         "        if r and handle.delegate is not None:\n            if interval == 0:\n                handle.delegate = loop.call_soon(run, handle)\n            else:\n                handle.delegate = loop.call_later(interval - ((loop.time() - start) % interval), run, handle)\n        else:\n            handle.cancel()",
         "        if not r or handle.delegate is None:\n            handle.cancel()\n            return\n        if interval == 0:\n            handle.delegate = loop.call_soon(run, handle)\n        else:\n            handle.delegate = loop.call_later(interval - ((loop.time() - start) % interval), run, handle)"),
    Seed("refactor-rename-handle", "refactor", MOD, "    periodic = KGTimerHandler(name, interval)\n    if interval == 0:\n        periodic.delegate = loop.call_soon(run, periodic)\n    else:\n        periodic.delegate = loop.call_at(start + interval, run, periodic)\n\n    return periodic",
         "    th = KGTimerHandler(name, interval)\n    if interval == 0:\n        th.delegate = loop.call_soon(run, th)\n    else:\n        th.delegate = loop.call_at(start + interval, run, th)\n\n    return th"),
]
