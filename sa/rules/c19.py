"""C19 — a table holds exactly the rows inserted into it.

Structural clause decided: insert buffering is invisible.  Every table method that touches the frame
in a row-dependent way, or changes state the flush depends on, has flushed the insert buffer first on
every path; nothing outside the table class reaches the frame or the buffer; consumers never keep a
frame obtained from the flushing accessor across calls.  pandas merge/ordering results are NOT decided.
"""
import ast

from ..model import AnalysisError, src, callee_name, dotted, walk_local, calls_in, FUNC
from ..flow import Sem, eval_walk
from ..callgraph import CallGraph
from ..selftest import Seed

META = {
    "technique": "flush-before-use must-dataflow on every path of every table method, row-source dataflow through the flush method (old rows + buffered rows reach the frame on every exit), encapsulation (who-may-access), no-caching rule for the flushing accessor",
    "level_text": "Static proof over all paths of all methods of the table class that the insert buffer is flushed before any row-dependent use of the frame and before any change of the state the flush reads, plus repository-wide encapsulation of the frame/buffer. Quantifies over paths and methods (including readers nobody tests); does not decide pandas results.",
    "level_note": "decides the structural clause below from source; does not decide the behaviour. Trusted: attribute names are resolved syntactically on `self`; the table class is discovered by role (a buffer appended to by inserts and drained by exactly one method).",
    "explanation": (
        "Static analysis of klongpy/db/sys_fn_db.py (+ repo-wide encapsulation scan): decides the structural clause "
        "'every method of the table class flushes the insert buffer before any use of the frame other than .columns, and before "
        "writing any attribute the flush itself reads; the frame and the buffer are never touched outside the class; a frame "
        "returned by the flushing accessor is never cached by a consumer; index reset drops the helper columns index creation "
        "adds; inserts append their argument to the buffer on every path; the flush returns early only on an empty buffer and otherwise "
        "re-assigns the frame from old rows followed by buffered rows, resets the buffer only afterwards, re-sorts on the indexed branch, and "
        "never loses the buffered rows on a raising path; index build/reset keep the index-state attribute in step'. It decides that buffering is structurally invisible, not the merge results of pandas."),
    "assumptions": ["no reflective access (getattr/__dict__) to the frame or buffer; checked: none in klongpy/db"],
}

MOD = "db/sys_fn_db"


def discover_table(repo):
    """the class with a list attribute created empty in __init__ and appended to by insert* methods; the flush is the one other
    method that reads that attribute and assigns another attribute of self (the frame)"""
    m = repo.module(MOD)
    for cname, c in m.classes.items():
        appended, inited, readers = {}, set(), {}
        for f in m.funcs.values():
            if f.cls != cname or f.parent is not None:
                continue
            for n in walk_local(f.node):
                if isinstance(n, ast.Call) and isinstance(n.func, ast.Attribute) and n.func.attr in ("append", "extend"):
                    d = dotted(n.func.value)
                    if d and d.startswith("self."):
                        appended.setdefault(d[5:], set()).add(f.name)
                if isinstance(n, ast.Assign) and isinstance(n.value, (ast.List,)) and not n.value.elts and f.name == "__init__":
                    for t in n.targets:
                        d = dotted(t)
                        if d and d.startswith("self."):
                            inited.add(d[5:])
                if isinstance(n, ast.Attribute) and isinstance(n.value, ast.Name) and n.value.id == "self" and isinstance(n.ctx, ast.Load) \
                        and f.name != "__init__" and not f.name.startswith("insert"):
                    readers.setdefault(n.attr, set()).add(f.name)
        for attr in appended:
            if attr in inited and any(x.startswith("insert") for x in appended[attr]):
                cands = []
                for fname in sorted(readers.get(attr, ())):
                    fn = m.funcs[f"{cname}.{fname}"]
                    if any(isinstance(n, ast.Assign) and any((dotted(t) or "").startswith("self.") and dotted(t) != f"self.{attr}" for t in n.targets)
                           for n in walk_local(fn.node)):
                        cands.append(fname)
                if len(cands) == 1:
                    return cname, attr, cands[0]
                raise AnalysisError(f"flush method of {cname} not identified: methods reading self.{attr} and assigning an attribute: {cands}")
    raise AnalysisError(f"table class not found in {MOD} (no list attribute created in __init__ and appended to by insert*)")


def frame_attr(repo, cname, flush):
    """the attribute the flush method assigns a DataFrame to"""
    f = repo.fn(f"{MOD}:{cname}.{flush}")
    cands = []
    for n in walk_local(f.node):
        if isinstance(n, ast.Assign):
            for t in n.targets:
                d = dotted(t)
                if d and d.startswith("self.") and d.count(".") == 1 and not (isinstance(n.value, ast.List) and not n.value.elts):
                    cands.append(d[5:])
    if not cands:
        raise AnalysisError("flush method assigns no frame attribute")
    return max(set(cands), key=cands.count)


class FlushSem(Sem):
    """state: True when the buffer is known flushed on every path reaching here"""
    base_exc_escapes = False

    def __init__(self, flushers, buffer_attr, frame, watched_stores, report):
        self.flushers, self.buf, self.frame, self.watched, self.report = flushers, buffer_attr, frame, watched_stores, report

    def join2(self, a, b):
        return a and b

    def _scan(self, node, state):
        """abstract evaluation of one simple statement / test in evaluation order (conditional
        sub-expressions are joined: a flush in one arm of `a if c else b` does not count for the other)"""
        def visit(n, st):
            if isinstance(n, ast.Call) and isinstance(n.func, ast.Attribute):
                if isinstance(n.func.value, ast.Name) and n.func.value.id == "self":
                    if n.func.attr in self.flushers:
                        return True
                    if n.func.attr.startswith("insert"):
                        return False
                if n.func.attr in ("append", "extend", "insert") and dotted(n.func.value) == f"self.{self.buf}":
                    return False
            if isinstance(n, ast.Attribute) and isinstance(n.value, ast.Name) and n.value.id == "self":
                if n.attr == self.frame:
                    par = getattr(n, "_parent", None)
                    if isinstance(par, ast.Attribute) and par.attr == "columns" and isinstance(n.ctx, ast.Load):
                        return st    # schema only: independent of rows
                    self.report("use", n, st)
                elif n.attr in self.watched and isinstance(n.ctx, ast.Store):
                    self.report("watched-store", n, st)
            return st
        return eval_walk(node, state, visit, lambda a, b: a and b)

    def transfer(self, st, state):
        return self._scan(st, state)

    def test_transfer(self, test, state):
        return self._scan(test, state)


class MergeSem(Sem):
    """C19-R6: which row sources the frame holds on each path of the flush method.
    state = (buffer state, sources held by the frame, ((local, sources), ...), (on the has_index() branch?, frame re-assigned there and not yet re-sorted));
    buffer state: 'full' (may hold rows), 'empty' (tested empty at entry), 'cleared' (reset after entry), 'mixed'"""
    base_exc_escapes = False

    def __init__(self, buf, frame):
        self.buf, self.frame = buf, frame
        self.order_faults = []

    # the abstract state is a SET of single-path states (no merging: whether the buffer was empty is decided per path)
    def join2(self, a, b):
        return a | b

    def transfer(self, st, state):
        return frozenset(self._t1(st, s_) for s_ in state)

    def refine(self, test, state):
        T, F = set(), set()
        for s_ in state:
            t_, f_ = self._r1(test, s_)
            if t_ is not None:
                T.add(t_)
            if f_ is not None:
                F.add(f_)
        return (frozenset(T) or None), (frozenset(F) or None)

    def _join_unused(self, a, b):
        ba, fa, ea, (ia, sa_) = a
        bb, fb, eb, (ib, sb_) = b
        da, db = dict(ea), dict(eb)
        env = tuple(sorted((k, da[k] & db[k]) for k in da.keys() & db.keys()))
        return (ba if ba == bb else "mixed", fa & fb, env, (ia if ia == ib else None, sa_ or sb_))

    def srcs(self, e, state):
        b, fr, env, _ix = state
        env = dict(env)
        out = set()
        for n in ast.walk(e):
            if isinstance(n, ast.Attribute) and isinstance(n.value, ast.Name) and n.value.id == "self" and isinstance(n.ctx, ast.Load):
                if n.attr == self.frame:
                    out |= fr
                elif n.attr == self.buf and b in ("full", "mixed"):
                    out.add("buf")
            elif isinstance(n, ast.Name) and isinstance(n.ctx, ast.Load):
                out |= env.get(n.id, frozenset())
        return frozenset(out)

    def _order_preserving(self, vn):
        """a selection of rows of the frame itself (frame[mask], frame.loc[...], frame.iloc[...]) keeps the order it had"""
        if isinstance(vn, ast.Subscript):
            b = vn.value
            if isinstance(b, ast.Attribute) and b.attr in ("loc", "iloc"):
                b = b.value
            return dotted(b) == f"self.{self.frame}"
        return False

    def _order(self, e, state):
        """within one list/concatenation expression the old rows come before the buffered ones"""
        for n in ast.walk(e):
            seq = None
            if isinstance(n, (ast.List, ast.Tuple)) and len(n.elts) >= 2:
                seq = n.elts
            elif isinstance(n, ast.BinOp) and isinstance(n.op, ast.Add):
                seq = [n.left, n.right]
            if not seq:
                continue
            tags = [self.srcs(x, state) for x in seq]
            first_buf = next((i for i, t in enumerate(tags) if "buf" in t and "old" not in t), None)
            last_old = next((i for i in reversed(range(len(tags))) if "old" in tags[i] and "buf" not in tags[i]), None)
            if first_buf is not None and last_old is not None and first_buf < last_old:
                self.order_faults.append(n)

    def _r1(self, test, state):
        from ..common import emptiness
        b, fr, env, ix = state
        t, pol = test, True
        while isinstance(t, ast.UnaryOp) and isinstance(t.op, ast.Not):
            t, pol = t.operand, not pol
        if isinstance(t, ast.Call) and dotted(t.func) == "self.has_index":
            on = (b, fr, env, (True, ix[1]))
            return (on, state) if pol else (state, on)
        # the test says the buffer (or a local that is the buffer) is empty / non-empty
        envd = dict(env)

        def is_buf(x):
            return x == f"self.{self.buf}" or envd.get(x) == frozenset({"buf"})
        et, ef = emptiness(test, True), emptiness(test, False)
        empty_when = True if (et and is_buf(et)) else (False if (ef and is_buf(ef)) else None)
        if empty_when is None or b != "full":
            return state, state
        e = ("empty", fr, env, ix)
        return (e, state) if empty_when else (state, e)

    def _t1(self, st, state):
        b, fr, env, (indexed, unsorted) = state
        if isinstance(st, (ast.Assign, ast.AugAssign, ast.AnnAssign)) and getattr(st, "value", None) is not None:
            self._order(st.value, state)
            aug = isinstance(st, ast.AugAssign)
            envd = dict(env)
            pairs = []
            for t in (st.targets if isinstance(st, ast.Assign) else [st.target]):
                if isinstance(t, (ast.Tuple, ast.List)) and isinstance(st.value, (ast.Tuple, ast.List)) and len(t.elts) == len(st.value.elts):
                    pairs += list(zip(t.elts, st.value.elts))
                elif isinstance(t, (ast.Tuple, ast.List)):
                    pairs += [(x, st.value) for x in t.elts]
                else:
                    pairs.append((t, st.value))
            vals = [(t, vn, self.srcs(vn, state)) for t, vn in pairs]      # right-hand sides are evaluated before any store
            for t, vn, v in vals:
                if isinstance(t, ast.Name):
                    envd[t.id] = (envd.get(t.id, frozenset()) | v) if aug else v
                    continue
                d = dotted(t)
                if d == f"self.{self.frame}":
                    fr = (fr | v) if aug else v
                    if not self._order_preserving(vn):
                        unsorted = indexed is True and not (isinstance(vn, ast.Call) and isinstance(vn.func, ast.Attribute) and vn.func.attr == "sort_index")
                elif d == f"self.{self.buf}":
                    b = "cleared" if isinstance(vn, ast.List) and not vn.elts and not aug else "mixed"
                else:
                    base = t
                    while isinstance(base, (ast.Subscript, ast.Attribute)) and dotted(base) != f"self.{self.frame}":
                        base = base.value
                    if dotted(base) == f"self.{self.frame}":
                        fr = fr | v          # partial update of the frame: keeps what it had (and the order it had)
                    elif isinstance(base, ast.Name):
                        envd[base.id] = envd.get(base.id, frozenset()) | v
            env = tuple(sorted(envd.items()))
        elif isinstance(st, ast.Expr):
            self._order(st.value, state)
            envd = dict(env)
            for c in calls_in(st):
                # a local list of row blocks grown in place: blocks.append(x) / blocks.extend(xs) put the new rows AFTER what it holds
                if isinstance(c.func, ast.Attribute) and isinstance(c.func.value, ast.Name) and c.func.attr in ("append", "extend", "insert") and c.func.value.id in envd:
                    add = frozenset().union(*[self.srcs(a, state) for a in c.args]) if c.args else frozenset()
                    if c.func.attr == "insert" and "buf" in add and "old" in envd[c.func.value.id]:
                        self.order_faults.append(c)
                    envd[c.func.value.id] = envd[c.func.value.id] | add
            env = tuple(sorted(envd.items()))
            for c in calls_in(st):
                if isinstance(c.func, ast.Attribute) and dotted(c.func.value) == f"self.{self.buf}" and c.func.attr in ("clear",):
                    b = "cleared"
                if isinstance(c.func, ast.Attribute) and dotted(c.func.value) == f"self.{self.frame}" and c.func.attr == "sort_index" \
                        and any(k.arg == "inplace" and isinstance(k.value, ast.Constant) and k.value.value is True for k in c.keywords):
                    unsorted = False
        return (b, fr, env, (indexed, unsorted))


def _flush_integrity(ctx, repo, m, cname, buf, flush, frame, methods):
    fflush = repo.fn(f"{MOD}:{cname}.{flush}")
    # (a) inserts append their argument to the buffer on every path, at the end
    n_ins = 0
    for f in methods:
        if not f.name.startswith("insert"):
            continue
        n_ins += 1
        ctx.instance("C19-R6", f.fq, "append to buffer")
        params = [p for p in f.params() if p != "self"]

        class App(Sem):
            base_exc_escapes = False

            def join2(self, a, b):
                return a and b

            def transfer(s, st, state):
                for c in calls_in(st):
                    if isinstance(c.func, ast.Attribute) and dotted(c.func.value) == f"self.{buf}" and c.func.attr in ("append", "extend") \
                            and len(c.args) == 1 and any(isinstance(x, ast.Name) and x.id in params for x in ast.walk(c.args[0])):
                        return True
                return state
        exits = App().run(f.node, False)
        bad = [e for e in exits if e.kind == "return" and not e.state]
        ctx.ob("C19-R6", f.fq, f"every normal path appends the row argument to self.{buf} (append/extend: arrival order)", not bad and any(e.kind == "return" for e in exits),
               node=bad[0].node if bad else f.node, construct=f"{f.name} does not buffer its argument",
               msg=f"{cname}.{f.name} can return without appending its argument to self.{buf}: the inserted rows are lost",
               path=f"entry {f.fq} -> exit line {bad[0].line if bad else f.node.lineno}")
        for c in calls_in(f.node):
            if isinstance(c.func, ast.Attribute) and dotted(c.func.value) == f"self.{buf}" and c.func.attr not in ("append", "extend"):
                ctx.ob("C19-R6", f.fq, "the buffer is only appended to", False, node=c, construct=f"self.{buf}.{c.func.attr} in {f.name}",
                       msg=f"{cname}.{f.name} uses self.{buf}.{c.func.attr}(): buffered rows no longer sit in arrival order")
    ctx.floor("C19-R6", "insert methods", n_ins, 2)
    # (b) the flush merges: on every normal exit either the buffer was empty at entry, or the frame holds old+buffered rows and the buffer is reset
    ctx.instance("C19-R6", fflush.fq, "merge")
    sem = MergeSem(buf, frame)
    exits = sem.run(fflush.node, frozenset([("full", frozenset({"old"}), (), (None, False))]))
    n_exit = 0
    def _judge(e, st1):
        b, fr, _env, (indexed, unsorted) = st1
        if b != "empty":
            ctx.ob("C19-R6", fflush.fq, "indexed flush: the frame is re-sorted by key after the last re-assignment", not unsorted, node=e.node,
                   construct="indexed flush leaves the frame unsorted",
                   msg=f"{cname}.{flush} re-assigns the indexed frame (new keys appended at the end) without sorting it again: rows are no longer ordered by key",
                   path=f"entry {fflush.fq} -> has_index() branch -> exit line {e.line}")
        ok = b == "empty" and "old" in fr or (b == "cleared" and {"old", "buf"} <= fr)
        why = ("the buffer is not known empty and was not reset" if b not in ("empty", "cleared") else
               "the frame does not hold the buffered rows" if "buf" not in fr and b == "cleared" else
               "the frame does not hold the rows it had before" if "old" not in fr else "")
        ctx.ob("C19-R6", fflush.fq, "flush exit: buffer empty at entry, or frame := old rows + buffered rows and buffer reset afterwards", ok, node=e.node,
               construct=f"flush exit without merge ({why})" if not ok else "flush exit",
               msg=f"{cname}.{flush} can return with {why}: rows are lost, duplicated on the next flush, or never become visible",
               path=f"entry {fflush.fq} -> exit line {e.line}")
    for e0 in exits:
        if e0.kind != "return":
            continue
        for st1 in sorted(e0.state, key=str):        # one judgement per path state reaching this exit
            n_exit += 1
            _judge(e0, st1)
    n_exc = 0
    for e in exits:
        if e.kind != "exc":
            continue
        n_exc += 1
        ok = all(b in ("full", "empty") or "buf" in fr for b, fr, _env, _ix in e.state)
        ctx.ob("C19-R6", fflush.fq, "failed flush: the buffered rows are still in the buffer or already in the frame", ok, node=e.node,
               construct="flush can fail after detaching the buffered rows",
               msg=f"{cname}.{flush} resets self.{buf} before the frame holds its rows: if the merge raises, the rows inserted since the last read silently vanish",
               path=f"entry {fflush.fq} -> raising statement line {e.line}")
    ctx.floor("C19-R6", "exceptional exits of the flush method", n_exc, 2)
    for n in sem.order_faults:
        ctx.ob("C19-R6", fflush.fq, "old rows precede buffered rows in every concatenation", False, node=n, construct="buffered rows concatenated before old rows",
               msg=f"{cname}.{flush} puts buffered rows before the rows already in the frame: insertion order is not preserved")
    ctx.floor("C19-R6", "normal exits of the flush method", n_exit, 2)
    # (c) index state agrees with the frame: the method that builds the index records its columns after building; the one that resets it forgets them
    idx_attr = None
    for n in walk_local(repo.fn(f"{MOD}:{cname}.has_index").node) if f"{cname}.has_index" in m.funcs else []:
        if isinstance(n, ast.Attribute) and isinstance(n.value, ast.Name) and n.value.id == "self":
            idx_attr = n.attr
    if idx_attr is None:
        raise AnalysisError("index-state attribute not found (has_index)")
    # the index helper, by role: the function of this module (static method or module-level) that calls DataFrame.set_index on its
    # argument and that the flush method uses to key the buffered rows
    used_by_flush = {callee_name(c) for c in calls_in(fflush.node)}
    helper = next((f for f in m.funcs.values() if f.parent is None and f.name in used_by_flush and (f.cls in (None, cname)) and
                   (f.cls is None or any(isinstance(d, ast.Name) and d.id == "staticmethod" for d in f.node.decorator_list)) and
                   any(isinstance(c.func, ast.Attribute) and c.func.attr == "set_index" for c in calls_in(f.node))), None)
    if helper is None:
        raise AnalysisError("index helper (function calling DataFrame.set_index, used by the flush) not found")
    n_idx = 0
    for f in methods:
        if f.name in ("__init__", flush) or f is helper:
            continue
        builds = [c for c in calls_in(f.node) if callee_name(c) == helper.name]
        resets = [c for c in calls_in(f.node) if isinstance(c.func, ast.Attribute) and c.func.attr == "reset_index" and dotted(c.func.value) != "self"]
        stores = [n for n in walk_local(f.node) if isinstance(n, ast.Assign) and any(dotted(t) == f"self.{idx_attr}" for t in n.targets)]
        fstores = [n for n in walk_local(f.node) if isinstance(n, ast.Assign) and any(dotted(t) == f"self.{frame}" for t in n.targets)]
        if builds:
            n_idx += 1
            ctx.instance("C19-R6", f.fq, "index build records columns")
            arg = src(builds[0].args[1]) if len(builds[0].args) > 1 else None
            ok = any(src(s.value) == arg and _dominates_exit(s, f.node) for s in stores)
            ctx.ob("C19-R6", f.fq, f"after building the index on {arg}, self.{idx_attr} := {arg} unconditionally", ok, node=builds[0],
                   construct=f"index built without recording self.{idx_attr}",
                   msg=f"{cname}.{f.name} indexes the frame but does not record the index columns: later flushes append instead of upserting and has_index() lies")
        if resets:
            n_idx += 1
            ctx.instance("C19-R6", f.fq, "index reset forgets columns")
            ok = any(isinstance(s.value, ast.Constant) and s.value.value is None for s in stores)
            ctx.ob("C19-R6", f.fq, f"after resetting the index, self.{idx_attr} := None", ok, node=resets[0], construct=f"index reset without clearing self.{idx_attr}",
                   msg=f"{cname}.{f.name} drops the index but keeps self.{idx_attr}: later flushes upsert against a frame that has no index")
            from ..common import resolve_single_assign as _rsa
            okf = any(any(c is r for c in calls_in(s)) or any(c is r for c in ast.walk(_rsa(s.value, f.node))) for s in fstores for r in resets)
            ctx.ob("C19-R6", f.fq, f"the re-set frame is stored back into self.{frame}", okf, node=resets[0], construct="reset_index result not stored",
                   msg=f"{cname}.{f.name} computes the un-indexed frame but does not store it: the table keeps its index while claiming to have none")
    ctx.floor("C19-R6", "index build/reset methods", n_idx, 2)


def _dominates_exit(stmt, fnode):
    """the statement sits at function level (not under a branch / loop / handler)"""
    return getattr(stmt, "_parent", None) is fnode


def check(ctx):
    repo = ctx.repo
    cg = CallGraph(repo)
    ctx.rule("C19-R7", "per-table state: no class of the table module keeps a container in its class body that methods write in place without __init__ rebinding it (a class-level insert buffer is shared by all tables: rows inserted into one table surface in another)")
    from ..common import check_no_class_level_containers
    k = check_no_class_level_containers(ctx, repo, "C19-R7", [(MOD, c) for c in repo.module(MOD).classes],
                                        "rows buffered for one table are merged into whichever table is read first")
    ctx.floor("C19-R7", "classes of the table module inspected", k, 1)
    cname, buf, flush = discover_table(repo)
    frame = frame_attr(repo, cname, flush)
    m = repo.module(MOD)
    ctx.note("table_class", {"class": cname, "buffer": buf, "flush": flush, "frame": frame})
    ctx.rule("C19-R1", "flush-before-use: in every method of the table class every use of the frame other than `.columns` is preceded on every path by the flush (direct or through a flushing accessor)")
    ctx.rule("C19-R2", "WHO-MAY: the frame attribute and the insert buffer are accessed only inside the table class")
    ctx.rule("C19-R3", "index reset drops exactly the helper columns index creation adds (same naming expression)")
    ctx.rule("C19-R4", "state the flush reads (index columns, column list) is written only after the buffer has been flushed")
    ctx.rule("C19-R6", "flush integrity: inserts append their argument to the buffer; the flush returns early only when the buffer is empty, otherwise the frame is re-assigned from old rows followed by buffered rows and the buffer is reset afterwards; index build/reset keep the index-state attribute in step with the frame")
    ctx.rule("C19-R5", "consumers call the flushing accessor at every use: its result is never stored in an attribute/long-lived container and the call is not conditional")

    methods = [f for f in m.funcs.values() if f.cls == cname and f.parent is None]
    fflush = repo.fn(f"{MOD}:{cname}.{flush}")
    # flushers: the flush method and every method that calls it unconditionally as its first effect and returns the frame
    flushers = {flush}
    for f in methods:
        if f.name == flush:
            continue
        body = [s for s in f.node.body if not (isinstance(s, ast.Expr) and isinstance(s.value, ast.Constant))]
        rets = [n for n in walk_local(f.node) if isinstance(n, ast.Return)]
        if body and isinstance(body[0], ast.Expr) and isinstance(body[0].value, ast.Call) and dotted(body[0].value.func) == f"self.{flush}" \
                and rets and all(r.value is not None and dotted(r.value) == f"self.{frame}" for r in rets):
            flushers.add(f.name)
    accessors = {n for n in flushers if n != flush}
    ctx.floor("C19-R1", "flushing accessors", len(accessors), 1)
    # attributes the flush reads (transitively through self.<method>() calls)
    reads, seen, work = set(), set(), [fflush]
    while work:
        f = work.pop()
        if f.fq in seen:
            continue
        seen.add(f.fq)
        for n in walk_local(f.node):
            if isinstance(n, ast.Attribute) and isinstance(n.value, ast.Name) and n.value.id == "self" and isinstance(n.ctx, ast.Load):
                g = m.funcs.get(f"{cname}.{n.attr}")
                if g is not None:
                    work.append(g)
                else:
                    reads.add(n.attr)
    watched = reads - {buf, frame}
    ctx.note("flush_reads", sorted(reads))

    n_uses = 0
    for f in methods:
        if f.name in ("__init__", flush):
            continue
        is_static = any(isinstance(d, ast.Name) and d.id in ("staticmethod", "classmethod") for d in f.node.decorator_list)
        if is_static:
            continue
        ctx.instance("C19-R1", f.fq)
        found = []

        def report(kind, node, state, _f=f, _found=found):
            _found.append((kind, node, state))
        sem = FlushSem(flushers, buf, frame, watched, report)
        sem.run(f.node, False)
        # a site may be visited several times (loop fixpoint): it is discharged only if flushed on every visit
        sites = {}
        for kind, node, state in found:
            k = (kind, node)
            sites[k] = sites.get(k, True) and state
        for (kind, node), ok in sites.items():
            n_uses += 1
            if kind == "use":
                ctx.ob("C19-R1", f.fq, f"use of self.{frame} is preceded by the flush on every path", ok,
                       node=getattr(node, "_parent", node), construct=f"unflushed use of self.{frame} in {f.name}",
                       msg=f"{cname}.{f.name} touches self.{frame} while inserts may still sit in self.{buf}: rows inserted so far are not reflected / are merged wrongly later",
                       path=f"entry {f.fq} -> line {node.lineno}")
            else:
                ctx.ob("C19-R4", f.fq, f"store to self.{node.attr} (read by {flush}) happens after the flush", ok,
                       node=getattr(node, "_parent", node), construct=f"store to self.{node.attr} before flush in {f.name}",
                       msg=f"{cname}.{f.name} changes self.{node.attr}, which {flush}() reads, while inserts are still buffered: the pending rows are then merged under the new setting",
                       path=f"entry {f.fq} -> line {node.lineno}")
    ctx.floor("C19-R1", "frame uses / watched stores examined", n_uses, 6)

    _flush_integrity(ctx, repo, m, cname, buf, flush, frame, methods)

    # ---- R2 encapsulation (whole repository)
    inside = outside = 0
    for mn, mod in repo.modules.items():
        for n in ast.walk(mod.tree):
            if isinstance(n, ast.Attribute) and n.attr in (frame, buf) and (n.attr == frame or mn.startswith("db/")):
                owner = None
                p = n
                while p is not None:
                    if isinstance(p, ast.ClassDef):
                        owner = p.name
                        break
                    p = getattr(p, "_parent", None)
                if mn == MOD and owner == cname and isinstance(n.value, ast.Name) and n.value.id == "self":
                    inside += 1
                    continue
                if n.attr == buf and not mn.startswith("db/"):
                    continue
                outside += 1
                fn = None
                p = n
                while p is not None and not isinstance(p, FUNC):
                    p = getattr(p, "_parent", None)
                where = f"{mn}:{p._fi.qual}" if p is not None and hasattr(p, "_fi") else f"{mn}:<module>"
                ctx.ob("C19-R2", where, f"no access to .{n.attr} outside {cname}", False, node=n,
                       construct=f"{src(n)} outside {cname}",
                       msg=f"the table's {'frame' if n.attr == frame else 'insert buffer'} is reached from outside the table class, bypassing the flush")
    ctx.instance("C19-R2", MOD, "encapsulation scan")
    ctx.ob("C19-R2", MOD, f"{inside} accesses to .{frame}/.{buf}, all inside {cname} on self", outside == 0, construct="encapsulation",
           msg="see the individual sites")
    ctx.control("C19-R2", f"accesses to self.{frame}/self.{buf} inside {cname} are matched (found {inside})", inside >= 8)

    # ---- R5 consumers
    n_cons = 0
    for f in repo.all_funcs():
        if f.cls == cname and f.module.name == MOD:
            continue
        for c in calls_in(f.node):
            if isinstance(c.func, ast.Attribute) and c.func.attr in accessors:
                n_cons += 1
                ctx.instance("C19-R5", f.fq, src(c))
                st = c
                while not isinstance(st, ast.stmt):
                    st = st._parent
                stored = False
                if isinstance(st, (ast.Assign, ast.AugAssign, ast.AnnAssign)):
                    tgts = st.targets if isinstance(st, ast.Assign) else [st.target]
                    for t in tgts:
                        base = t
                        while isinstance(base, (ast.Subscript, ast.Attribute)):
                            if isinstance(base, ast.Attribute) and isinstance(base.value, ast.Name) and base.value.id == "self":
                                stored = True
                            base = base.value
                ctx.ob("C19-R5", f.fq, "the frame returned by the flushing accessor is not kept in an attribute", not stored, node=st,
                       construct=f"cached frame from {c.func.attr}()", msg="a frame is cached across calls: later inserts/flushes replace the table's frame and the cache goes stale")
                # not conditional inside a loop over tables
                cond = False
                p, child = st._parent, st
                while p is not None and not isinstance(p, FUNC):
                    if isinstance(p, ast.If) and any(isinstance(q, (ast.For, ast.While)) for q in _ancestors(p, f.node)):
                        cond = True
                    child, p = p, p._parent
                ctx.ob("C19-R5", f.fq, "the accessor is called unconditionally for every table of the loop", not cond, node=st,
                       construct=f"conditional {c.func.attr}() in loop", msg="the flushing accessor is skipped for some tables on some calls; a stale frame is used instead")
    ctx.floor("C19-R5", "consumer call sites of the flushing accessor", n_cons, 2)

    # ---- R3 naming agreement of the helper index columns
    unit_fns = list(methods) + [f for f in m.funcs.values() if f.cls is None and f.parent is None]          # the helper may live at module level
    creators = [f for f in unit_fns if any(isinstance(c.func, ast.Attribute) and c.func.attr == "set_index" and
                                          any(k.arg == "inplace" for k in c.keywords) for c in calls_in(f.node))]
    droppers = [f for f in methods if any(isinstance(c.func, ast.Attribute) and c.func.attr == "drop" and
                                          any(k.arg == "columns" for k in c.keywords) for c in calls_in(f.node))]
    ctx.floor("C19-R3", "index creator / dropper methods", min(len(creators), len(droppers)), 1)

    def templates(f):
        out = set()
        for n in walk_local(f.node):
            if isinstance(n, ast.JoinedStr):
                out.add("".join(v.value if isinstance(v, ast.Constant) else "{}" for v in n.values))
        return out
    for a in creators:
        for b in droppers:
            ctx.instance("C19-R3", f"{a.fq}|{b.fq}")
            ta, tb = templates(a), templates(b)
            ctx.ob("C19-R3", b.fq, f"helper column naming agrees: {sorted(ta)} vs {sorted(tb)}", bool(ta) and ta == tb, node=b.node,
                   construct="index helper column naming", msg=f"index creation names helper columns {sorted(ta)} but reset drops {sorted(tb)}")


def _ancestors(node, stop):
    p = getattr(node, "_parent", None)
    while p is not None and p is not stop:
        yield p
        p = getattr(p, "_parent", None)


# functions whose mechanical mutants are swept in the thorough tier (coverage evidence, see sa/mutate.py)
MUTATION_SCOPE = ['db/sys_fn_db:Table.get',
                  'db/sys_fn_db:Table.set',
                  'db/sys_fn_db:Table.schema',
                  'db/sys_fn_db:Table.set_index',
                  'db/sys_fn_db:Table.reset_index',
                  'db/sys_fn_db:Table.get_dataframe',
                  'db/sys_fn_db:Table.insert',
                  'db/sys_fn_db:Table.insertb',
                  'db/sys_fn_db:Table.commit',
                  'db/sys_fn_db:Table.__len__',
                  'db/sys_fn_db:Table.__str__',
                  'db/sys_fn_db:Database.__call__',
                  'db/sys_fn_kvs:TableStorage.set']

SEEDS = [
    Seed("get-without-flush", "fault", MOD, "        v = self.get_dataframe().get(x)", "        v = self._df.get(x)", rule="C19-R1"),
    Seed("set-without-flush", "fault", MOD, "        self.get_dataframe()[x] = y", "        self._df[x] = y", rule="C19-R1"),
    Seed("len-without-flush", "fault", MOD, "        return len(self.get_dataframe())", "        return len(self._df) + len(self.buffer)", rule="C19-R1"),
    Seed("new-reader-head", "fault", MOD, "    def insert(self, y):", "    def head(self, n):\n        return self._df.head(n)\n\n    def insert(self, y):", rule="C19-R1"),
    Seed("insertb-bypasses-buffer", "fault", MOD, "        self.buffer.extend(y)",
         "        if not self.has_index():\n            values = np.concatenate([self._df.values, y])\n            self._df = pd.DataFrame(values, columns=self.columns, copy=False)\n            return\n        self.buffer.extend(y)", rule="C19-R1"),
    Seed("idx-cols-before-flush", "fault", MOD, "        df = self.get_dataframe()\n        self._df = self._create_index_from_cols(df, idx_cols)\n        self.idx_cols = idx_cols",
         "        self.idx_cols = idx_cols\n        self._df = self._create_index_from_cols(self.get_dataframe(), idx_cols)", rule="C19-R4"),
    Seed("flush-on-one-branch", "fault", MOD, "        df = self.get_dataframe()\n        self._df = df.reset_index()",
         "        df = self.get_dataframe() if self.idx_cols else self._df\n        self._df = df.reset_index()", rule="C19-R1"),
    Seed("db-caches-frames", "fault", MOD, "            locals()[k] = v.get_dataframe()",
         "            if v.buffer or k not in self._frames:\n                self._frames[k] = v.get_dataframe()\n            locals()[k] = self._frames[k]", rule="C19-R5"),
    Seed("kvs-reads-df-directly", "fault", "db/sys_fn_kvs", "self.cache.update(key_to_file_path(x), y.get_dataframe())", "self.cache.update(key_to_file_path(x), y._df)", rule="C19-R2"),
    Seed("rename-helper-col", "fault", MOD, '            iic = [f"{ic}_idx" for ic in self.idx_cols]', '            iic = [f"{ic}_index" for ic in self.idx_cols]', rule="C19-R3"),
    Seed("commit-extra-early-return", "fault", MOD, "        if not self.buffer:\n            return\n        if self.has_index():", "        if not self.buffer or self._df.empty:\n            return\n        if self.has_index():", rule="C19-R6"),
    Seed("commit-buffer-not-reset", "fault", MOD, "            self._df = pd.DataFrame(values, columns=self.columns, copy=False)\n        self.buffer = []", "            self._df = pd.DataFrame(values, columns=self.columns, copy=False)", rule="C19-R6"),
    Seed("commit-reset-before-merge", "fault", MOD, "        if self.has_index():\n            buffer_df = pd.DataFrame(self.buffer, columns=self.columns)", "        rows, self.buffer = self.buffer, []\n        if self.has_index():\n            buffer_df = pd.DataFrame(self.buffer, columns=self.columns)", rule="C19-R6"),
    Seed("commit-detach-before-merge", "fault", MOD, "        if self.has_index():\n            buffer_df = pd.DataFrame(self.buffer, columns=self.columns)\n",
         "        rows, self.buffer = self.buffer, []\n        if self.has_index():\n            buffer_df = pd.DataFrame(rows, columns=self.columns)\n", rule="C19-R6"),
    Seed("commit-concat-order", "fault", MOD, "np.concatenate([self._df.values] + [y.reshape(1, -1) for y in self.buffer])", "np.concatenate([y.reshape(1, -1) for y in self.buffer] + [self._df.values])", rule="C19-R6"),
    Seed("commit-unindexed-drops-old", "fault", MOD, "np.concatenate([self._df.values] + [y.reshape(1, -1) for y in self.buffer])", "np.concatenate([y.reshape(1, -1) for y in self.buffer])", rule="C19-R6"),
    Seed("commit-indexed-unsorted", "fault", MOD, "            self._df.sort_index(inplace=True)\n        else:", "        else:", rule="C19-R6"),
    Seed("refactor-commit-filter-after-sort", "refactor", MOD, "            self._df.sort_index(inplace=True)\n        else:", "            self._df.sort_index(inplace=True)\n            self._df = self._df[~self._df.index.duplicated(keep='last')]\n        else:"),
    Seed("refactor-commit-sort-assign", "refactor", MOD, "            self._df.sort_index(inplace=True)\n        else:", "            self._df = self._df.sort_index()\n        else:"),
    Seed("insert-prepends", "fault", MOD, "        self.buffer.append(y)", "        self.buffer.insert(0, y)", rule="C19-R6"),
    Seed("insert-skips-when-indexed", "fault", MOD, "        self.buffer.append(y)", "        if self.idx_cols is not None and len(self.buffer) > 1024:\n            return\n        self.buffer.append(y)", rule="C19-R6"),
    Seed("set-index-forgets-cols", "fault", MOD, "        self._df = self._create_index_from_cols(df, idx_cols)\n        self.idx_cols = idx_cols", "        self._df = self._create_index_from_cols(df, idx_cols)", rule="C19-R6"),
    Seed("reset-keeps-idx-cols", "fault", MOD, "            self._df.drop(columns=iic, inplace=True)\n            self.idx_cols = None", "            self._df.drop(columns=iic, inplace=True)", rule="C19-R6"),
    Seed("reset-result-not-stored", "fault", MOD, "        self._df = df.reset_index()", "        df.reset_index()", rule="C19-R6"),
    Seed("refactor-commit-len-test", "refactor", MOD, "        if not self.buffer:\n            return\n        if self.has_index():", "        if len(self.buffer) == 0:\n            return\n        if self.has_index():"),
    Seed("refactor-commit-rows-local", "refactor", MOD, "            values = np.concatenate([self._df.values] + [y.reshape(1, -1) for y in self.buffer])", "            rows = [y.reshape(1, -1) for y in self.buffer]\n            old = self._df.values\n            values = np.concatenate([old] + rows)"),
    Seed("refactor-commit-then-df", "refactor", MOD, "        v = self.get_dataframe().get(x)", "        self.commit()\n        frame = self._df\n        v = frame.get(x)"),
    Seed("refactor-schema-columns", "refactor", MOD, "        return np.array(self._df.columns, dtype=object)", "        cols = self._df.columns\n        return np.array(cols, dtype=object)"),
    Seed("refactor-len-temp", "refactor", MOD, "        return len(self.get_dataframe())", "        df = self.get_dataframe()\n        return len(df)"),
]
