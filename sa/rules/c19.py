"""C19 — a table holds exactly the rows inserted into it.

Structural clause decided: insert buffering is invisible.  Every table method that touches the frame
in a row-dependent way, or changes state the flush depends on, has flushed the insert buffer first on
every path; nothing outside the table class reaches the frame or the buffer; consumers never keep a
frame obtained from the flushing accessor across calls.  pandas merge/ordering results are NOT decided.
"""
import ast

from ..model import AnalysisError, src, callee_name, dotted, walk_local, calls_in, FUNC
from ..flow import Sem, eval_walk
from ..callgraph import CallGraph
from ..selftest import Seed

META = {
    "technique": "flush-before-use must-dataflow on every path of every table method, encapsulation (who-may-access), no-caching rule for the flushing accessor",
    "level_text": "Static proof over all paths of all methods of the table class that the insert buffer is flushed before any row-dependent use of the frame and before any change of the state the flush reads, plus repository-wide encapsulation of the frame/buffer. Quantifies over paths and methods (including readers nobody tests); does not decide pandas results.",
    "level_note": "decides the structural clause below from source; does not decide the behaviour. Trusted: attribute names are resolved syntactically on `self`; the table class is discovered by role (a buffer appended to by inserts and drained by exactly one method).",
    "explanation": (
        "Static analysis of klongpy/db/sys_fn_db.py (+ repo-wide encapsulation scan): decides the structural clause "
        "'every method of the table class flushes the insert buffer before any use of the frame other than .columns, and before "
        "writing any attribute the flush itself reads; the frame and the buffer are never touched outside the class; a frame "
        "returned by the flushing accessor is never cached by a consumer; index reset drops the helper columns index creation "
        "adds'. It decides that buffering is structurally invisible, not the merge results of pandas."),
    "assumptions": ["no reflective access (getattr/__dict__) to the frame or buffer; checked: none in klongpy/db"],
}

MOD = "db/sys_fn_db"


def discover_table(repo):
    """the class with a list attribute appended to by insert* methods and reset by exactly one method"""
    m = repo.module(MOD)
    for cname, c in m.classes.items():
        appended, drained = {}, {}
        for f in m.funcs.values():
            if f.cls != cname or f.parent is not None:
                continue
            for n in walk_local(f.node):
                if isinstance(n, ast.Call) and isinstance(n.func, ast.Attribute) and n.func.attr in ("append", "extend"):
                    d = dotted(n.func.value)
                    if d and d.startswith("self."):
                        appended.setdefault(d[5:], set()).add(f.name)
                if isinstance(n, ast.Assign) and isinstance(n.value, (ast.List,)) and not n.value.elts and f.name != "__init__":
                    for t in n.targets:
                        d = dotted(t)
                        if d and d.startswith("self."):
                            drained.setdefault(d[5:], set()).add(f.name)
        for attr in appended:
            if attr in drained and len(drained[attr]) == 1 and any(x.startswith("insert") for x in appended[attr]):
                return cname, attr, next(iter(drained[attr]))
    raise AnalysisError(f"table class not found in {MOD} (no buffer appended by insert* and drained by one method)")


def frame_attr(repo, cname, flush):
    """the attribute the flush method assigns a DataFrame to"""
    f = repo.fn(f"{MOD}:{cname}.{flush}")
    cands = []
    for n in walk_local(f.node):
        if isinstance(n, ast.Assign):
            for t in n.targets:
                d = dotted(t)
                if d and d.startswith("self.") and d.count(".") == 1 and not (isinstance(n.value, ast.List) and not n.value.elts):
                    cands.append(d[5:])
    if not cands:
        raise AnalysisError("flush method assigns no frame attribute")
    return max(set(cands), key=cands.count)


class FlushSem(Sem):
    """state: True when the buffer is known flushed on every path reaching here"""
    base_exc_escapes = False

    def __init__(self, flushers, buffer_attr, frame, watched_stores, report):
        self.flushers, self.buf, self.frame, self.watched, self.report = flushers, buffer_attr, frame, watched_stores, report

    def join2(self, a, b):
        return a and b

    def _scan(self, node, state):
        """abstract evaluation of one simple statement / test in evaluation order (conditional
        sub-expressions are joined: a flush in one arm of `a if c else b` does not count for the other)"""
        def visit(n, st):
            if isinstance(n, ast.Call) and isinstance(n.func, ast.Attribute):
                if isinstance(n.func.value, ast.Name) and n.func.value.id == "self":
                    if n.func.attr in self.flushers:
                        return True
                    if n.func.attr.startswith("insert"):
                        return False
                if n.func.attr in ("append", "extend", "insert") and dotted(n.func.value) == f"self.{self.buf}":
                    return False
            if isinstance(n, ast.Attribute) and isinstance(n.value, ast.Name) and n.value.id == "self":
                if n.attr == self.frame:
                    par = getattr(n, "_parent", None)
                    if isinstance(par, ast.Attribute) and par.attr == "columns" and isinstance(n.ctx, ast.Load):
                        return st    # schema only: independent of rows
                    self.report("use", n, st)
                elif n.attr in self.watched and isinstance(n.ctx, ast.Store):
                    self.report("watched-store", n, st)
            return st
        return eval_walk(node, state, visit, lambda a, b: a and b)

    def transfer(self, st, state):
        return self._scan(st, state)

    def test_transfer(self, test, state):
        return self._scan(test, state)


def check(ctx):
    repo = ctx.repo
    cg = CallGraph(repo)
    cname, buf, flush = discover_table(repo)
    frame = frame_attr(repo, cname, flush)
    m = repo.module(MOD)
    ctx.note("table_class", {"class": cname, "buffer": buf, "flush": flush, "frame": frame})
    ctx.rule("C19-R1", "flush-before-use: in every method of the table class every use of the frame other than `.columns` is preceded on every path by the flush (direct or through a flushing accessor)")
    ctx.rule("C19-R2", "WHO-MAY: the frame attribute and the insert buffer are accessed only inside the table class")
    ctx.rule("C19-R3", "index reset drops exactly the helper columns index creation adds (same naming expression)")
    ctx.rule("C19-R4", "state the flush reads (index columns, column list) is written only after the buffer has been flushed")
    ctx.rule("C19-R5", "consumers call the flushing accessor at every use: its result is never stored in an attribute/long-lived container and the call is not conditional")

    methods = [f for f in m.funcs.values() if f.cls == cname and f.parent is None]
    fflush = repo.fn(f"{MOD}:{cname}.{flush}")
    # flushers: the flush method and every method that calls it unconditionally as its first effect and returns the frame
    flushers = {flush}
    for f in methods:
        if f.name == flush:
            continue
        body = [s for s in f.node.body if not (isinstance(s, ast.Expr) and isinstance(s.value, ast.Constant))]
        rets = [n for n in walk_local(f.node) if isinstance(n, ast.Return)]
        if body and isinstance(body[0], ast.Expr) and isinstance(body[0].value, ast.Call) and dotted(body[0].value.func) == f"self.{flush}" \
                and rets and all(r.value is not None and dotted(r.value) == f"self.{frame}" for r in rets):
            flushers.add(f.name)
    accessors = {n for n in flushers if n != flush}
    ctx.floor("C19-R1", "flushing accessors", len(accessors), 1)
    # attributes the flush reads (transitively through self.<method>() calls)
    reads, seen, work = set(), set(), [fflush]
    while work:
        f = work.pop()
        if f.fq in seen:
            continue
        seen.add(f.fq)
        for n in walk_local(f.node):
            if isinstance(n, ast.Attribute) and isinstance(n.value, ast.Name) and n.value.id == "self" and isinstance(n.ctx, ast.Load):
                g = m.funcs.get(f"{cname}.{n.attr}")
                if g is not None:
                    work.append(g)
                else:
                    reads.add(n.attr)
    watched = reads - {buf, frame}
    ctx.note("flush_reads", sorted(reads))

    n_uses = 0
    for f in methods:
        if f.name in ("__init__", flush):
            continue
        is_static = any(isinstance(d, ast.Name) and d.id in ("staticmethod", "classmethod") for d in f.node.decorator_list)
        if is_static:
            continue
        ctx.instance("C19-R1", f.fq)
        found = []

        def report(kind, node, state, _f=f, _found=found):
            _found.append((kind, node, state))
        sem = FlushSem(flushers, buf, frame, watched, report)
        sem.run(f.node, False)
        # a site may be visited several times (loop fixpoint): it is discharged only if flushed on every visit
        sites = {}
        for kind, node, state in found:
            k = (kind, node)
            sites[k] = sites.get(k, True) and state
        for (kind, node), ok in sites.items():
            n_uses += 1
            if kind == "use":
                ctx.ob("C19-R1", f.fq, f"use of self.{frame} is preceded by the flush on every path", ok,
                       node=getattr(node, "_parent", node), construct=f"unflushed use of self.{frame} in {f.name}",
                       msg=f"{cname}.{f.name} touches self.{frame} while inserts may still sit in self.{buf}: rows inserted so far are not reflected / are merged wrongly later",
                       path=f"entry {f.fq} -> line {node.lineno}")
            else:
                ctx.ob("C19-R4", f.fq, f"store to self.{node.attr} (read by {flush}) happens after the flush", ok,
                       node=getattr(node, "_parent", node), construct=f"store to self.{node.attr} before flush in {f.name}",
                       msg=f"{cname}.{f.name} changes self.{node.attr}, which {flush}() reads, while inserts are still buffered: the pending rows are then merged under the new setting",
                       path=f"entry {f.fq} -> line {node.lineno}")
    ctx.floor("C19-R1", "frame uses / watched stores examined", n_uses, 6)

    # ---- R2 encapsulation (whole repository)
    inside = outside = 0
    for mn, mod in repo.modules.items():
        for n in ast.walk(mod.tree):
            if isinstance(n, ast.Attribute) and n.attr in (frame, buf) and (n.attr == frame or mn.startswith("db/")):
                owner = None
                p = n
                while p is not None:
                    if isinstance(p, ast.ClassDef):
                        owner = p.name
                        break
                    p = getattr(p, "_parent", None)
                if mn == MOD and owner == cname and isinstance(n.value, ast.Name) and n.value.id == "self":
                    inside += 1
                    continue
                if n.attr == buf and not mn.startswith("db/"):
                    continue
                outside += 1
                fn = None
                p = n
                while p is not None and not isinstance(p, FUNC):
                    p = getattr(p, "_parent", None)
                where = f"{mn}:{p._fi.qual}" if p is not None and hasattr(p, "_fi") else f"{mn}:<module>"
                ctx.ob("C19-R2", where, f"no access to .{n.attr} outside {cname}", False, node=n,
                       construct=f"{src(n)} outside {cname}",
                       msg=f"the table's {'frame' if n.attr == frame else 'insert buffer'} is reached from outside the table class, bypassing the flush")
    ctx.instance("C19-R2", MOD, "encapsulation scan")
    ctx.ob("C19-R2", MOD, f"{inside} accesses to .{frame}/.{buf}, all inside {cname} on self", outside == 0, construct="encapsulation",
           msg="see the individual sites")
    ctx.control("C19-R2", f"accesses to self.{frame}/self.{buf} inside {cname} are matched (found {inside})", inside >= 8)

    # ---- R5 consumers
    n_cons = 0
    for f in repo.all_funcs():
        if f.cls == cname and f.module.name == MOD:
            continue
        for c in calls_in(f.node):
            if isinstance(c.func, ast.Attribute) and c.func.attr in accessors:
                n_cons += 1
                ctx.instance("C19-R5", f.fq, src(c))
                st = c
                while not isinstance(st, ast.stmt):
                    st = st._parent
                stored = False
                if isinstance(st, (ast.Assign, ast.AugAssign, ast.AnnAssign)):
                    tgts = st.targets if isinstance(st, ast.Assign) else [st.target]
                    for t in tgts:
                        base = t
                        while isinstance(base, (ast.Subscript, ast.Attribute)):
                            if isinstance(base, ast.Attribute) and isinstance(base.value, ast.Name) and base.value.id == "self":
                                stored = True
                            base = base.value
                ctx.ob("C19-R5", f.fq, "the frame returned by the flushing accessor is not kept in an attribute", not stored, node=st,
                       construct=f"cached frame from {c.func.attr}()", msg="a frame is cached across calls: later inserts/flushes replace the table's frame and the cache goes stale")
                # not conditional inside a loop over tables
                cond = False
                p, child = st._parent, st
                while p is not None and not isinstance(p, FUNC):
                    if isinstance(p, ast.If) and any(isinstance(q, (ast.For, ast.While)) for q in _ancestors(p, f.node)):
                        cond = True
                    child, p = p, p._parent
                ctx.ob("C19-R5", f.fq, "the accessor is called unconditionally for every table of the loop", not cond, node=st,
                       construct=f"conditional {c.func.attr}() in loop", msg="the flushing accessor is skipped for some tables on some calls; a stale frame is used instead")
    ctx.floor("C19-R5", "consumer call sites of the flushing accessor", n_cons, 2)

    # ---- R3 naming agreement of the helper index columns
    creators = [f for f in methods if any(isinstance(c.func, ast.Attribute) and c.func.attr == "set_index" and
                                          any(k.arg == "inplace" for k in c.keywords) for c in calls_in(f.node))]
    droppers = [f for f in methods if any(isinstance(c.func, ast.Attribute) and c.func.attr == "drop" and
                                          any(k.arg == "columns" for k in c.keywords) for c in calls_in(f.node))]
    ctx.floor("C19-R3", "index creator / dropper methods", min(len(creators), len(droppers)), 1)

    def templates(f):
        out = set()
        for n in walk_local(f.node):
            if isinstance(n, ast.JoinedStr):
                out.add("".join(v.value if isinstance(v, ast.Constant) else "{}" for v in n.values))
        return out
    for a in creators:
        for b in droppers:
            ctx.instance("C19-R3", f"{a.fq}|{b.fq}")
            ta, tb = templates(a), templates(b)
            ctx.ob("C19-R3", b.fq, f"helper column naming agrees: {sorted(ta)} vs {sorted(tb)}", bool(ta) and ta == tb, node=b.node,
                   construct="index helper column naming", msg=f"index creation names helper columns {sorted(ta)} but reset drops {sorted(tb)}")


def _ancestors(node, stop):
    p = getattr(node, "_parent", None)
    while p is not None and p is not stop:
        yield p
        p = getattr(p, "_parent", None)


# functions whose mechanical mutants are swept in the thorough tier (coverage evidence, see sa/mutate.py)
MUTATION_SCOPE = ['db/sys_fn_db:Table.get',
                  'db/sys_fn_db:Table.set',
                  'db/sys_fn_db:Table.schema',
                  'db/sys_fn_db:Table.set_index',
                  'db/sys_fn_db:Table.reset_index',
                  'db/sys_fn_db:Table.get_dataframe',
                  'db/sys_fn_db:Table.insert',
                  'db/sys_fn_db:Table.insertb',
                  'db/sys_fn_db:Table.commit',
                  'db/sys_fn_db:Table.__len__',
                  'db/sys_fn_db:Table.__str__',
                  'db/sys_fn_db:Database.__call__',
                  'db/sys_fn_kvs:TableStorage.set']

SEEDS = [
    Seed("get-without-flush", "fault", MOD, "        v = self.get_dataframe().get(x)", "        v = self._df.get(x)", rule="C19-R1"),
    Seed("set-without-flush", "fault", MOD, "        self.get_dataframe()[x] = y", "        self._df[x] = y", rule="C19-R1"),
    Seed("len-without-flush", "fault", MOD, "        return len(self.get_dataframe())", "        return len(self._df) + len(self.buffer)", rule="C19-R1"),
    Seed("new-reader-head", "fault", MOD, "    def insert(self, y):", "    def head(self, n):\n        return self._df.head(n)\n\n    def insert(self, y):", rule="C19-R1"),
    Seed("insertb-bypasses-buffer", "fault", MOD, "        self.buffer.extend(y)",
         "        if not self.has_index():\n            values = np.concatenate([self._df.values, y])\n            self._df = pd.DataFrame(values, columns=self.columns, copy=False)\n            return\n        self.buffer.extend(y)", rule="C19-R1"),
    Seed("idx-cols-before-flush", "fault", MOD, "        df = self.get_dataframe()\n        self._df = self._create_index_from_cols(df, idx_cols)\n        self.idx_cols = idx_cols",
         "        self.idx_cols = idx_cols\n        self._df = self._create_index_from_cols(self.get_dataframe(), idx_cols)", rule="C19-R4"),
    Seed("flush-on-one-branch", "fault", MOD, "        df = self.get_dataframe()\n        self._df = df.reset_index()",
         "        df = self.get_dataframe() if self.idx_cols else self._df\n        self._df = df.reset_index()", rule="C19-R1"),
    Seed("db-caches-frames", "fault", MOD, "            locals()[k] = v.get_dataframe()",
         "            if v.buffer or k not in self._frames:\n                self._frames[k] = v.get_dataframe()\n            locals()[k] = self._frames[k]", rule="C19-R5"),
    Seed("kvs-reads-df-directly", "fault", "db/sys_fn_kvs", "self.cache.update(key_to_file_path(x), y.get_dataframe())", "self.cache.update(key_to_file_path(x), y._df)", rule="C19-R2"),
    Seed("rename-helper-col", "fault", MOD, '            iic = [f"{ic}_idx" for ic in self.idx_cols]', '            iic = [f"{ic}_index" for ic in self.idx_cols]', rule="C19-R3"),
    Seed("refactor-commit-then-df", "refactor", MOD, "        v = self.get_dataframe().get(x)", "        self.commit()\n        frame = self._df\n        v = frame.get(x)"),
    Seed("refactor-schema-columns", "refactor", MOD, "        return np.array(self._df.columns, dtype=object)", "        cols = self._df.columns\n        return np.array(cols, dtype=object)"),
    Seed("refactor-len-temp", "refactor", MOD, "        return len(self.get_dataframe())", "        df = self.get_dataframe()\n        return len(df)"),
]
