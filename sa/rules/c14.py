"""C14 — every remote call gets its own answer or an error: never another's, never hangs.

Structural clauses decided: a pending call can only be completed with the frame carrying its own id;
every way out of the listener fails every pending call, with a real exception; the caller registers its
future on the io loop before the send can suspend, under one freshly drawn id; the server completes the
result future exactly once on every path; the pending table is touched from one thread only; a call on
a closed connection raises before anything is registered.  Timing ("promptly") is NOT decided.
"""
import ast

from ..model import AnalysisError, src, callee_name, dotted, walk_local, calls_in, FUNC, pos
from ..flow import Sem, atoms_at, path_conditions, split_conj, always_exits
from ..callgraph import CallGraph
from ..common import CompletionSem, is_awaited, in_loop, ancestors, resolve_single_assign
from ..selftest import Seed

META = {
    "technique": "must-pass-through on a CFG with exception edges, reaching definitions of the failure value, def-use of the message id, path enumeration of future completion, thread-ownership (execution-context) analysis, reply-or-exit path rule in the listener, gate rule (send stream read at send time; no suspension point between flushing the pending table and resetting the stream)",
    "level_text": "Static proof over all exits of the client run loop and the server command that pending futures are failed on every way out with a non-None exception, that completion is id-matched and exactly-once, and that the pending table is only mutated on the io loop. These are properties of fault positions and interleavings (connection lost at any point, close racing a call, handler raising inside a handler) that mocked single-call tests do not reach; timing is not decided.",
    "level_note": "decides the structural clause below from source; does not decide the behaviour. Trusted: asyncio futures (set_exception(None) raises TypeError; a future completed twice raises InvalidStateError); a coroutine passed to run_coroutine_threadsafe/create_task on the io loop runs on that loop's thread; any call may raise.",
    "explanation": (
        "Static analysis of klongpy/sys_fn_ipc.py: exit-path abstract interpretation of NetworkClient._run (state: pending calls possibly "
        "outstanding; every exit and the outer loop's back edge must have passed the fail-all routine), reaching definitions of the value given "
        "to set_exception, shape of the fail-all routine, def-use of (id, message) in the listener and of the id/future in call(), per-path "
        "completion counts of the result future in execute_server_command (exception edges included), and execution contexts of every "
        "mutation of the pending table."
        " R9: after a request was handed to the interpreter every normal return of the listener has sent the reply; R10: the registering coroutine sends through self.<stream> read on the io loop, and every function that flushes the pending table has reset that attribute before, or resets it afterwards with no await in between."),
    "assumptions": ["coroutines of NetworkClient run on the io loop (they are only scheduled through ioloop.call_soon_threadsafe / run_coroutine_threadsafe / awaited from other coroutines)"],
}

IPC = "sys_fn_ipc"
TABLE = "self.pending_responses"


class CleanSem(Sem):
    """state: frozenset of booleans: True = calls may be pending and the fail-all routine has not run since"""

    def __init__(self, cleanup_name, dirty_pred):
        self.cleanup, self.dirty_pred = cleanup_name, dirty_pred
        self.heads = {}

    def join2(self, a, b):
        return a | b

    def atomic(self, st):
        cs = calls_in(st)
        if self._is_cleanup(st) and isinstance(st, ast.Expr):
            return True      # the fail-all routine does not raise provided C14-R2 (real exception) and C14-R3 (plain loop + clear) hold
        return bool(cs) and all((dotted(c.func) or "").startswith("logging.") for c in cs)

    def _is_cleanup(self, st):
        return any(isinstance(c.func, ast.Attribute) and c.func.attr == self.cleanup for c in calls_in(st))

    def transfer(self, st, state):
        if self._is_cleanup(st):
            return frozenset([False])
        if self.dirty_pred(st):
            return frozenset([True])
        return state

    def exc_state(self, st, state):
        # the connect / listen statement may fail after calls were registered
        if self.dirty_pred(st):
            return state | frozenset([True])
        if self._is_cleanup(st):
            return state            # the routine itself raised before finishing
        return state

    def loop_done(self, st, head, back_states):
        self.heads[st] = (head, back_states)


def _registrations(m, call):
    """[(registration statement, registering coroutine node, {name in call(): name inside the coroutine})] for every store into the
    pending table made by call() itself, a closure of it, or a NetworkClient coroutine method that call() invokes"""
    out = []
    for f in m.funcs.values():
        if f.cls != call.cls:
            continue
        for n in walk_local(f.node):
            if isinstance(n, ast.Assign) and any(isinstance(t, ast.Subscript) and dotted(t.value) == TABLE for t in n.targets):
                top = f
                while top.parent is not None:
                    top = top.parent
                if top is call:
                    names = {x.id for x in ast.walk(call.node) if isinstance(x, ast.Name)}
                    out.append((n, f.node, {k: k for k in names}))
                elif f.parent is None:
                    # a method: how does call() invoke it?
                    for c in calls_in(call.node):
                        if isinstance(c.func, ast.Attribute) and c.func.attr == f.name and dotted(c.func.value) == "self":
                            params = [p for p in f.params() if p != "self"]
                            idmap = {}
                            for p_, a_ in zip(params, c.args):
                                if isinstance(a_, ast.Name):
                                    idmap[a_.id] = p_
                                elif isinstance(a_, ast.Call) and dotted(a_.func) == "uuid.uuid4":
                                    idmap["$uuid4"] = p_          # the id is drawn right in the argument list
                            for k in c.keywords:
                                if isinstance(k.value, ast.Name) and k.arg:
                                    idmap[k.value.id] = k.arg
                            out.append((n, f.node, idmap))
    return out


class _SetSem(Sem):
    """state: the event has been set on every path reaching here"""
    base_exc_escapes = False

    def __init__(self, ev, failall):
        self.ev, self.failall = ev, failall

    def join2(self, a, b):
        return a and b

    def atomic(self, st):
        # the fail-all routine is non-raising given C14-R2/R3; exception constructors and logging do not raise
        cs = calls_in(st)
        return not cs or all((dotted(c.func) or "").startswith(("logging.", "traceback.")) or
                             (isinstance(c.func, ast.Attribute) and c.func.attr in ("set", self.failall)) or
                             callee_name(c) in ("str", "type") or (callee_name(c) or "").endswith(("Exception", "Error")) for c in cs)

    def transfer(self, st, state):
        return state or any(isinstance(c.func, ast.Attribute) and c.func.attr == "set" and dotted(c.func.value) == self.ev for c in calls_in(st))


class _ReplySem(Sem):
    """state: set of {'idle' (no request run), 'pending' (request run, reply not sent), 'replied'} over the paths reaching here"""
    base_exc_escapes = False
    n_req = 0

    def join2(self, a, b):
        return a | b

    def atomic(self, st):
        cs = calls_in(st)
        return bool(cs) and all((dotted(c.func) or "").startswith(("logging.", "traceback.")) for c in cs)

    def transfer(self, st, state):
        for c in calls_in(st):
            if callee_name(c) == "run_command_on_klongloop":
                self.n_req += 1
                state = frozenset(["pending"])
            elif callee_name(c) == "stream_send_msg":
                state = frozenset("replied" if x == "pending" else x for x in state)
        return state


class _GateSem(Sem):
    """state: (gate attribute is None, pending table flushed while the gate was open)"""
    base_exc_escapes = False

    def __init__(self, gate, flush):
        self.gate, self.flush = gate, flush
        self.bad_awaits = []

    def join2(self, a, b):
        return (a[0] and b[0], a[1] or b[1])

    def atomic(self, st):
        cs = calls_in(st)
        return not cs or all((dotted(c.func) or "").startswith(("logging.", "traceback.")) or
                             (isinstance(c.func, ast.Attribute) and c.func.attr == self.flush) for c in cs)

    def _scan(self, node, state):
        closed, flushed = state
        if flushed and not closed:
            for n in ([node] if isinstance(node, ast.Await) else []) + [x for x in walk_local(node) if isinstance(x, ast.Await)]:
                if n not in self.bad_awaits:
                    self.bad_awaits.append(n)
        return state

    def test_transfer(self, test, state):
        return self._scan(test, state)

    def transfer(self, st, state):
        state = self._scan(st, state)
        closed, flushed = state
        if isinstance(st, ast.Assign):
            for t in st.targets:
                elts = t.elts if isinstance(t, (ast.Tuple, ast.List)) else [t]
                vals = st.value.elts if isinstance(t, (ast.Tuple, ast.List)) and isinstance(st.value, (ast.Tuple, ast.List)) and len(st.value.elts) == len(elts) else [st.value] * len(elts)
                for e, v in zip(elts, vals):
                    if dotted(e) == self.gate:
                        if isinstance(v, ast.Constant) and v.value is None:
                            closed, flushed = True, False
                        else:
                            closed, flushed = False, False
        for c in calls_in(st):
            if isinstance(c.func, ast.Attribute) and c.func.attr == self.flush:
                flushed = not closed
        return (closed, flushed)


def check(ctx):
    repo = ctx.repo
    cg = CallGraph(repo)
    m = repo.module(IPC)
    ctx.rule("C14-R1", "MUST-PASS: once the connection is up, every exit of the run loop (return, exception) and every back edge of its outer loop has passed the routine that fails all pending calls")
    ctx.rule("C14-R2", "the value given to set_exception by the fail-all routine is a real exception on every path (never None)")
    ctx.rule("C14-R3", "the fail-all routine fails every pending future and then empties the table")
    ctx.rule("C14-R4", "id-matched completion: the key popped from the pending table and the value given to set_result come from the same received frame; no other site completes a pending future with a result")
    ctx.rule("C14-R5", "call(): one id drawn by uuid.uuid4() in this activation keys the registration and the send; the future awaited is the one registered; the registration happens before the first suspension point; a closed connection raises before anything is registered")
    ctx.rule("C14-R6", "the reply to a remote command is sent with the id of the request it answers")
    ctx.rule("C14-R7", "server side: the result future is completed exactly once on every path of the command coroutine, exception edges included")
    ctx.rule("C14-R8", "thread ownership: the pending table is mutated only in io-loop context (coroutines, and synchronous helpers called only from them)")
    ctx.rule("C14-R9", "reply-or-exit: in the listener, once a request has been handed to the interpreter every normal return has sent the reply; a failure to reply leaves the listener by exception (the connection is dropped, the peer's call fails)")
    ctx.rule("C14-R10", "gate: the registering coroutine sends through the stream attribute read on the io loop at send time; every function that fails the pending calls has reset that attribute before, or resets it afterwards with no suspension point in between, so no call can register after the table was flushed")
    ctx.rule("C14-R11", "stop handshake: the event a stopping caller blocks on is set on every exit of the run loop (normal or exceptional), so close()/cleanup() cannot wait forever for a loop that has already ended")
    ctx.trust("Future.set_exception(None) raises TypeError", "a future completed twice raises InvalidStateError", "coroutines scheduled on the io loop run on its thread")

    run = repo.fn(f"{IPC}:NetworkClient._run")
    lst = repo.fn(f"{IPC}:NetworkClient._listen")
    call = repo.fn(f"{IPC}:NetworkClient.call")
    # the fail-all routine and the pending table are found by role: the NetworkClient method that loops over the
    # values of a self.<dict> calling set_exception; that dict is the pending table
    global TABLE
    failall = None
    for f in m.funcs.values():
        if f.cls == "NetworkClient" and any(isinstance(c.func, ast.Attribute) and c.func.attr == "set_exception" for c in calls_in(f.node)):
            for lp in [n for n in walk_local(f.node) if isinstance(n, ast.For)]:
                it = lp.iter
                if isinstance(it, ast.Call) and isinstance(it.func, ast.Attribute) and it.func.attr in ("values", "items") and (dotted(it.func.value) or "").startswith("self."):
                    failall = f
                    TABLE = dotted(it.func.value)
    if failall is None:
        raise AnalysisError("routine failing the pending futures not found in NetworkClient")
    ctx.note("pending_table", TABLE)

    # ---- R12 the table belongs to ONE connection: a fresh container per instance, bound in __init__, no class-level container
    ctx.rule("C14-R12", "the pending table is per connection: __init__ binds a new empty container to it on every path and the class body holds no container of that name (a class-level dict is shared by all connections)")
    tattr = TABLE.split(".", 1)[1]
    kinit = repo.fn(f"{IPC}:NetworkClient.__init__")
    ctx.instance("C14-R12", kinit.fq, tattr)
    fresh_val = lambda v: (isinstance(v, ast.Dict) and not v.keys) or (isinstance(v, ast.Call) and not v.args and not v.keywords and
                                                                         (callee_name(v) in ("dict", "OrderedDict") or (callee_name(v) or "")[:1].isupper()))
    inits = [n for n in walk_local(kinit.node) if isinstance(n, (ast.Assign, ast.AnnAssign)) and any(dotted(t) == TABLE for t in (n.targets if isinstance(n, ast.Assign) else [n.target]))]
    ok = bool(inits) and all(n.value is not None and fresh_val(n.value) for n in inits) and any(getattr(n, "_parent", None) is kinit.node for n in inits)
    ctx.ob("C14-R12", kinit.fq, f"__init__ binds a new empty container to {TABLE} unconditionally", ok, node=inits[0] if inits else kinit.node, construct=f"{TABLE} created per instance",
           msg=f"{TABLE} is not created in __init__: every NetworkClient of the process then shares one table, and the cleanup of one connection fails (and clears) the calls of all the others")
    kcls = repo.cls(IPC, "NetworkClient")
    shared = [n for n in kcls.body if isinstance(n, (ast.Assign, ast.AnnAssign)) and any(isinstance(t, ast.Name) and t.id == tattr for t in (n.targets if isinstance(n, ast.Assign) else [n.target]))
              and getattr(n, "value", None) is not None and not (isinstance(n.value, ast.Constant))]
    ctx.ob("C14-R12", f"{IPC}:NetworkClient", f"the class body does not hold a container named {tattr}", not shared, node=shared[0] if shared else kcls, construct=f"class-level {tattr}",
           msg=f"`{tattr}` is a class attribute holding a mutable container: it is one object for every connection")

    # ---- R1
    def dirty(st):
        return any(isinstance(c.func, ast.Attribute) and c.func.attr in ("connect", lst.name) for c in calls_in(st))
    sem = CleanSem(failall.name, dirty)
    exits = sem.run(run.node, frozenset([False]))
    ctx.instance("C14-R1", run.fq, f"{len(exits)} exits")
    bad = [x for x in exits if True in x.state]
    desc = sorted({("exceptional exit" if x.kind == "exc" else x.kind) + f"@{x.line}" for x in bad})
    ctx.ob("C14-R1", run.fq, f"all {len(exits)} exits of the run loop are reached only after the pending calls were failed", not bad, node=(bad[0].node if bad else run.node),
           construct="pending calls failed on every exit of the run loop",
           msg=f"the run loop can end on {', '.join(desc[:4])} without failing the pending calls: their callers wait forever",
           path=(f"entry {run.fq} -> listen -> {desc[0]}" if desc else None))
    outer = [n for n in run.node.body if isinstance(n, ast.While)]
    for w in outer:
        head, backs = sem.heads.get(w, (None, []))
        badb = [b for b in backs if b is not None and True in b]
        ctx.ob("C14-R1", run.fq, "a reconnect iteration starts only after the pending calls of the previous connection were failed", not badb, node=w,
               construct="pending calls failed before reconnecting")
    cl_calls = [c for c in calls_in(run.node) if isinstance(c.func, ast.Attribute) and c.func.attr == failall.name]
    ctx.floor("C14-R1", "fail-all call sites in the run loop", len(cl_calls), 1)
    for c in cl_calls:
        conds = [(t, p) for t, p in path_conditions(c, run.node) if not (isinstance(getattr(t, "_parent", None), ast.While))]
        ctx.ob("C14-R1", run.fq, "the fail-all call is unconditional where it stands (not skipped for 'graceful' ways out)", not conds, node=c, construct="fail-all call unconditional",
               msg=f"the pending calls are only failed when `{src(conds[0][0]) if conds else ''}`: on the other ways out they are left waiting")

    # ---- R2
    ctx.instance("C14-R2", failall.fq)
    p = failall.params()[1] if len(failall.params()) > 1 else None
    sets = [c for c in calls_in(failall.node) if isinstance(c.func, ast.Attribute) and c.func.attr == "set_exception"]
    for c in sets:
        a = c.args[0] if c.args else None
        ok = False
        why = ""
        from ..common import value_alternatives, says_not_none
        from ..model import enclosing_stmt
        alts_a = value_alternatives(a, failall.node, enclosing_stmt(c)) if a is not None else []
        if isinstance(a, ast.Call):
            ok = True
        elif alts_a and all(isinstance(v, ast.Call) or (isinstance(v, ast.Name) and v.id == p and any(says_not_none(t, pl, p) for t, pl in cs)) for v, cs in alts_a):
            ok = True              # a constructed exception, or the caller's value on the paths where it is known not to be None
        elif isinstance(a, ast.Name) and a.id == p:
            # guarded locally?
            guarded = False
            for n in walk_local(failall.node):
                if isinstance(n, ast.If) and pos(n) < pos(c):
                    for e, pol in split_conj(n.test, True):
                        if isinstance(e, ast.Compare) and isinstance(e.ops[0], ast.Is) and src(e.left) == p and isinstance(e.comparators[0], ast.Constant) and e.comparators[0].value is None:
                            if any(isinstance(s, ast.Assign) and any(isinstance(t, ast.Name) and t.id == p for t in s.targets) and isinstance(s.value, ast.Call) for s in n.body):
                                guarded = True
            if guarded:
                ok = True
            else:
                # all call sites must pass an exception value on every path
                ok = True
                for cc in cl_calls:
                    arg = cc.args[0] if cc.args else None
                    vals = _reaching_values(run, arg, cc)
                    if any(v == "None" for v in vals):
                        ok = False
                        why = f"{src(arg)} can be None at the call in {run.name} (definitions reaching it: {sorted(vals)})"
        ctx.ob("C14-R2", failall.fq, "set_exception receives an exception object on every path", ok, node=c, construct="set_exception argument is never None",
               msg=f"set_exception may be called with None ({why}): it raises TypeError inside the cleanup, the table is not cleared and the remaining callers wait forever")

    # ---- R3
    ctx.instance("C14-R3", failall.fq)
    loops = [n for n in failall.node.body if isinstance(n, ast.For)]
    ok = False
    if len(loops) == 1:
        lp = loops[0]
        it = lp.iter
        over_all = isinstance(it, ast.Call) and isinstance(it.func, ast.Attribute) and it.func.attr in ("values", "items") and dotted(it.func.value) == TABLE
        body_sets = [c for s in lp.body for c in calls_in(s) if isinstance(c.func, ast.Attribute) and c.func.attr == "set_exception"]
        uncond = all(not [t for t, _p in path_conditions(c, failall.node) if "done" not in src(t) and "cancelled" not in src(t) and not (isinstance(t, ast.Compare) and "None" in src(t))] for c in body_sets)
        after = failall.node.body[failall.node.body.index(lp) + 1:]
        cleared = any(isinstance(c.func, ast.Attribute) and c.func.attr == "clear" and dotted(c.func.value) == TABLE for s in after for c in calls_in(s)) or \
            any(isinstance(s, ast.Assign) and any(dotted(t) == TABLE for t in s.targets) for s in after)
        ok = over_all and len(body_sets) == 1 and uncond and cleared and not any(isinstance(n, (ast.Break, ast.Return)) for s in lp.body for n in ast.walk(s))
    ctx.ob("C14-R3", failall.fq, "one loop over all values of the pending table calling set_exception, then the table is emptied", ok, node=failall.node, construct="fail every pending future, then clear")

    # ---- R4 / R6
    ctx.instance("C14-R4", lst.fq)
    recvs = [c for c in calls_in(lst.node) if callee_name(c) == "stream_recv_msg"]
    idv = msgv = None
    if len(recvs) == 1:
        st = recvs[0]._parent._parent if isinstance(recvs[0]._parent, ast.Await) else recvs[0]._parent
        if isinstance(st, ast.Assign) and isinstance(st.targets[0], ast.Tuple) and len(st.targets[0].elts) == 2 and all(isinstance(e, ast.Name) for e in st.targets[0].elts):
            idv, msgv = st.targets[0].elts[0].id, st.targets[0].elts[1].id
    ctx.ob("C14-R4", lst.fq, "exactly one frame is received per listener invocation and bound to (id, message)", idv is not None, node=lst.node, construct="one (id, message) per invocation")
    if idv:
        stores = [n for n in walk_local(lst.node) if isinstance(n, ast.Name) and n.id in (idv, msgv) and isinstance(n.ctx, ast.Store)]
        ctx.ob("C14-R4", lst.fq, "id and message are not reassigned after the receive", len(stores) == 2, node=lst.node, construct="(id, message) single assignment")
        pops = [c for c in calls_in(lst.node) if isinstance(c.func, ast.Attribute) and c.func.attr == "pop" and dotted(c.func.value) == TABLE]
        # the same in two steps: a non-removing lookup (get / subscript) of the received id, the removal written separately
        looks = [n for n in walk_local(lst.node) if isinstance(n, ast.Assign) and len(n.targets) == 1 and isinstance(n.targets[0], ast.Name) and (
            (isinstance(n.value, ast.Call) and isinstance(n.value.func, ast.Attribute) and n.value.func.attr == "get" and dotted(n.value.func.value) == TABLE) or
            (isinstance(n.value, ast.Subscript) and dotted(n.value.value) == TABLE))]
        ctx.floor("C14-R4", "sites taking a future out of the pending table", len(pops) + len(looks), 1)
        for lk in looks:
            fv = lk.targets[0].id
            key = lk.value.args[0] if isinstance(lk.value, ast.Call) and lk.value.args else getattr(lk.value, "slice", None)
            ctx.ob("C14-R4", lst.fq, "the future is looked up under the id of the received frame", isinstance(key, ast.Name) and key.id == idv, node=lk, construct="lookup key is the received id")
            srs = [c for c in calls_in(lst.node) if isinstance(c.func, ast.Attribute) and c.func.attr == "set_result" and isinstance(c.func.value, ast.Name) and c.func.value.id == fv]
            ok = len(srs) == 1 and len(srs[0].args) == 1 and isinstance(srs[0].args[0], ast.Name) and srs[0].args[0].id == msgv and not in_loop(srs[0], lst.node)
            ctx.ob("C14-R4", lst.fq, "that future is completed once, with the message of the same frame", ok, node=lk, construct="set_result(message of the same frame)")

            class _Gone(Sem):
                """(completed, removed) on the paths reaching here"""
                base_exc_escapes = False

                def join2(s_, a, b):
                    return a | b

                def transfer(s_, st, state):
                    out = set()
                    for comp, rem in state:
                        if any(c in srs for c in calls_in(st)):
                            comp = True
                        if (isinstance(st, ast.Delete) and any(isinstance(t, ast.Subscript) and dotted(t.value) == TABLE and src(t.slice) == idv for t in st.targets)) or \
                                any(isinstance(c.func, ast.Attribute) and c.func.attr == "pop" and dotted(c.func.value) == TABLE and c.args and src(c.args[0]) == idv for c in calls_in(st)):
                            rem = True
                        out.add((comp, rem))
                    return frozenset(out)

                def exc_state(s_, st, state):
                    # a `raise` statement has no effect of its own; other raising statements may or may not have had theirs
                    return state if isinstance(st, ast.Raise) else state | s_.transfer(st, state)
            gx = _Gone().run(lst.node, frozenset([(False, False)]))
            stuck = [x for x in gx if any(comp and not rem for comp, rem in x.state)]
            ctx.ob("C14-R4", lst.fq, "a future that was completed has left the table on every exit of the listener (exception exits included)", not stuck, node=(stuck[0].node if stuck else lk),
                   construct="completed future left in the pending table",
                   msg=f"the listener can leave ({stuck[0].kind if stuck else ''} at line {stuck[0].line if stuck else 0}) with the answered call still in the table: the clean-up that fails the pending calls then hits an "
                       "already completed future (InvalidStateError), stops, and every call registered later waits forever",
                   path=(f"entry {lst.fq} -> set_result -> {stuck[0].kind}@{stuck[0].line}" if stuck else None))
        for pcall in pops:
            ok = len(pcall.args) >= 1 and isinstance(pcall.args[0], ast.Name) and pcall.args[0].id == idv
            ctx.ob("C14-R4", lst.fq, "the future is taken from the table under the id of the received frame", ok, node=pcall, construct="pop key is the received id",
                   msg="a pending future is looked up by something other than the id of the frame just received: a caller can get another caller's answer")
            fv = pcall._parent.targets[0].id if isinstance(pcall._parent, ast.Assign) and isinstance(pcall._parent.targets[0], ast.Name) else None
            srs = [c for c in calls_in(lst.node) if isinstance(c.func, ast.Attribute) and c.func.attr == "set_result" and isinstance(c.func.value, ast.Name) and c.func.value.id == fv]
            ok = len(srs) == 1 and len(srs[0].args) == 1 and isinstance(srs[0].args[0], ast.Name) and srs[0].args[0].id == msgv and not in_loop(srs[0], lst.node)
            ctx.ob("C14-R4", lst.fq, "that future is completed once, with the message of the same frame", ok, node=pcall, construct="set_result(message of the same frame)")
            guard = any(isinstance(e, ast.Compare) and src(e.left) == idv and src(e.comparators[0]) == TABLE and
                        ((isinstance(e.ops[0], ast.In) and pol) or (isinstance(e.ops[0], ast.NotIn) and not pol)) for e, pol in atoms_at(pcall, lst.node))
            ctx.ob("C14-R4", lst.fq, "the pop is guarded by a membership test of the same id", guard or len(pcall.args) == 2, node=pcall, construct="membership test on the received id")
    # who may complete pending futures with a result
    for f in m.funcs.values():
        if f.cls == "NetworkClient" and f is not lst:
            for c in calls_in(f.node):
                if isinstance(c.func, ast.Attribute) and c.func.attr == "set_result":
                    ctx.ob("C14-R4", f.fq, "no other NetworkClient method completes a future with a result", False, node=c, construct=f"set_result outside the listener in {f.name}",
                           msg="a pending call can be completed by code that did not receive its response frame")
    sends = [c for c in calls_in(lst.node) if callee_name(c) == "stream_send_msg"]
    ctx.floor("C14-R6", "reply sites in the listener", len(sends), 1)
    for s in sends:
        ctx.instance("C14-R6", lst.fq, src(s)[:60])
        ok = len(s.args) >= 3 and isinstance(s.args[1], ast.Name) and s.args[1].id == idv and is_awaited(s)
        ctx.ob("C14-R6", lst.fq, "the reply carries the id of the request frame", ok, node=s, construct="reply id is the request id")

    # ---- R5
    ctx.instance("C14-R5", call.fq)
    ids = [n for n in ast.walk(call.node) if isinstance(n, ast.Assign) and isinstance(n.value, ast.Call) and dotted(n.value.func) == "uuid.uuid4" and isinstance(n.targets[0], ast.Name)]
    direct = [c for c in calls_in(call.node) if dotted(c.func) == "uuid.uuid4" and isinstance(getattr(c, "_parent", None), ast.Call) and c in c._parent.args]
    one_site = (len(ids) == 1 and not direct) or (not ids and len(direct) == 1)
    ctx.ob("C14-R5", call.fq, "the message id is drawn by uuid.uuid4() in this activation (one site)", one_site, node=call.node, construct="fresh id per call")
    if one_site:
        idn = ids[0].targets[0].id if ids else "$uuid4"
        regs = _registrations(m, call)
        ctx.ob("C14-R5", call.fq, "exactly one registration in the pending table", len(regs) == 1, node=call.node, construct="one registration per call")
        for r, co, idmap in regs:
            # idmap: name under which this call's id is known inside the registering coroutine (the id variable itself for a
            # closure of call(); the parameter it is passed as when the coroutine is a method)
            idc = idmap.get(idn)
            t = r.targets[0]
            ok = isinstance(t.slice, ast.Name) and idc is not None and t.slice.id == idc and isinstance(r.value, ast.Name)
            ctx.ob("C14-R5", call.fq, "the registration key is the id drawn for this call and the value is a future variable", ok, node=r, construct="registration keyed by this call's id")
            fut = r.value.id if isinstance(r.value, ast.Name) else None
            fdef = [n for n in ast.walk(co) if isinstance(n, ast.Assign) and any(isinstance(x, ast.Name) and x.id == fut for x in n.targets)]
            ok = len(fdef) == 1 and isinstance(fdef[0].value, ast.Call) and callee_name(fdef[0].value) in ("create_future", "Future")
            ctx.ob("C14-R5", call.fq, "the registered future is created for this call", ok, node=r, construct="future created per call")
            # the coroutine that registers: sends with the same id, awaits the same future, registration before the first await
            snd = [c for c in ast.walk(co) if isinstance(c, ast.Call) and callee_name(c) == "stream_send_msg"]
            ok = len(snd) == 1 and len(snd[0].args) >= 2 and isinstance(snd[0].args[1], ast.Name) and snd[0].args[1].id == idc
            ctx.ob("C14-R5", call.fq, "the frame is sent under the same id", ok, node=r, construct="send uses this call's id")
            aws = [n for n in walk_local(co) if isinstance(n, ast.Await)]
            first_await = min((pos(a) for a in aws), default=(10**9, 0))
            ok = pos(r) < first_await
            ctx.ob("C14-R5", call.fq, "the future is registered before the first suspension point (a response cannot arrive while it is unregistered)", ok, node=r,
                   construct="registration precedes the first await", msg="the pending future is registered after an await: if the response is read while the sender is suspended (write backpressure), the listener finds no entry for its id, treats the response as a request, and the caller waits forever")
            ret_aw = [a for a in aws if isinstance(a.value, ast.Name) and a.value.id == fut]
            ctx.ob("C14-R5", call.fq, "the coroutine awaits the registered future", len(ret_aw) == 1, node=r, construct="awaits the registered future")
            # R8 for the registration: it runs on the io loop
            ctx.ob("C14-R8", call.fq, "the registration runs in io-loop context (inside the coroutine handed to run_coroutine_threadsafe)", isinstance(co, ast.AsyncFunctionDef), node=r,
                   construct="registration on the io loop", msg="the pending table is written from the caller's thread while the io loop iterates/pops it: `dictionary changed size during iteration` inside the cleanup leaves callers waiting")
        # closed connection raises first
        rct = [c for c in calls_in(call.node) if callee_name(c) == "run_coroutine_threadsafe"]
        # the hand-over to the io loop is dominated by a positive is_open() fact (an earlier `if not self.is_open(): raise`)
        ok = bool(rct) and all(any(pol and isinstance(e, ast.Call) and isinstance(e.func, ast.Attribute) and e.func.attr == "is_open" and dotted(e.func.value) == "self"
                                   for e, pol in atoms_at(c, call.node)) for c in rct)
        ctx.ob("C14-R5", call.fq, "a call on a connection that is not open raises before anything is registered or sent", ok, node=rct[0] if rct else call.node, construct="is_open guard raises first")
        # the concurrent future it returns is waited on with .result(), directly or through one local, and that value is returned
        def _waited(c):
            p = getattr(c, "_parent", None)
            if isinstance(p, ast.Attribute) and p.attr == "result":
                return True
            if isinstance(p, ast.Assign) and len(p.targets) == 1 and isinstance(p.targets[0], ast.Name):
                nm = p.targets[0].id
                return any(isinstance(x, ast.Call) and isinstance(x.func, ast.Attribute) and x.func.attr == "result" and isinstance(x.func.value, ast.Name) and x.func.value.id == nm
                           for x in ast.walk(call.node))
            return False
        ok = len(rct) == 1 and _waited(rct[0]) and len(rct[0].args) == 2 and dotted(rct[0].args[1]) == "self.ioloop"
        ctx.ob("C14-R5", call.fq, "the coroutine is run on the io loop and its result (or exception) is returned to the caller", ok, node=call.node, construct="run_coroutine_threadsafe(...).result()")


    # ---- R9 reply-or-exit
    ctx.instance("C14-R9", lst.fq)
    rsem = _ReplySem()
    rex = rsem.run(lst.node, frozenset(["idle"]))
    badr = [x for x in rex if x.kind == "return" and "pending" in x.state]
    ctx.ob("C14-R9", lst.fq, f"every normal return of the listener that ran a request has sent its reply ({sum(1 for x in rex if x.kind == 'return')} returns)", not badr,
           node=badr[0].node if badr else lst.node, construct="request without reply or exit",
           msg=f"the listener can return normally (line {badr[0].line if badr else 0}) after running a request without having sent the reply: the connection stays up and the peer's call waits forever",
           path=f"entry {lst.fq} -> run request -> return@{badr[0].line if badr else 0}")
    ctx.control("C14-R9", "the listener runs requests through run_command_on_klongloop", rsem.n_req >= 1)

    # ---- R10 gate
    gate = None
    for r, co, _idmap in _registrations(m, call):
        for c in [c for c in ast.walk(co) if isinstance(c, ast.Call) and callee_name(c) == "stream_send_msg"]:
            ctx.instance("C14-R10", call.fq, "send stream")
            a0 = c.args[0] if c.args else None
            d = dotted(a0) if a0 is not None else None
            ok = bool(d) and d.startswith("self.") and d.count(".") == 1
            ctx.ob("C14-R10", call.fq, "the registering coroutine sends through self.<stream>, read on the io loop at send time", ok, node=c, construct="send stream is read at send time",
                   msg=f"the frame is sent through `{src(a0) if a0 is not None else '?'}`, a value captured before the coroutine runs: after the listener has exited (and flushed the pending table) the call still writes to the old stream, registers its future and waits forever")
            if ok:
                gate = d
    if gate is None:
        if not any(f.rule == "C14-R10" for f in ctx.findings):
            ctx.error("C14-R10: stream attribute of the registering coroutine not identified")
    else:
        ctx.note("gate_attribute", gate)
        n_fl = 0
        for f in m.funcs.values():
            if f.cls != "NetworkClient" or f is failall:
                continue
            if not any(isinstance(c.func, ast.Attribute) and c.func.attr == failall.name for c in calls_in(f.node)):
                continue
            n_fl += 1
            ctx.instance("C14-R10", f.fq, "flush/gate order")
            gs = _GateSem(gate, failall.name)
            gex = gs.run(f.node, (False, False))
            for aw in gs.bad_awaits:
                ctx.ob("C14-R10", f.fq, f"no suspension point between failing the pending calls and resetting {gate}", False, node=aw, construct=f"await between flush and reset of {gate}",
                       msg=f"{f.name} awaits after the pending table was flushed while {gate} is still set: a call issued during that await is written to the dead stream, registers a future nobody will complete and waits forever",
                       path=f"entry {f.fq} -> {failall.name} -> await@{aw.lineno}")
            openx = [x for x in gex if x.state[1] and not x.state[0]]
            ctx.ob("C14-R10", f.fq, f"{gate} is reset on every exit that flushed the pending table", not openx, node=openx[0].node if openx else f.node,
                   construct=f"{gate} still set after the flush",
                   msg=f"{f.name} can end with the pending table flushed and {gate} still set: later calls are written to the dead stream and wait forever")
        ctx.floor("C14-R10", "functions that flush the pending table", n_fl, 1)

    # ---- R11 stop handshake
    waited = set()
    for f in m.funcs.values():
        if f.cls == "NetworkClient" and not isinstance(f.node, ast.AsyncFunctionDef):
            for c in calls_in(f.node):
                if isinstance(c.func, ast.Attribute) and c.func.attr == "wait" and (dotted(c.func.value) or "").startswith("self.") and not c.args:
                    waited.add(dotted(c.func.value))
    ctx.floor("C14-R11", "events a synchronous NetworkClient method blocks on", len(waited), 1)
    for ev in sorted(waited):
        ctx.instance("C14-R11", run.fq, ev)
        es = _SetSem(ev, failall.name)
        ex = es.run(run.node, False)
        bad = [x for x in ex if not x.state]
        ctx.ob("C14-R11", run.fq, f"{ev}.set() has happened on every exit of the run loop ({len(ex)} exits)", not bad and bool(ex), node=bad[0].node if bad else run.node,
               construct=f"run loop can end without setting {ev}",
               msg=f"the run loop can end ({'exception' if bad and bad[0].kind == 'exc' else 'return'} at line {bad[0].line if bad else 0}) without {ev}.set(): a later close()/cleanup() blocks forever in {ev}.wait()",
               path=f"entry {run.fq} -> {bad[0].kind if bad else ''}@{bad[0].line if bad else 0}")

    # ---- R7
    srv = repo.fn(f"{IPC}:execute_server_command")
    ctx.instance("C14-R7", srv.fq)
    fut = next((p for p in srv.params() if "future" in p and "loop" not in p), None)
    if fut is None:
        raise AnalysisError("execute_server_command has no result-future parameter")
    from ..common import value_ctors
    csem = CompletionSem(fut, value_ctors(repo))
    exs = csem.run(srv.node, frozenset([0]))
    rets = [x for x in exs if x.kind == "return"]
    ok = bool(rets) and all(x.state == frozenset([1]) for x in rets)
    ctx.ob("C14-R7", srv.fq, f"the result future is completed exactly once on each of the {len(rets)} normal paths", ok, node=srv.node, construct="result future completed exactly once",
           msg="a path through the command coroutine completes the result future " + ", ".join(str(sorted(x.state)) for x in rets) + " times: the connection's listener hangs (0) or dies with InvalidStateError (2)")
    esc = [x for x in exs if x.kind == "exc" and 0 in x.state]
    ctx.ob("C14-R7", srv.fq, "no exception leaves the coroutine with the result future still pending", not esc, node=(esc[0].node if esc else srv.node),
           construct="no exceptional exit with the future pending",
           msg=f"an exception raised at line {esc[0].line if esc else 0} (e.g. a `raise` inside an except clause, which sibling clauses do not catch) escapes without completing the result future: the listener of that connection blocks forever and every later call on it hangs",
           path=(f"entry {srv.fq} -> raise@{esc[0].line} -> exit" if esc else None))
    hs = [h for t in walk_local(srv.node) if isinstance(t, ast.Try) for h in t.handlers]
    ctx.ob("C14-R7", srv.fq, "the handlers cover Exception", any(h.type is None or src(h.type) in ("Exception", "BaseException") for h in hs), node=srv.node, construct="broad handler present")

    # ---- R8 thread ownership of the pending table
    muts = []
    for f in m.funcs.values():
        if f.cls != "NetworkClient":
            continue
        for n in walk_local(f.node):
            if isinstance(n, ast.Subscript) and isinstance(n.ctx, (ast.Store, ast.Del)) and dotted(n.value) == TABLE:
                muts.append((f, n))
            if isinstance(n, ast.Call) and isinstance(n.func, ast.Attribute) and n.func.attr in ("pop", "clear", "update", "setdefault", "popitem") and dotted(n.func.value) == TABLE:
                muts.append((f, n))
            if isinstance(n, ast.Assign) and any(dotted(t) == TABLE for t in n.targets) and f.name != "__init__":
                muts.append((f, n))
    ctx.floor("C14-R8", "mutation sites of the pending table", len(muts), 3)
    cg.build()
    for f, n in muts:
        ctx.instance("C14-R8", f.fq, src(n)[:50])
        ok, why = _loop_context(cg, repo, f)
        ctx.ob("C14-R8", f.fq, "the pending table is mutated in io-loop context", ok, node=n, construct=f"pending table mutation in {f.name}",
               msg=f"{f.name} mutates the pending table but can run outside the io loop ({why}): it races with the listener/cleanup on the loop thread")
    ctx.note("callgraph_resolution", cg.resolution_stats())


def _loop_context(cg, repo, f, seen=None):
    """True when f is a coroutine, or a synchronous function all of whose resolved callers are in loop context"""
    seen = seen or set()
    if f.fq in seen:
        return True, ""
    seen.add(f.fq)
    if f.is_async:
        return True, ""
    callers = [c for c in cg.callers_of(f.fq) if c != f.fq]
    if not callers:
        return False, "synchronous and no resolved caller"
    for c in callers:
        g = repo.fn(c)
        ok, why = _loop_context(cg, repo, g, seen)
        if not ok:
            return False, f"called from synchronous {g.fq}"
    return True, ""


class _ReachSem(Sem):
    def __init__(self, var):
        self.var = var
        self.at = {}

    def join2(self, a, b):
        return a | b

    def handler_state(self, h, state):
        if h.name == self.var:
            return frozenset(["exception bound by except"])
        return state

    def transfer(self, st, state):
        for c in calls_in(st):
            self.at.setdefault(c, set()).update(state)
        if isinstance(st, ast.Assign) and any(isinstance(t, ast.Name) and t.id == self.var for t in st.targets):
            v = st.value
            if isinstance(v, ast.Constant) and v.value is None:
                return frozenset(["None"])
            return frozenset([src(v)[:60]])
        return state


def _reaching_values(f, arg, callnode):
    if isinstance(arg, ast.Call):
        return {src(arg)}
    if isinstance(arg, ast.BoolOp) and isinstance(arg.op, ast.Or) and isinstance(arg.values[-1], ast.Call):
        return {src(arg)}
    if isinstance(arg, ast.Name):
        sem = _ReachSem(arg.id)
        sem.run(f.node, frozenset(["<unset>"]))
        return set(sem.at.get(callnode, {"?"}))
    return {"?"}


# functions whose mechanical mutants are swept in the thorough tier (coverage evidence, see sa/mutate.py)
MUTATION_SCOPE = ['sys_fn_ipc:NetworkClient._run',
                  'sys_fn_ipc:NetworkClient._listen',
                  'sys_fn_ipc:NetworkClient.call',
                  'sys_fn_ipc:NetworkClient.call.send_message_and_get_result',
                  'sys_fn_ipc:NetworkClient._cleanup_pending_responses',
                  'sys_fn_ipc:execute_server_command']

SEEDS = [
    Seed("pending-table-class-level", "fault", IPC, "        self.pending_responses = {}\n", "", rule="C14-R12",
         more=[(IPC, "class NetworkClient(KGLambda):\n", "class NetworkClient(KGLambda):\n    pending_responses: dict = {}\n")]),
    Seed("run-exit-event-not-set", "fault", IPC, "        self._run_exit_event.set()\n", "        pass\n", rule="C14-R11"),
    Seed("run-handlers-narrowed", "fault", IPC, "            except Exception as e:\n                close_exception = KlongIPCConnectionFailureException(\"unknown error\")", "            except OSError as e:\n                close_exception = KlongIPCConnectionFailureException(\"unknown error\")", rule="C14-R11"),
    Seed("send-through-captured-writer", "fault", IPC, "        msg_id = uuid.uuid4()\n", "        msg_id = uuid.uuid4()\n        w = self.writer\n",
         more=[(IPC, "            await stream_send_msg(self.writer, msg_id, msg)\n            return await future", "            await stream_send_msg(w, msg_id, msg)\n            return await future")], rule="C14-R10"),
    Seed("reset-writer-after-on-close", "fault", IPC, "                self.writer = None\n                self.reader = None\n                self._cleanup_pending_responses(close_exception)\n", "                self._cleanup_pending_responses(close_exception)\n",
         more=[(IPC, "                        logging.warning(f\"error while running on_close handler: {e}\")\n", "                        logging.warning(f\"error while running on_close handler: {e}\")\n                self.writer = None\n                self.reader = None\n")], rule="C14-R10"),
    Seed("writer-never-reset", "fault", IPC, "                self.writer = None\n                self.reader = None\n                self._cleanup_pending_responses(close_exception)\n", "                self._cleanup_pending_responses(close_exception)\n", rule="C14-R10"),
    Seed("reply-failure-swallowed", "fault", IPC, "                await stream_send_msg(self.writer, msg_id, response)\n",
         "                try:\n                    await stream_send_msg(self.writer, msg_id, response)\n                except (pickle.PicklingError, TypeError) as e:\n                    logging.warning(f\"cannot serialise response: {e}\")\n", rule="C14-R9"),
    Seed("reply-only-when-not-none", "fault", IPC, "                await stream_send_msg(self.writer, msg_id, response)\n",
         "                if response is not None:\n                    await stream_send_msg(self.writer, msg_id, response)\n", rule="C14-R9"),
    Seed("refactor-flush-then-reset", "refactor", IPC, "                self.writer = None\n                self.reader = None\n                self._cleanup_pending_responses(close_exception)\n", "                self._cleanup_pending_responses(close_exception)\n                self.writer = None\n                self.reader = None\n"),
    Seed("refactor-log-before-guard", "refactor", IPC, "        if not self.is_open():\n            raise KlongException(\"connection not established\")", "        logging.debug(\"remote call\")\n        if not self.is_open():\n            raise KlongException(\"connection not established\")"),
    Seed("cleanup-out-of-finally", "fault", IPC,
         "            finally:\n                self.writer = None\n                self.reader = None\n                self._cleanup_pending_responses(close_exception)\n                if on_close is not None:",
         "            else:\n                self._cleanup_pending_responses(close_exception)\n            finally:\n                self.writer = None\n                self.reader = None\n                if on_close is not None:", rule="C14-R1"),
    Seed("graceful-close-skips-cleanup", "fault", IPC, "                self._cleanup_pending_responses(close_exception)\n                if on_close is not None:",
         "                if close_exception is not None:\n                    self._cleanup_pending_responses(close_exception)\n                if on_close is not None:", rule="C14-R1"),
    Seed("cleanup-none-default-removed", "fault", IPC, "        if close_exception is None:\n            close_exception = KlongIPCConnectionClosedException()\n", "", rule="C14-R2"),
    Seed("cleanup-stops-at-first", "fault", IPC, "        for future in self.pending_responses.values():\n            future.set_exception(close_exception)\n        self.pending_responses.clear()",
         "        for future in self.pending_responses.values():\n            future.set_exception(close_exception)\n            break\n        self.pending_responses.clear()", rule="C14-R3"),
    Seed("cleanup-forgets-clear", "fault", IPC, "            future.set_exception(close_exception)\n        self.pending_responses.clear()", "            future.set_exception(close_exception)", rule="C14-R3"),
    Seed("pop-oldest", "fault", IPC, "                future = self.pending_responses.pop(msg_id)", "                future = self.pending_responses.pop(next(iter(self.pending_responses)))", rule="C14-R4"),
    Seed("register-after-send", "fault", IPC, "            future = self.ioloop.create_future()\n            self.pending_responses[msg_id] = future\n            await stream_send_msg(self.writer, msg_id, msg)",
         "            await stream_send_msg(self.writer, msg_id, msg)\n            future = self.ioloop.create_future()\n            self.pending_responses[msg_id] = future", rule="C14-R5"),
    Seed("register-off-loop", "fault", IPC, "        msg_id = uuid.uuid4()\n\n        async def send_message_and_get_result():\n            # register on the io loop thread: the listener and the cleanup\n            # iterate over pending_responses there\n            future = self.ioloop.create_future()\n            self.pending_responses[msg_id] = future\n",
         "        msg_id = uuid.uuid4()\n        future = self.ioloop.create_future()\n        self.pending_responses[msg_id] = future\n\n        async def send_message_and_get_result():\n", rule="C14-R8"),
    Seed("no-open-check", "fault", IPC, "        if not self.is_open():\n            raise KlongException(\"connection not established\")\n\n        msg_id = uuid.uuid4()", "        msg_id = uuid.uuid4()", rule="C14-R5"),
    Seed("reply-with-new-id", "fault", IPC, "                await stream_send_msg(self.writer, msg_id, response)", "                await stream_send_msg(self.writer, uuid.uuid4(), response)", rule="C14-R6"),
    Seed("keyerror-reraised", "fault", IPC, "    except KeyError as e:\n        future_loop.call_soon_threadsafe(result_future.set_exception, KlongException(f\"symbol not found: {e}\"))",
         "    except KeyError as e:\n        if not isinstance(command, (KGRemoteFnCall, KGRemoteDictGetCall)):\n            raise\n        future_loop.call_soon_threadsafe(result_future.set_exception, KlongException(f\"symbol not found: {e}\"))", rule="C14-R7"),
    Seed("handler-logs-only", "fault", IPC, "        future_loop.call_soon_threadsafe(result_future.set_exception, KlongException(\"internal error\"))\n        logging.error(", "        logging.error(", rule="C14-R7"),
    Seed("narrow-handler", "fault", IPC, "    except Exception as e:\n        import traceback\n        traceback.print_exception(type(e), e, e.__traceback__)\n        future_loop.call_soon_threadsafe(result_future.set_exception, KlongException(\"internal error\"))",
         "    except KlongException as e:\n        import traceback\n        traceback.print_exception(type(e), e, e.__traceback__)\n        future_loop.call_soon_threadsafe(result_future.set_exception, KlongException(\"internal error\"))", rule="C14-R7"),
    Seed("refactor-cleanup-arg-default", "refactor", IPC, "                self._cleanup_pending_responses(close_exception)\n                if on_close is not None:",
         "                self._cleanup_pending_responses(close_exception or KlongIPCConnectionClosedException())\n                if on_close is not None:"),
    Seed("refactor-rename-table", "refactor", IPC, "pending_responses", "awaiting", count=9),
    Seed("refactor-listen-names", "refactor", IPC, "                future = self.pending_responses.pop(msg_id)\n                future.set_result(msg)", "                waiter = self.pending_responses.pop(msg_id)\n                waiter.set_result(msg)"),
]
