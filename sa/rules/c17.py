"""C17 — a completed key-value set survives a crash; an interrupted one harms no other key.

Decides the structural clause: the durability point (write -> flush -> fsync on the same file object)
is passed on every non-failing path of the write routine whenever the sync flag is true; the constant
True reaches that flag from the key-value facade; the set blocks on the write's future; nothing but the
key's own file is written.  It does NOT decide the behaviour of real file systems.
"""
import ast

from ..model import AnalysisError, src, callee_name, dotted, walk_local, calls_in, FUNC, pos
from ..flow import Sem, path_conditions, split_conj
from ..callgraph import CallGraph
from ..selftest import Seed

META = {
    "technique": "must-pass-through + order typestate on the write routine, interprocedural constant flow of the sync flag, who-may-write on the set path, must-pass of the cache update in the facade set, who-may-create files reachable from the store facades, complete-write rule for raw file objects",
    "level_text": "Static proof over all paths of the anchored functions of the structural clause: write -> flush -> fsync(f.fileno()) before close on every normal path with the flag true; constant True reaches the flag; the set returns only after result(); only join(root_path, key) is written. Exhaustive over paths and sites, which crash-point sampling cannot be; it does not model the file system.",
    "level_note": "decides the structural clause below from source; does not decide the behaviour. Trusted: POSIX fsync semantics for file data (no directory sync demanded), open('wb') is buffered, Future.result() blocks and re-raises; exception edges are conservative.",
    "explanation": (
        "Static analysis (ast + exit-path abstract interpretation) of klongpy/db: decides the structural clause "
        "'write -> flush -> os.fsync(f.fileno()) on the same buffered file object on every normal path with the sync "
        "flag true; the key-value facade passes the constant True and the flag is forwarded unmodified through "
        "executor.submit; update_file returns only after future.result() of the write it submitted; every file-system "
        "mutation reachable from the set targets join(root_path, file_name) of the key'. It decides this clause of C17, "
        "not the crash behaviour itself."
        " R5: every normal return of the facade set has called the cache update leading to the write routine; nothing reachable from the facade classes (constructors included) other than the write routine creates, renames or deletes files."),
    "assumptions": [
        "POSIX: os.fsync(fd) makes the file data that the kernel holds durable; the parent directory is not synced and the property's persistence model does not ask for it",
        "open(path, 'wb') returns a BufferedWriter: write() only fills the user-space buffer until flush()/close() (frozen stdlib fact); buffering=0 waives the flush",
        "concurrent.futures: Future.result() returns only after the submitted callable finished and re-raises its exception",
    ],
}

DB_MODULES = ("db/file_cache", "db/df_cache", "db/sys_fn_kvs", "db/helpers")
FS_MUTATORS = {"remove", "unlink", "rename", "replace", "rmdir", "removedirs", "truncate", "ftruncate",
               "rmtree", "move", "copy", "copyfile", "copy2", "symlink", "link", "mkdir", "makedirs", "write_bytes",
               "write_text", "touch"}


def facade_setters(repo, cg):
    """set/__setitem__ of the dict facades in klongpy/db that hold a cache object of a repo class"""
    roots = []
    for f in repo.all_funcs(DB_MODULES):
        if f.cls and f.name in ("set", "__setitem__"):
            at = cg.attr_types(f.module.name, f.cls)
            if any(cg.class_def(v)[0] in DB_MODULES for v in at.values()):
                roots.append(f)
    return roots


def find_write_routine(repo, cg):
    """the functions on the facade set path that open a file for writing (the role, not the name)"""
    out = []
    reach = cg.reachable(facade_setters(repo, cg))
    for fq in sorted(reach):
        f = repo.fn(fq)
        for c in calls_in(f.node):
            if callee_name(c) == "open" and isinstance(c.func, ast.Name) and any(ch in _open_mode(c) for ch in "wax+"):
                out.append(f)
                break
    return out


def _open_mode(call):
    mode = None
    if len(call.args) >= 2 and isinstance(call.args[1], ast.Constant):
        mode = call.args[1].value
    for k in call.keywords:
        if k.arg == "mode" and isinstance(k.value, ast.Constant):
            mode = k.value.value
    return mode if mode is not None else "r"


def _unbuffered(call):
    for k in call.keywords:
        if k.arg == "buffering" and isinstance(k.value, ast.Constant) and k.value.value == 0:
            return True
    return len(call.args) >= 3 and isinstance(call.args[2], ast.Constant) and call.args[2].value == 0


class SyncSem(Sem):
    """state: frozenset of (phase, flag) ; phase in D (user buffer dirty) K (kernel holds unsynced data)
    S (synced) - (file not open); flag in T F ? (truth of the sync flag on this path)"""
    base_exc_escapes = False

    def __init__(self, fvar, flag, unbuffered):
        self.fvar, self.flag, self.unbuffered = fvar, flag, unbuffered
        self.closes = []   # (state, node) at every close of the file (with-exit)

    def join2(self, a, b):
        return a | b

    def _events(self, st):
        ev = []
        for c in calls_in(st):
            f = c.func
            if isinstance(f, ast.Attribute) and isinstance(f.value, ast.Name) and f.value.id == self.fvar:
                if f.attr in ("write", "writelines", "truncate", "seek"):
                    ev.append((pos(c), 0, "write"))
                elif f.attr == "flush":
                    ev.append((pos(c), 0, "flush"))
            if dotted(f) in ("os.fsync", "os.fdatasync") and c.args:
                a = c.args[0]
                ok = isinstance(a, ast.Call) and isinstance(a.func, ast.Attribute) and a.func.attr == "fileno" and \
                    isinstance(a.func.value, ast.Name) and a.func.value.id == self.fvar
                ev.append((pos(c), 0, "fsync" if ok else "fsync-other"))
            # the file object escaping into a helper: unknown effect => treat as a write
            if not (isinstance(f, ast.Attribute) and isinstance(f.value, ast.Name) and f.value.id == self.fvar):
                for a in list(c.args) + [k.value for k in c.keywords]:
                    if isinstance(a, ast.Name) and a.id == self.fvar:
                        ev.append((pos(c), 0, "write"))
        return [e[2] for e in sorted(ev)]

    def transfer(self, st, state):
        for e in self._events(st):
            new = set()
            for ph, fl in state:
                if ph == "-":
                    new.add((ph, fl)); continue
                if e == "write":
                    ph = "K" if self.unbuffered else "D"
                elif e == "flush":
                    ph = "K" if ph == "D" else ph
                elif e == "fsync":
                    ph = "S" if ph == "K" else ph
                new.add((ph, fl))
            state = frozenset(new)
        return state

    def refine(self, test, state):
        if self.flag is None:
            return state, state
        T, F = set(), set()
        facts_t = split_conj(test, True)
        facts_f = split_conj(test, False)
        def holds(facts):
            for e, pol in facts:
                if isinstance(e, ast.Name) and e.id == self.flag:
                    return pol
            return None
        ht, hf = holds(facts_t), holds(facts_f)
        for ph, fl in state:
            # true arm
            if ht is None:
                T.add((ph, fl))
            elif fl in ("?", "T" if ht else "F"):
                T.add((ph, "T" if ht else "F"))
            if hf is None:
                F.add((ph, fl))
            elif fl in ("?", "T" if hf else "F"):
                F.add((ph, "T" if hf else "F"))
        return (frozenset(T) or None), (frozenset(F) or None)

    def with_enter(self, st, state):
        for it in st.items:
            if isinstance(it.optional_vars, ast.Name) and it.optional_vars.id == self.fvar:
                return frozenset(("K", fl) for _ph, fl in state)
        return state

    def with_exit(self, st, state, kind="normal"):
        for it in st.items:
            if isinstance(it.optional_vars, ast.Name) and it.optional_vars.id == self.fvar:
                if state is not None:
                    if kind != "exc":
                        self.closes.append((state, st))
                    return frozenset(("-", fl) if ph == "S" or fl == "F" else ("X", fl) for ph, fl in state)
        return state


class WroteSem(Sem):
    """state: frozenset of booleans: the contents parameter has been written to the file object on this path"""
    base_exc_escapes = False

    def __init__(self, fvar, params):
        self.fvar, self.params = fvar, set(params)
        self.closes = []

    def join2(self, a, b):
        return a | b

    def transfer(self, st, state):
        for c in calls_in(st):
            f = c.func
            if isinstance(f, ast.Attribute) and f.attr in ("write", "writelines") and isinstance(f.value, ast.Name) and f.value.id == self.fvar and \
                    c.args and isinstance(c.args[0], ast.Name) and c.args[0].id in self.params:
                return frozenset([True])
        return state

    def with_exit(self, st, state, kind="normal"):
        for it in st.items:
            if isinstance(it.optional_vars, ast.Name) and it.optional_vars.id == self.fvar and kind != "exc" and state is not None:
                self.closes.append(state)
        return state


def check(ctx):
    repo = ctx.repo
    cg = CallGraph(repo)
    ctx.rule("C17-R1", "MUST-PASS+order: on every normal path of the write routine with the sync flag true, the file object sees write -> flush -> os.fsync(f.fileno()) before it is closed / the routine returns, with no write after the sync")
    ctx.rule("C17-R2", "interprocedural constant flow: the key-value facade passes True for the sync flag; the flag parameter is forwarded unmodified into executor.submit at the write routine's flag position")
    ctx.rule("C17-R3", "MUST-PASS: every normal return of the submitting function is preceded by .result() on the future of the write it submitted, outside any swallowing handler")
    ctx.rule("C17-R4", "isolation: every file-system mutation reachable from the key-value set targets join(root_path, file_name) of the key (makedirs: its dirname); no delete/rename/shared index file")
    ctx.rule("C17-R5", "the facade set hands the value to the cache update on every normal path (no skipped write), and nothing reachable from the store facade classes (constructors included) other than the write routine creates, renames or deletes files")
    ctx.trust("open(p,'wb') is buffered: write() reaches the kernel only at flush()/close()", "os.fsync(fd) syncs what the kernel holds for fd",
              "Future.result() blocks until the callable finished and re-raises its exception")

    writers = find_write_routine(repo, cg)
    ctx.floor("C17-R1", "functions on the facade set path that open a file for writing", len(writers), 1)
    if not writers:
        return
    for W in writers:
        _check_write_routine(ctx, W)
        _check_flag_flow(ctx, cg, W)
    _check_isolation(ctx, cg, writers)
    _check_facade_reaches_write(ctx, cg, writers)
    # one file per key also needs the key -> file name mapping to be injective (shared with C16-R2)
    from . import c16
    c16.check_key_mapping(ctx, repo, "C17-R4")


# ------------------------------------------------------------------ R1
def _sync_flag(W):
    """the parameter whose truth guards the fsync call (None if unconditional); when no fsync call is left,
    the boolean parameter the routine branches on inside the open-for-write block, if any"""
    params = set(W.params())
    if not any(dotted(c.func) in ("os.fsync", "os.fdatasync") for c in calls_in(W.node)):
        for n in walk_local(W.node):
            if isinstance(n, ast.If):
                for e, p in split_conj(n.test, True):
                    if isinstance(e, ast.Name) and e.id in params and "sync" in e.id:
                        return e.id
        for p in params:
            if "sync" in p:
                return p
        return None
    for c in calls_in(W.node):
        if dotted(c.func) == "os.fsync":
            for t, pol in path_conditions(c, W.node):
                for e, p in split_conj(t, pol):
                    if isinstance(e, ast.Name) and e.id in params and p:
                        return e.id
    return None


def _check_write_routine(ctx, W):
    where = W.fq
    flag = _sync_flag(W)
    # file objects opened for writing in W
    opens = []
    for n in walk_local(W.node):
        if isinstance(n, (ast.With, ast.AsyncWith)):
            for it in n.items:
                c = it.context_expr
                if isinstance(c, ast.Call) and callee_name(c) == "open" and any(ch in _open_mode(c) for ch in "wax+"):
                    if isinstance(it.optional_vars, ast.Name):
                        opens.append((it.optional_vars.id, c, n))
        elif isinstance(n, ast.Assign) and isinstance(n.value, ast.Call) and callee_name(n.value) == "open" and \
                any(ch in _open_mode(n.value) for ch in "wax+") and isinstance(n.targets[0], ast.Name):
            opens.append((n.targets[0].id, n.value, None))
    ctx.floor("C17-R1", f"files opened for writing in {where}", len(opens), 1)
    if flag is not None and any(isinstance(n, ast.Name) and n.id == flag and isinstance(n.ctx, ast.Store) for n in walk_local(W.node)):
        ctx.ob("C17-R1", where, f"sync flag '{flag}' is not reassigned inside the write routine", False, node=W.node,
               construct=f"store to {flag}", msg=f"the sync flag parameter '{flag}' is overwritten inside the write routine")
    for fvar, ocall, wnode in opens:
        ctx.instance("C17-R1", where, fvar)
        sem = SyncSem(fvar, flag, _unbuffered(ocall))
        init = frozenset([("-" if wnode is not None else "K", "?")])
        if wnode is None:
            init = frozenset([("-", "?")])
            # assignment form: the open statement itself switches the phase
            orig_transfer = sem.transfer
            def transfer(st, state, _o=orig_transfer, _v=fvar):
                if isinstance(st, ast.Assign) and isinstance(st.value, ast.Call) and callee_name(st.value) == "open" \
                        and isinstance(st.targets[0], ast.Name) and st.targets[0].id == _v:
                    return frozenset(("K", fl) for _ph, fl in state)
                return _o(st, state)
            sem.transfer = transfer
        exits = sem.run(W.node, init)
        # obligations: at each close of the file and at each normal return
        bad = []
        for state, node in sem.closes:
            for ph, fl in state:
                if fl != "F" and ph != "S":
                    bad.append((ph, fl, node, "close of the file (end of with)"))
        for x in exits:
            if x.kind != "return":
                continue
            for ph, fl in x.state:
                if ph in ("D", "K") and fl != "F":
                    bad.append((ph, fl, x.node, f"return at line {x.line}"))
                if ph == "X" and fl != "F":
                    # the with block was left by an exception (open/write/flush/fsync failed) and the routine nevertheless RETURNS:
                    # `return` inside `finally`, or a handler that swallows
                    bad.append((ph, fl, x.node, f"return at line {x.line} after the write had failed"))
        n_paths = sum(len(s) for s, _n in sem.closes) + sum(len(x.state) for x in exits if x.kind == "return")
        why = {"D": "data written but not flushed from the user-space buffer before the sync / close (fsync would precede the write)",
               "K": "data handed to the kernel but no os.fsync(f.fileno()) on this path",
               "X": "an exception of open/write/flush/fsync is discarded (return inside finally, or a swallowing handler): the write future succeeds, set() returns, and nothing is durably stored"}
        ok = not bad
        msg = None
        if bad:
            ph, fl, node, at = bad[0]
            msg = f"on a path with the sync flag {'true' if fl == 'T' else 'possibly true'} the file reaches {at} in phase {ph}: {why.get(ph, ph)}"
        ctx.ob("C17-R1", where, f"file '{fvar}': write->flush->fsync complete on all {n_paths} (phase,flag) path states with flag true",
               ok, node=(bad[0][2] if bad else ocall), construct=f"durability of {fvar} = {src(ocall)}", msg=msg,
               path=(f"entry {where} -> {bad[0][3]}" if bad else None))
        # the value itself is written: on every normal path the contents parameter goes into this file before it is closed
        if wnode is not None:
            ws = WroteSem(fvar, W.params())
            ws.run(W.node, frozenset([False]))
            okw = bool(ws.closes) and all(st_ == frozenset([True]) for st_ in ws.closes)
            ctx.ob("C17-R1", where, f"the contents parameter is written to '{fvar}' on every normal path before the file is closed", okw, node=ocall,
                   construct=f"contents written to {fvar}", msg="a path closes (and syncs) the freshly truncated file without having written the value: the set returns and the key reads back empty")
        # complete writes: a buffered file object writes all bytes or raises; a RAW one (buffering=0, os.write) may write fewer and
        # says so only in its return value
        raw_drops = []
        if _unbuffered(ocall):
            for c in calls_in(W.node):
                if isinstance(c.func, ast.Attribute) and c.func.attr == "write" and isinstance(c.func.value, ast.Name) and c.func.value.id == fvar \
                        and isinstance(getattr(c, "_parent", None), ast.Expr):
                    raw_drops.append(c)
        for c in calls_in(W.node):
            if dotted(c.func) == "os.write" and isinstance(getattr(c, "_parent", None), ast.Expr):
                raw_drops.append(c)
        ctx.ob("C17-R1", where, f"every write to '{fvar}' is complete: the file object is buffered (write() stores all bytes or raises), or the count returned by a raw write is consumed",
               not raw_drops, node=(raw_drops[0] if raw_drops else ocall), construct=f"complete write to {fvar}",
               msg="the file is opened unbuffered (raw FileIO / os.write): write() may store fewer bytes than given and reports that only through its return value, which is dropped here - "
                   "a short write (signal, quota, full disk boundary) is then synced and acknowledged as a completed set although the stored value is truncated")
        # the sync must exist at all for this file
        has_sync = any(dotted(c.func) in ("os.fsync", "os.fdatasync") for c in calls_in(W.node))
        ctx.ob("C17-R1", where, "an os.fsync call exists in the write routine", has_sync, node=W.node, construct="os.fsync present")


# ------------------------------------------------------------------ R2 / R3
def _arg_for_param(call, callee, pname, skip_self=True, offset=0):
    """expression passed for parameter pname of callee in `call` (positional index shifted by offset)"""
    params = callee.params()
    if skip_self and params[:1] == ["self"]:
        params = params[1:]
    for k in call.keywords:
        if k.arg == pname:
            return k.value
    if pname in params:
        i = params.index(pname) + offset
        if i < len(call.args):
            return call.args[i]
    # default value
    a = callee.node.args
    allp = [x.arg for x in a.posonlyargs + a.args]
    if pname in allp:
        j = allp.index(pname) - (len(allp) - len(a.defaults))
        if j >= 0:
            return a.defaults[j]
    return None


def _check_flag_flow(ctx, cg, W):
    repo = ctx.repo
    flag = _sync_flag(W)
    if flag is None:
        ctx.note("sync_flag", "fsync is unconditional in the write routine")
        return
    # functions that hand W to an executor (submit(W, ...)) or call it directly
    submitters = []
    for f in repo.all_funcs(DB_MODULES):
        for c in calls_in(f.node):
            if callee_name(c) == "submit" and c.args and W in cg.resolve_value(f, c.args[0]):
                submitters.append((f, c, 1))
            elif W in cg.resolve_call(f, c):
                submitters.append((f, c, 0))
    ctx.floor("C17-R2", "sites that submit/call the write routine", len(submitters), 1)
    for G, call, off in submitters:
        ctx.instance("C17-R2", G.fq, src(call))
        a = _arg_for_param(call, W, flag, offset=off)
        gparams = G.params()
        if isinstance(a, ast.Constant):
            ctx.ob("C17-R2", G.fq, f"constant flag passed to {W.name}", a.value is True, node=call,
                   construct=f"flag argument of {W.name}", msg=f"{W.name} is scheduled with sync flag {a.value!r}")
            continue
        fwd = isinstance(a, ast.Name) and a.id in gparams
        stored = fwd and any(isinstance(n, ast.Name) and n.id == a.id and isinstance(n.ctx, ast.Store) for n in walk_local(G.node))
        ctx.ob("C17-R2", G.fq, f"the flag parameter is forwarded unmodified to {W.name} in the submit call",
               fwd and not stored, node=call, construct=f"flag argument of {W.name}",
               msg=(f"sync flag position of {W.name} receives {src(a) if a is not None else 'nothing (default)'}"
                    + (" (parameter is reassigned before the call)" if stored else "")))
        if not fwd:
            continue
        gflag = a.id
        # facade call sites: dict subclasses in klongpy/db holding the *base* cache class of W
        owner_cls = W.cls
        sites = []
        for f in repo.all_funcs(DB_MODULES):
            if not f.cls or f.module.name == W.module.name:
                continue
            at = cg.attr_types(f.module.name, f.cls)
            for c in calls_in(f.node):
                if isinstance(c.func, ast.Attribute) and c.func.attr == G.name:
                    d = dotted(c.func.value)
                    if d and d.startswith("self.") and at.get(d.split(".")[1]) == owner_cls:
                        sites.append((f, c))
        ctx.floor("C17-R2", f"key-value facade call sites of {G.name} (receiver constructed as {owner_cls})", len(sites), 1)
        for f, c in sites:
            ctx.instance("C17-R2", f.fq, src(c))
            v = _arg_for_param(c, G, gflag)
            ctx.ob("C17-R2", f.fq, f"facade passes the constant True for '{gflag}'",
                   isinstance(v, ast.Constant) and v.value is True, node=c, construct=f"{gflag} argument of {G.name}",
                   msg=f"the key-value set calls {G.name} with {gflag}={src(v) if v is not None else '<default>'}; a completed set is then not synced")
        _check_blocks(ctx, cg, G, W)


class WaitSem(Sem):
    """state: frozenset of alias groups (frozensets of variable names); each group stands for ONE future of a write submitted in this
    activation and not yet waited for - result() through any of its names discharges it"""
    base_exc_escapes = False

    def __init__(self, is_submit):
        self.is_submit = is_submit

    def join2(self, a, b):
        return a | b

    def transfer(self, st, state):
        groups = [set(g) for g in state]

        def drop_name(n):
            for g in groups:
                if n in g:
                    g.discard(n)
                    if not g:
                        g.add(n + "<overwritten>")          # the only handle on the submitted future is gone: kept as lost
        for c in calls_in(st):
            if isinstance(c.func, ast.Attribute) and c.func.attr == "result" and isinstance(c.func.value, ast.Name):
                groups = [g for g in groups if c.func.value.id not in g]
        if isinstance(st, ast.Assign) and isinstance(st.value, ast.Call) and self.is_submit(st.value):
            new = set()
            for t in st.targets:
                if isinstance(t, ast.Name):
                    drop_name(t.id)
                    new.add(t.id)
            groups.append(new or {"<discarded future>"})
        elif isinstance(st, ast.Assign):
            srcg = next((g for g in groups if isinstance(st.value, ast.Name) and st.value.id in g), None)
            for t in st.targets:
                if isinstance(t, ast.Name):
                    if srcg is not None and t.id in srcg:
                        continue
                    drop_name(t.id)
                    if srcg is not None:
                        srcg.add(t.id)                        # another name for the same future
        elif isinstance(st, ast.Expr) and isinstance(st.value, ast.Call) and self.is_submit(st.value):
            groups.append({"<discarded future>"})
        return frozenset(frozenset(g) for g in groups if g)


def _check_blocks(ctx, cg, G, W):
    def is_submit(c):
        return callee_name(c) == "submit" and c.args and W in cg.resolve_value(G, c.args[0])
    ctx.instance("C17-R3", G.fq, "returns after result()")
    exits = WaitSem(is_submit).run(G.node, frozenset())
    bad = [x for x in exits if x.kind == "return" and x.state]
    ctx.ob("C17-R3", G.fq, f"every normal return follows future.result() of the submitted write ({sum(1 for x in exits if x.kind == 'return')} returns)",
           not bad, node=(bad[0].node if bad else G.node), construct="return before result() of the submitted write",
           msg=(f"return at line {bad[0].line} is reachable with the submitted write future {sorted(sorted(g) for g in bad[0].state)} not waited for" if bad else None),
           path=(f"entry {G.fq} -> return@{bad[0].line}" if bad else None))
    # the wait is not inside a handler that swallows the write's exception
    for c in calls_in(G.node):
        if isinstance(c.func, ast.Attribute) and c.func.attr == "result":
            swallowed = False
            p = getattr(c, "_parent", None)
            child = c
            while p is not None and p is not G.node:
                if isinstance(p, ast.Try) and child in p.body and p.handlers:
                    for h in p.handlers:
                        if not any(isinstance(n, ast.Raise) for n in ast.walk(h)):
                            swallowed = True
                child, p = p, getattr(p, "_parent", None)
            ctx.ob("C17-R3", G.fq, "an exception from the write propagates out of the set", not swallowed, node=c,
                   construct="result() under swallowing handler", msg="future.result() sits in a try whose handler does not re-raise: a failed write would be reported as a completed set")


# ------------------------------------------------------------------ R5
class _ReachSem(Sem):
    """state: the cache update has been called on every path reaching here"""
    base_exc_escapes = False

    def __init__(self, pred):
        self.pred = pred

    def join2(self, a, b):
        return a and b

    def transfer(self, st, state):
        return state or any(self.pred(c) for c in calls_in(st))


def _check_facade_reaches_write(ctx, cg, writers):
    repo = ctx.repo
    n = 0
    for f in facade_setters(repo, cg):
        if f.name != "set":
            continue

        def leads(c, _f=f):
            if not (isinstance(c.func, ast.Attribute) and (dotted(c.func.value) or "").startswith("self.")):
                return False
            return any(set(cg.reachable([g])) & {w.fq for w in writers} for g in cg.resolve_call(_f, c))
        if not any(leads(c) for c in calls_in(f.node)):
            continue
        n += 1
        ctx.instance("C17-R5", f.fq, "set reaches the write")
        exits = _ReachSem(leads).run(f.node, False)
        bad = [e for e in exits if e.kind == "return" and not e.state]
        ctx.ob("C17-R5", f.fq, "every normal return of the facade set has called the cache update that writes the value", not bad,
               node=bad[0].node if bad else f.node, construct="set returns without writing",
               msg=f"{f.fq} can return normally (line {bad[0].line if bad else 0}) without handing the value to the cache: the caller is told the set completed although nothing durable was written",
               path=f"entry {f.fq} -> return@{bad[0].line if bad else 0}")
    ctx.floor("C17-R5", "facade set methods that write through the cache", n, 1)
    allowed = {w.fq for w in writers}
    n_scan = 0
    # everything any method of a store facade class (constructor included) can reach
    fac_classes = {(f.module.name, f.cls) for f in facade_setters(repo, cg)}
    roots = [g for g in repo.all_funcs(DB_MODULES) if (g.module.name, g.cls) in fac_classes]
    reach = set(cg.reachable(roots))
    ctx.note("store_facade_reach", len(reach))
    for fq in sorted(reach):
        g = repo.fn(fq)
        mn = g.module.name
        if not mn.startswith("db/"):
            continue
        for c in calls_in(g.node):
            nm = callee_name(c)
            d = dotted(c.func) or ""
            creates = (nm == "open" and isinstance(c.func, ast.Name) and any(ch in _open_mode(c) for ch in "wax+")) or d == "os.open" or \
                (nm in FS_MUTATORS and nm != "makedirs" and (d.startswith(("os.", "shutil.", "pathlib.")) or nm in ("write_bytes", "write_text", "unlink", "touch")))
            n_scan += 1
            if not creates:
                continue
            where = fq
            ok = any(where == a or where.startswith(a + ".") for a in allowed)
            ctx.ob("C17-R5", where, "files under the store are created/changed only by the write routine", ok, node=c,
                   construct=f"{d or nm} outside the write routine",
                   msg=f"{where} creates or changes a file with {d or nm}: state of the store that no set wrote (lock, index, marker files) survives a crash and can make every completed key unreadable")
    ctx.instance("C17-R5", "klongpy/db", "who-may-create scan")
    ctx.control("C17-R5", f"calls scanned in the functions reachable from the store facades ({n_scan} in {len(reach)} functions)", n_scan >= 50 and len(reach) >= 15)


# ------------------------------------------------------------------ R4
def _resolve_local(expr, fnode, depth=3):
    """follow single-assignment local names"""
    while depth and isinstance(expr, ast.Name):
        defs = [n for n in walk_local(fnode) if isinstance(n, ast.Assign) and len(n.targets) == 1 and
                isinstance(n.targets[0], ast.Name) and n.targets[0].id == expr.id]
        if len(defs) != 1:
            return expr
        expr = defs[0].value
        depth -= 1
    return expr


def _is_key_path(expr, fnode, params):
    """os.path.join(self.root_path, <param>)"""
    e = _resolve_local(expr, fnode)
    if isinstance(e, ast.Call) and dotted(e.func) == "os.path.join" and len(e.args) == 2:
        a, b = e.args
        return dotted(a) == "self.root_path" and isinstance(b, ast.Name) and b.id in params
    return False


def _check_isolation(ctx, cg, writers):
    repo = ctx.repo
    roots = facade_setters(repo, cg)
    ctx.floor("C17-R4", "key-value facade setters", len(roots), 1)
    reach = cg.reachable(roots)
    n_mut = 0
    for fq in sorted(reach):
        f = repo.fn(fq)
        params = set(f.params())
        for c in calls_in(f.node):
            nm = callee_name(c)
            d = dotted(c.func) or ""
            if nm == "open" and isinstance(c.func, ast.Name):
                mode = _open_mode(c)
                if not any(ch in mode for ch in "wax+"):
                    continue
                n_mut += 1
                ctx.instance("C17-R4", fq, src(c))
                ok = bool(c.args) and _is_key_path(c.args[0], f.node, params)
                ctx.ob("C17-R4", fq, "file opened for writing is join(self.root_path, <file_name parameter>)", ok, node=c,
                       construct=f"open for write: {src(c.args[0]) if c.args else '?'}",
                       msg="a file other than the key's own file is opened for writing on the set path")
                ctx.ob("C17-R4", fq, "write mode truncates/creates only the key's own file (mode 'wb')", mode in ("wb", "w"),
                       node=c, construct=f"open mode {mode!r}")
            elif nm in FS_MUTATORS and (d.startswith(("os.", "shutil.", "pathlib.")) or nm in ("write_bytes", "write_text", "unlink", "touch")):
                n_mut += 1
                ctx.instance("C17-R4", fq, src(c))
                if nm == "makedirs" and c.args:
                    e = _resolve_local(c.args[0], f.node)
                    ok = isinstance(e, ast.Call) and dotted(e.func) == "os.path.dirname" and e.args and _is_key_path(e.args[0], f.node, params)
                    ctx.ob("C17-R4", fq, "makedirs creates only the parents of the key's file", bool(ok), node=c,
                           construct=f"makedirs {src(c.args[0])}")
                    # it precedes the open of the file
                    opens = [o for o in calls_in(f.node) if callee_name(o) == "open"]
                    ctx.ob("C17-R4", fq, "makedirs precedes the open of the key's file", all(pos(c) < pos(o) for o in opens),
                           node=c, construct="makedirs before open")
                else:
                    ctx.ob("C17-R4", fq, "no delete/rename/other file-system mutation on the set path", False, node=c,
                           construct=f"fs mutation {d or nm}", msg=f"{d or nm} on the key-value set path can affect files of other keys")
    ctx.floor("C17-R4", "file-system mutations on the set path", n_mut, 2)
    ctx.note("set_path_functions", sorted(reach))


# functions whose mechanical mutants are swept in the thorough tier (coverage evidence, see sa/mutate.py)
MUTATION_SCOPE = ['db/file_cache:FileCache._write_file',
                  'db/file_cache:FileCache.update_file',
                  'db/sys_fn_kvs:KeyValueStorage.set',
                  'db/helpers:key_to_file_path']

SEEDS = [
    Seed("unbuffered-write-result-dropped", "fault", "db/file_cache", "        with open(os.path.join(self.root_path, file_name), 'wb') as f:", "        with open(os.path.join(self.root_path, file_name), 'wb', buffering=0) as f:", rule="C17-R1"),
    Seed("write-error-swallowed", "fault", "db/file_cache",
         "        with open(os.path.join(self.root_path, file_name), 'wb') as f:\n            f.write(new_file_contents)\n            if use_fsync:\n                f.flush()\n                os.fsync(f.fileno())",
         "        try:\n            with open(os.path.join(self.root_path, file_name), 'wb') as f:\n                f.write(new_file_contents)\n                if use_fsync:\n                    f.flush()\n                    os.fsync(f.fileno())\n        except OSError:\n            pass",
         rule="C17-R1"),
    Seed("drop-flush", "fault", "db/file_cache", "                f.flush()\n", "", rule="C17-R1"),
    Seed("drop-fsync", "fault", "db/file_cache", "                os.fsync(f.fileno())\n", "                pass\n", rule="C17-R1"),
    Seed("fsync-before-write", "fault", "db/file_cache",
         "            f.write(new_file_contents)\n            if use_fsync:\n                f.flush()\n                os.fsync(f.fileno())\n",
         "            if use_fsync:\n                f.flush()\n                os.fsync(f.fileno())\n            f.write(new_file_contents)\n", rule="C17-R1"),
    Seed("flush-after-fsync", "fault", "db/file_cache",
         "                f.flush()\n                os.fsync(f.fileno())\n", "                os.fsync(f.fileno())\n                f.flush()\n", rule="C17-R1"),
    Seed("write-only-when-nonempty", "fault", "db/file_cache", "            f.write(new_file_contents)\n            if use_fsync:", "            if len(new_file_contents) > 1:\n                f.write(new_file_contents)\n            if use_fsync:", rule="C17-R1"),
    Seed("set-skips-unchanged", "fault", "db/sys_fn_kvs", "        self.cache.update_file(key_to_file_path(x), serialize_obj(y), use_fsync=True)",
         "        data = serialize_obj(y)\n        if getattr(self, '_last', {}).get(x) == data:\n            return\n        self._last = {x: data}\n        self.cache.update_file(key_to_file_path(x), data, use_fsync=True)", rule="C17-R5"),
    Seed("init-writes-marker", "fault", "db/sys_fn_kvs", "        self.cache = FileCache(root_path=root_path, max_memory=max_memory)",
         "        import os\n        os.makedirs(root_path, exist_ok=True)\n        with open(os.path.join(root_path, '.owner'), 'x') as f:\n            f.write(str(os.getpid()))\n        self.cache = FileCache(root_path=root_path, max_memory=max_memory)", rule="C17-R5"),
    Seed("refactor-set-local", "refactor", "db/sys_fn_kvs", "        self.cache.update_file(key_to_file_path(x), serialize_obj(y), use_fsync=True)",
         "        data = serialize_obj(y)\n        path = key_to_file_path(x)\n        self.cache.update_file(path, data, use_fsync=True)"),
    Seed("kvs-no-fsync", "fault", "db/sys_fn_kvs", "serialize_obj(y), use_fsync=True)", "serialize_obj(y))", rule="C17-R2"),
    Seed("kvs-false", "fault", "db/sys_fn_kvs", "use_fsync=True)", "use_fsync=False)", rule="C17-R2"),
    Seed("submit-drops-flag", "fault", "db/file_cache", "new_file_contents, use_fsync)\n                self.file_futures[file_name] = (True",
         "new_file_contents, False)\n                self.file_futures[file_name] = (True", rule="C17-R2"),
    Seed("return-before-result", "fault", "db/file_cache", "        future.result()\n        return write_applied",
         "        if write_applied:\n            return True\n        future.result()\n        return write_applied", rule="C17-R3"),
    Seed("swallow-write-error", "fault", "db/file_cache", "        future.result()\n        return write_applied",
         "        try:\n            future.result()\n        except Exception:\n            logging.warning('write failed')\n        return write_applied", rule="C17-R3"),
    Seed("shared-index-file", "fault", "db/file_cache", "        contents, memory_usage = self.process_contents(new_file_contents)\n        self.update_file_futures_and_memory(file_name, memory_usage=memory_usage)\n        return contents\n\n    def update_file_access_time",
         "        with open(os.path.join(self.root_path, 'INDEX'), 'a') as idx:\n            idx.write(file_name)\n        contents, memory_usage = self.process_contents(new_file_contents)\n        self.update_file_futures_and_memory(file_name, memory_usage=memory_usage)\n        return contents\n\n    def update_file_access_time", rule="C17-R4"),
    Seed("remove-before-write", "fault", "db/file_cache", "        os.makedirs(write_path, exist_ok=True)\n",
         "        os.makedirs(write_path, exist_ok=True)\n        if os.path.exists(write_path + '.tmp'):\n            os.remove(write_path + '.tmp')\n", rule="C17-R4"),
    Seed("sanitised-key", "fault", "db/helpers", "def key_to_file_path(key):\n    return key", "def key_to_file_path(key):\n    return key.replace(':', '_')", rule="C17-R4"),
    Seed("refactor-rename-file-var", "refactor", "db/file_cache",
         "'wb') as f:\n            f.write(new_file_contents)\n            if use_fsync:\n                f.flush()\n                os.fsync(f.fileno())",
         "'wb') as out:\n            out.write(new_file_contents)\n            if use_fsync:\n                out.flush()\n                fd = out.fileno()\n                os.fsync(out.fileno())"),
    Seed("refactor-early-return-no-sync", "refactor", "db/file_cache",
         "            if use_fsync:\n                f.flush()\n                os.fsync(f.fileno())",
         "            if not use_fsync:\n                pass\n            else:\n                f.flush()\n                os.fsync(f.fileno())"),
    Seed("refactor-path-temp", "refactor", "db/file_cache", "        with open(os.path.join(self.root_path, file_name), 'wb') as f:",
         "        with open(write_fname, 'wb') as f:"),
]
