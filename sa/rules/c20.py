"""C20 — web routes and websocket messages reach their Klong handler exactly once, intact.

Structural clauses decided: each route closure is bound (at definition time) to its own handler and
route; the handler is called exactly once per request on every non-failing path, inside a containment
that answers 400 and does not re-raise; GET/POST registration, parameter source and closure agree;
.webc waits for the runner's cleanup; every websocket message is received, decoded and dispatched to
.ws.m exactly once and awaited (hence in arrival order).  Actual HTTP behaviour is NOT decided.
"""
import ast

from ..model import AnalysisError, src, callee_name, dotted, walk_local, calls_in, FUNC, names_in, pos
from ..flow import Sem
from ..common import loop_closures, closure_escapes, CompletionSem, resolve_single_assign, ancestors, in_loop, is_awaited, handle_type_accepted
from ..selftest import Seed

META = {
    "technique": "loop-closure capture analysis, path enumeration inside the route closures and the websocket listener, registration/source table agreement, codec option rule for the websocket JSON encoder/decoder",
    "level_text": "Static proof over all paths of the route closures, the shutdown function and the websocket listener: right handler bound per route, called exactly once, contained (400, no re-raise), GET<->query / POST<->form agreement, shutdown waits for cleanup, one awaited dispatch per message. Quantifies over route tables and paths instead of the single GET the suite performs; does not decide aiohttp/websockets behaviour.",
    "level_note": "decides the structural clause below from source; does not decide the behaviour. Trusted: aiohttp routes a request to the registered coroutine only; default arguments are evaluated at definition time; `await` serialises the listener loop.",
    "explanation": (
        "Static analysis of klongpy/web/sys_fn_web.py and klongpy/ws/sys_fn_ws.py (closure capture repo-wide): free-variable analysis "
        "of closures created in loops, exit-path interpretation of each route closure (handler call count per path, containment "
        "shape), agreement of add_get/add_post with the parameter source, must-wait on shutdown, and per-path counts of "
        "recv/decode/dispatch in the websocket listener plus exactly-once completion of the result future on the server side."
        " R6: encode/decode are json.dumps/json.loads of the argument itself without options that drop, reorder or rewrite entries."),
    "assumptions": ["aiohttp delivers a request only to the coroutine registered for its method and path", "the `.ws.m` dispatch constant names the message handler"],
}

WEB = "web/sys_fn_web"
WS = "ws/sys_fn_ws"


class CountSem(Sem):
    """state: frozenset of call counts (capped at 2) of calls matching pred on the paths reaching here"""
    base_exc_escapes = False

    def __init__(self, pred, nonraising=None):
        self.pred = pred
        self.nonraising = nonraising or (lambda st: False)

    def join2(self, a, b):
        return a | b

    def atomic(self, st):
        return self.nonraising(st)

    def _count(self, node):
        return sum(1 for c in calls_in(node) if self.pred(c))

    def transfer(self, st, state):
        n = self._count(st)
        return frozenset(min(2, x + n) for x in state) if n else state

    def test_transfer(self, test, state):
        n = self._count(test)
        return frozenset(min(2, x + n) for x in state) if n else state


def check(ctx):
    repo = ctx.repo
    ctx.rule("C20-R1", "closure capture: a function created in a loop body that outlives the iteration does not read, as a free variable, a name assigned by that loop")
    ctx.rule("C20-R2", "each route closure: body is one try whose broad handler returns status 400 without re-raising; the bound handler is called exactly once on every path to the success response, not in a loop; the response text is str() of that call's result")
    ctx.rule("C20-R3", "registration agreement: add_get <-> closure reading the query, add_post <-> closure reading the posted form; registered path is the loop's route; handler/route bound as defaults from this iteration's values; handler argument is dict(<source>)")
    ctx.rule("C20-R4", ".webc: blocks on the shutdown coroutine before returning 1; shutdown awaits runner.cleanup() and then clears the handle")
    ctx.rule("C20-R5", "websocket listener: exactly one recv, one decode and one awaited dispatch to .ws.m per invocation; the listener loop awaits each invocation; the server side calls the handler once and completes the result future exactly once on every path")
    ctx.rule("C20-R6", "websocket codec: values are sent as json.dumps(value, cls=<array encoder>) with no option that drops, reorders or rejects entries (sort_keys, skipkeys, default=); messages are decoded with json.loads of the received text, unmodified")
    ctx.trust("default argument values are evaluated when the def statement runs", "aiohttp: add_get/add_post register the coroutine for that method and path only")

    # ---- R1 (whole repository)
    n = 0
    for f in repo.all_funcs():
        for c, loop, cap in loop_closures(f.node):
            if not closure_escapes(c, loop):
                continue
            n += 1
            name = getattr(c, "name", "<lambda>")
            ctx.instance("C20-R1", f.fq, f"{name}@loop")
            ctx.ob("C20-R1", f.fq, f"closure {name} created in a loop captures no loop-assigned name late ({sorted(free for free in cap) or 'none'})",
                   not cap, node=c, construct=f"closure {name} captures {sorted(cap)}",
                   msg=f"closure {name} reads {sorted(cap)} as free variable(s) although the enclosing loop rebinds them: every closure sees the last iteration's value",
                   path=f"{f.fq} loop@{loop.lineno} -> closure@{c.lineno}")
    ctx.floor("C20-R1", "closures created in loops (repo-wide)", n, 2)

    _check_routes(ctx, repo)
    _check_shutdown(ctx, repo)
    _check_ws(ctx, repo)
    _check_codec(ctx, repo)
    # the handler wrapper (dynamic re-resolution): shared with C09 - at most one dispatch per call, call-time lookup
    ctx.rule("C09-R2", "shared with C09: arity guard dominates every dispatch of the re-resolving wrapper")
    ctx.rule("C09-R3", "shared with C09: the wrapper resolves its symbol at call time and dispatches at most once per call, even if the handler raises")
    from . import c09
    c09._r2_r3(ctx, repo)


def _check_codec(ctx, repo):
    _check_codec_use(ctx, repo)
    enc = repo.fn(f"{WS}:encode_message")
    dec = repo.fn(f"{WS}:decode_message")
    for f, fn, lossy in ((enc, "dumps", ("sort_keys", "skipkeys", "default", "check_circular", "allow_nan")), (dec, "loads", ("object_hook", "object_pairs_hook", "parse_float", "parse_int", "parse_constant"))):
        ctx.instance("C20-R6", f.fq)
        calls = [c for c in calls_in(f.node) if dotted(c.func) == f"json.{fn}"]
        if fn == "dumps":
            # the same encoding spelled through the encoder object: <JSONEncoder subclass of this module>(options).encode(value)
            # (json.dumps(v, cls=E, **kw) is E(**kw).encode(v)); its constructor keywords are the options
            encs = {c.name for c in repo.module(WS).classes.values() if any(dotted(b) in ("json.JSONEncoder", "JSONEncoder") for b in c.bases)} | {"JSONEncoder"}
            for c in calls_in(f.node):
                if isinstance(c.func, ast.Attribute) and c.func.attr == "encode" and isinstance(c.func.value, ast.Call) and not c.func.value.args and \
                        (dotted(c.func.value.func) or "").split(".")[-1] in encs and not c.keywords:
                    c2 = ast.copy_location(ast.Call(func=c.func, args=c.args, keywords=c.func.value.keywords), c)
                    c2._parent = getattr(c, "_parent", None)
                    c2._same_as = c
                    calls.append(c2)
        p0 = f.params()[0]
        ok = len(calls) == 1 and calls[0].args and isinstance(calls[0].args[0], ast.Name) and calls[0].args[0].id == p0
        ctx.ob("C20-R6", f.fq, f"one json.{fn} call on the function's argument, unmodified", bool(ok), node=f.node, construct=f"json.{fn} on the argument itself",
               msg=f"{f.name} does not hand its argument to json.{fn} as it is")
        for c in calls:
            bad = [k.arg for k in c.keywords if k.arg in lossy and not (isinstance(k.value, ast.Constant) and k.value.value in (False, None) and k.arg not in ("check_circular", "allow_nan"))]
            ctx.ob("C20-R6", f.fq, f"json.{fn} is called without options that change which entries/values arrive ({', '.join(lossy[:3])}, ...)", not bad, node=c,
                   construct=f"json.{fn} option {bad[0] if bad else ''}",
                   msg=f"json.{fn}(..., {bad[0] if bad else ''}=...) changes the encoded value: sort_keys reorders dictionary entries and raises TypeError on mixed key types, skipkeys silently drops entries, hooks rewrite values")
        rets = [r for r in walk_local(f.node) if isinstance(r, ast.Return)]
        ctx.ob("C20-R6", f.fq, f"the result of json.{fn} is returned as it is", len(rets) == 1 and any(rets[0].value is c or rets[0].value is getattr(c, "_same_as", None) for c in calls), node=f.node, construct=f"json.{fn} result returned unmodified")


def _check_codec_use(ctx, repo):
    """C20-R7: a message is the value it had when it was sent / when it arrived.
    (a) the codec functions are plain functions: a caching decorator on decode hands the SAME object to two deliveries of equal frames,
        and Klong's in-situ dictionary update then shows one delivery's changes in the next;
    (b) the sender serialises in the caller's activation: encode_message is called directly in the sending method (not inside a nested
        function / coroutine that runs later on the io loop), so a value changed after the send call cannot change what is sent."""
    ctx.rule("C20-R7", "message identity: encode/decode are undecorated (no memoisation of decoded objects); the sending method encodes the value in its own activation, before anything is scheduled on the io loop")
    for name in ("encode_message", "decode_message"):
        f = repo.fn(f"{WS}:{name}")
        ctx.instance("C20-R7", f.fq)
        ctx.ob("C20-R7", f.fq, f"{name} is a plain function (no decorator)", not f.node.decorator_list, node=f.node, construct=f"{name} decorated with {', '.join(src(d)[:40] for d in f.node.decorator_list)}",
               msg=f"{name} is wrapped by {', '.join(src(d)[:40] for d in f.node.decorator_list)}: a cache returns one shared object for equal frames, so a handler's in-place change of its message is seen by the next delivery of an identical frame")
    senders = [f for f in repo.all_funcs((WS,)) if f.cls == "NetworkClient" and any(callee_name(c) == "encode_message" for c in ast.walk(f.node) if isinstance(c, ast.Call))]
    ctx.floor("C20-R7", "NetworkClient methods that encode an outgoing value", len(senders), 1)
    for f in senders:
        ctx.instance("C20-R7", f.fq, "encode in the caller's activation")
        direct = [c for c in calls_in(f.node) if callee_name(c) == "encode_message"]
        nested = [c for c in ast.walk(f.node) if isinstance(c, ast.Call) and callee_name(c) == "encode_message" and c not in direct]
        ctx.ob("C20-R7", f.fq, "the outgoing value is encoded in the sending method itself", bool(direct) and not nested, node=(nested[0] if nested else f.node),
               construct="encode_message called in a nested function of the sender",
               msg=f"{f.name} defers encode_message to a nested function that runs later on the io loop: a dictionary or list changed after the send call but before that loop turn is sent in its LATER state")
        scheds = [c for c in calls_in(f.node) if isinstance(c.func, ast.Attribute) and c.func.attr in ("call_soon_threadsafe", "run_coroutine_threadsafe", "create_task", "ensure_future")]
        if direct and scheds:
            ctx.ob("C20-R7", f.fq, "encoding precedes the hand-over to the io loop", all(pos(d) < pos(s_) for d in direct for s_ in scheds), node=direct[0], construct="encode after scheduling")


def _check_routes(ctx, repo):
    m = repo.module(WEB)
    regs = []   # (outer fn, loop, registration call, kind, closure def)
    for f in m.funcs.values():
        if f.parent is not None:
            continue
        for c in calls_in(f.node):
            if isinstance(c.func, ast.Attribute) and c.func.attr in ("add_get", "add_post", "add_route", "add_put", "add_delete"):
                regs.append((f, c))
    ctx.floor("C20-R3", "route registrations", len(regs), 2)
    kinds = set()
    for f, reg in regs:
        kind = reg.func.attr
        kinds.add(kind)
        ctx.instance("C20-R3", f.fq, src(reg))
        loop = next((p for p in ancestors(reg, f.node) if isinstance(p, (ast.For, ast.AsyncFor))), None)
        ok_loop = loop is not None
        ctx.ob("C20-R3", f.fq, f"{kind} is executed once per entry of the route table (inside the loop over it)", ok_loop, node=reg, construct=f"{kind} per route")
        if not ok_loop:
            continue
        tnames = [n.id for n in ast.walk(loop.target) if isinstance(n, ast.Name)]
        route_var = tnames[0] if tnames else None
        fn_var = tnames[1] if len(tnames) > 1 else None
        # registered path is this iteration's route; registered coroutine is defined in this iteration
        ok = len(reg.args) >= 2 and isinstance(reg.args[0], ast.Name) and reg.args[0].id == route_var
        ctx.ob("C20-R3", f.fq, "the path registered is the loop's route variable", ok, node=reg, construct=f"{kind} path argument")
        cname = reg.args[1].id if len(reg.args) >= 2 and isinstance(reg.args[1], ast.Name) else None
        cdef = None
        for st in loop.body:
            for nn in walk_local(st):
                if isinstance(nn, FUNC) and nn.name == cname:
                    cdef = nn
        ctx.ob("C20-R3", f.fq, "the coroutine registered is the closure defined in the same iteration", cdef is not None, node=reg, construct=f"{kind} closure argument")
        if cdef is None:
            continue
        _check_closure(ctx, f, loop, reg, kind, cdef, route_var, fn_var)
    ctx.ob("C20-R3", f"{WEB}:eval_sys_fn_create_web_server", "both GET and POST tables are registered", {"add_get", "add_post"} <= kinds,
           construct="GET and POST registration present")


def _check_closure(ctx, outer, loop, reg, kind, cdef, route_var, fn_var):
    where = f"{WEB}:{outer.qual}.{cdef.name}"
    a = cdef.args
    pos = a.posonlyargs + a.args
    defaults = dict(zip([p.arg for p in pos[len(pos) - len(a.defaults):]], a.defaults))
    req = pos[0].arg if pos else None
    # handler parameter: the default-bound parameter whose default derives from the loop's handler variable
    hparam = None
    for p, d in defaults.items():
        if isinstance(d, ast.Name):
            dv = d.id
            if dv == fn_var:
                hparam = p
            else:
                # a name assigned in this loop iteration from the handler variable (fn_wrapped = ... fn ...)
                for st in loop.body:
                    for nn in walk_local(st):
                        if isinstance(nn, ast.Assign) and any(isinstance(t, ast.Name) and t.id == dv for t in nn.targets) and fn_var in names_in(nn.value):
                            hparam = p
    ctx.ob("C20-R3", where, "the handler is bound as a default argument from this iteration's handler value", hparam is not None, node=cdef,
           construct="handler default binding", msg="the route closure does not bind this iteration's handler as a default argument")
    if hparam is None:
        return
    # route default (used for logging only, but a late-bound route would mis-report): checked by R1 as capture

    # ---- R2: shape
    body = [s for s in cdef.body if not (isinstance(s, ast.Expr) and isinstance(s.value, ast.Constant))]
    ok_shape = len(body) == 1 and isinstance(body[0], ast.Try)
    ctx.instance("C20-R2", where)
    ctx.ob("C20-R2", where, "the closure body is a single try statement (nothing can fail outside the containment)", ok_shape, node=cdef, construct="closure body is one try")
    if not ok_shape:
        return
    tr = body[0]
    broad = [h for h in tr.handlers if h.type is None or (isinstance(h.type, ast.Name) and h.type.id in ("Exception", "BaseException"))]
    ctx.ob("C20-R2", where, "a handler catches Exception", bool(broad), node=tr, construct="broad handler present",
           msg="a failing Klong handler is not contained: the exception type is not caught, aiohttp answers 500 instead of 400")
    for h in tr.handlers:
        reraises = any(isinstance(nn, ast.Raise) for nn in ast.walk(h))
        rets = [nn for st in h.body for nn in walk_local(st) if isinstance(nn, ast.Return)]
        is400 = bool(rets) and all(_status(r.value) == 400 for r in rets) and isinstance(h.body[-1], ast.Return)
        ctx.ob("C20-R2", where, "the handler answers with status 400 and does not re-raise", is400 and not reraises, node=h,
               construct=f"except {src(h.type) if h.type else ''} -> 400", msg="the containment does not end in a 400 response (re-raise, other status, or falling through)")
    # handler call count on every path of the try body
    def is_h(c):
        return isinstance(c.func, ast.Name) and c.func.id == hparam
    hcalls = [c for c in calls_in(tr) if is_h(c)]
    ctx.ob("C20-R2", where, "the bound handler has exactly one call site, not in a loop, inside the try body",
           len(hcalls) == 1 and not in_loop(hcalls[0], cdef) and any(hcalls[0] in list(ast.walk(s)) for s in tr.body),
           node=cdef, construct="one handler call site", msg=f"{len(hcalls)} call sites of the bound handler in the route closure")
    sem = CountSem(is_h)
    out, exits = sem.block(tr.body, frozenset([0]))
    rets = [x for x in exits if x.kind == "return"]
    ok = out is None and bool(rets) and all(x.state == frozenset([1]) for x in rets)
    ctx.ob("C20-R2", where, f"on each of the {len(rets)} success path(s) the handler was called exactly once", ok, node=tr, construct="handler called once per request",
           msg=("a path through the closure reaches a response with the handler called " + ", ".join(str(sorted(x.state)) for x in rets) + " times"
                if rets else "no path returns a response") + ("; a path falls through without a response" if out is not None else ""))
    # success response text is str(<handler call>)
    for x in rets:
        v = x.node.value
        txt = None
        if isinstance(v, ast.Call):
            for k in v.keywords:
                if k.arg == "text":
                    txt = k.value
        e = resolve_single_assign(txt, cdef) if txt is not None else None
        ok = isinstance(e, ast.Call) and callee_name(e) == "str" and len(e.args) == 1 and \
            isinstance(resolve_single_assign(e.args[0], cdef), ast.Call) and is_h(resolve_single_assign(e.args[0], cdef)) and _status(v) in (None, 200)
        ctx.ob("C20-R2", where, "the success response is web.Response(text=str(<the handler call's result>)) with status 200", ok, node=x.node,
               construct="response text is str(handler result)")
    # ---- R3: parameter source
    if hcalls:
        arg = hcalls[0].args[0] if len(hcalls[0].args) == 1 and not hcalls[0].keywords else None
        e = resolve_single_assign(arg, cdef) if arg is not None else None
        src_expr = e.args[0] if isinstance(e, ast.Call) and callee_name(e) == "dict" and len(e.args) == 1 and not e.keywords else None
        is_query = src_expr is not None and isinstance(src_expr, ast.Attribute) and src_expr.attr == "query" and req in names_in(src_expr)
        is_post = src_expr is not None and isinstance(src_expr, ast.Await) and isinstance(src_expr.value, ast.Call) and \
            isinstance(src_expr.value.func, ast.Attribute) and src_expr.value.func.attr == "post" and req in names_in(src_expr)
        if isinstance(arg, ast.Name):
            # the parameter dictionary is not touched between its construction and the call
            occ = [nn for nn in walk_local(cdef) if isinstance(nn, ast.Name) and nn.id == arg.id]
            ctx.ob("C20-R3", where, "the parameter dictionary is used only as the handler's argument (no additions or removals)", len(occ) == 2, node=hcalls[0],
                   construct=f"{kind} parameter dictionary untouched", msg=f"`{arg.id}` is modified or used elsewhere before it reaches the handler: the handler no longer sees exactly the request's parameters")
        want = {"add_get": is_query, "add_post": is_post}.get(kind, False)
        ctx.ob("C20-R3", where, f"handler argument is dict(<{'query of the request' if kind == 'add_get' else 'posted form of the request'}>) and nothing else", bool(want),
               node=hcalls[0], construct=f"{kind} parameter source",
               msg=f"the closure registered with {kind} passes {src(arg) if arg is not None else 'a different argument list'} to the handler")


def _status(call):
    if not isinstance(call, ast.Call):
        return -1
    for k in call.keywords:
        if k.arg == "status" and isinstance(k.value, ast.Constant):
            return k.value.value
    return None


def _check_shutdown(ctx, repo):
    m = repo.module(WEB)
    # the handle class: has an async method awaiting <self.X>.cleanup()
    sh = None
    for f in m.funcs.values():
        if f.cls and f.is_async and any(isinstance(c.func, ast.Attribute) and c.func.attr == "cleanup" for c in calls_in(f.node)):
            sh = f
    if sh is None:
        ctx.ob("C20-R4", f"{WEB}:WebServerHandle", "an async shutdown method awaits runner.cleanup()", False, construct="shutdown awaits cleanup",
               msg="no coroutine of the server handle calls runner.cleanup(): the port keeps answering after .webc")
        return
    ctx.instance("C20-R4", sh.fq)
    cl = [c for c in calls_in(sh.node) if isinstance(c.func, ast.Attribute) and c.func.attr == "cleanup"]
    ctx.ob("C20-R4", sh.fq, "runner.cleanup() is awaited", all(is_awaited(c) for c in cl), node=cl[0], construct="await runner.cleanup()",
           msg="runner.cleanup() is not awaited: .webc returns before the sockets are closed")
    attr = dotted(cl[0].func.value)
    clears = [nn for nn in walk_local(sh.node) if isinstance(nn, ast.Assign) and isinstance(nn.value, ast.Constant) and nn.value.value is None
              and any(dotted(t) == attr for t in nn.targets)]
    ctx.ob("C20-R4", sh.fq, f"{attr} is cleared after the cleanup", bool(clears) and all(pos(c) > pos(cl[0]) for c in clears), node=sh.node,
           construct="handle cleared after cleanup")
    # the system function blocks on it
    sysfn = [f for f in m.funcs.values() if f.parent is None and not f.cls and any(
        isinstance(c.func, ast.Attribute) and c.func.attr == sh.name for c in calls_in(f.node))]
    ctx.floor("C20-R4", "system function invoking the shutdown coroutine", len(sysfn), 1)
    for f in sysfn:
        ctx.instance("C20-R4", f.fq)
        # the handle class that .web returns is accepted as given by .webc
        hcls = sh.cls
        found, accepted, bad = handle_type_accepted(f, hcls)
        ctx.ob("C20-R4", f.fq, f"a {hcls} value (what .web returns) reaches the shutdown without having to be some other kind of value", found and accepted, node=f.node,
               construct="webc accepts the handle web returns",
               msg=f".webc only looks for the handle under `{bad}`: the {hcls} object that .web returns is not of that kind, so .webc(h) returns 0 and the port keeps answering")
        waits = []
        for c in calls_in(f.node):
            if isinstance(c.func, ast.Attribute) and c.func.attr == "result" and isinstance(c.func.value, ast.Call) and \
                    callee_name(c.func.value) == "run_coroutine_threadsafe" and c.func.value.args and \
                    isinstance(c.func.value.args[0], ast.Call) and callee_name(c.func.value.args[0]) == sh.name:
                waits.append(c)
        ctx.ob("C20-R4", f.fq, "the shutdown coroutine is run on the io loop and its completion is waited for (.result())", bool(waits), node=f.node,
               construct="webc blocks on shutdown", msg=".webc does not wait for the shutdown coroutine: it can return 1 while the port still answers")
        for r in [nn for nn in walk_local(f.node) if isinstance(nn, ast.Return) and isinstance(nn.value, ast.Constant) and nn.value.value == 1]:
            # the wait precedes `return 1` in the same block
            blk = r._parent
            lst = next((l for l in (getattr(blk, "body", []), getattr(blk, "orelse", [])) if r in l), [])
            before = lst[:lst.index(r)] if r in lst else []
            ok = any(w in list(ast.walk(s)) for s in before for w in waits)
            ctx.ob("C20-R4", f.fq, "`return 1` is preceded, in its block, by the blocking wait", ok, node=r, construct="return 1 after wait")


def _check_ws(ctx, repo):
    m = repo.module(WS)
    listeners = [f for f in m.funcs.values() if f.cls and f.is_async and any(
        isinstance(c.func, ast.Attribute) and c.func.attr == "recv" for c in calls_in(f.node))]
    ctx.floor("C20-R5", "websocket listener coroutines", len(listeners), 1)
    for L in listeners:
        ctx.instance("C20-R5", L.fq)

        def is_recv(c):
            return isinstance(c.func, ast.Attribute) and c.func.attr == "recv"

        def is_decode(c):
            return callee_name(c) == "decode_message"

        def is_dispatch(c):
            return callee_name(c) == "run_command_on_klongloop" and any(isinstance(a, ast.Constant) and a.value == ".ws.m" for a in c.args)

        def nonraising(st):
            cs = calls_in(st)
            return bool(cs) and all((dotted(c.func) or "").startswith("logging.") for c in cs)
        for what, pred in (("recv", is_recv), ("decode", is_decode), ("dispatch to .ws.m", is_dispatch)):
            exits = CountSem(pred, nonraising).run(L.node, frozenset([0]))
            rets = [x for x in exits if x.kind == "return"]
            ok = bool(rets) and all(x.state == frozenset([1]) for x in rets)
            ctx.ob("C20-R5", L.fq, f"exactly one {what} on every normal path ({len(rets)} return path(s))", ok, node=L.node, construct=f"one {what} per message",
                   msg=f"a normal path through the listener performs {what} " + ", ".join(str(sorted(x.state)) for x in rets) + " times: a message is dropped or handled twice")
        sites = [c for c in calls_in(L.node) if is_recv(c) or is_dispatch(c)]
        ctx.ob("C20-R5", L.fq, "recv and dispatch are awaited (not spawned) and not in a loop", all(is_awaited(c) and not in_loop(c, L.node) for c in sites) and bool(sites),
               node=L.node, construct="awaited recv/dispatch", msg="the dispatch to .ws.m is not awaited in the listener: messages can be handled out of arrival order")
        # the dispatched value is the decoded received message
        for c in [c for c in calls_in(L.node) if is_dispatch(c)]:
            idx = next(i for i, a in enumerate(c.args) if isinstance(a, ast.Constant) and a.value == ".ws.m")
            marg = c.args[idx + 1] if idx + 1 < len(c.args) else None
            defs = [nn for nn in walk_local(L.node) if isinstance(nn, ast.Assign) and isinstance(marg, ast.Name) and
                    any(isinstance(t, ast.Name) and t.id == marg.id for t in nn.targets)]
            last = max(defs, key=lambda d: pos(d)) if defs else None
            ok = last is not None and pos(last) < pos(c) and isinstance(last.value, ast.Call) and is_decode(last.value)
            ctx.ob("C20-R5", L.fq, "the value dispatched is the decoded message (last definition before the dispatch is decode_message(...))", ok, node=c,
                   construct="dispatch argument is the decoded message")
        # the caller loop awaits each invocation
        for f in m.funcs.values():
            for c in calls_in(f.node):
                if isinstance(c.func, ast.Attribute) and c.func.attr == L.name and dotted(c.func.value) == "self":
                    ctx.ob("C20-R5", f.fq, "the run loop awaits each listener invocation", is_awaited(c), node=c, construct=f"await self.{L.name}()",
                           msg="listener invocations are not awaited: messages are processed concurrently")
    # server side: handler called once, future completed exactly once
    ex = repo.fn(f"{WS}:execute_server_command")
    runc = repo.fn(f"{WS}:run_command_on_klongloop")
    ctx.instance("C20-R5", ex.fq)
    params = ex.params()
    fut = next((p for p in params if "future" in p and "loop" not in p), None)
    if fut is None:
        raise AnalysisError("execute_server_command has no result-future parameter")
    from ..common import value_ctors
    sem = CompletionSem(fut, value_ctors(repo))
    exits = sem.run(ex.node, frozenset([0]))
    rets = [x for x in exits if x.kind == "return"]
    ok = bool(rets) and all(x.state == frozenset([1]) for x in rets)
    ctx.ob("C20-R5", ex.fq, f"the result future is completed exactly once on every normal path ({len(rets)} paths)", ok, node=ex.node, construct="result future completed once",
           msg="a path through execute_server_command completes the result future " + ", ".join(str(sorted(x.state)) for x in rets) + " times: the listener hangs or fails with InvalidStateError")
    escapes = [x for x in exits if x.kind == "exc" and 0 in x.state]
    ctx.ob("C20-R5", ex.fq, "no exception escapes without completing the future (handlers cover Exception)", not escapes, node=(escapes[0].node if escapes else ex.node),
           construct="no uncompleted exceptional exit", msg=f"an exception at line {escapes[0].line if escapes else 0} leaves the result future pending: the listener waits forever")
    # the handler value is looked up from the interpreter and called once
    hv = [nn for nn in walk_local(ex.node) if isinstance(nn, ast.Assign) and isinstance(nn.value, ast.Subscript) and dotted(nn.value.value) == "klong"]
    hname = hv[0].targets[0].id if hv and isinstance(hv[0].targets[0], ast.Name) else None
    hc = [c for c in calls_in(ex.node) if isinstance(c.func, ast.Name) and c.func.id == hname]
    ctx.ob("C20-R5", ex.fq, "the message handler is looked up in the interpreter and called at exactly one site, not in a loop", len(hc) == 1 and not in_loop(hc[0], ex.node),
           node=ex.node, construct="handler called once per message")
    if hc:
        ok = len(hc[0].args) == 2 and isinstance(hc[0].args[1], ast.Name) and hc[0].args[1].id in params
        ctx.ob("C20-R5", ex.fq, "the handler receives the connection and the message parameter unchanged", ok, node=hc[0], construct="handler arguments (nc, command)")
    # run_command_on_klongloop awaits the future it handed out
    ctx.instance("C20-R5", runc.fq)
    futs = [nn.targets[0].id for nn in walk_local(runc.node) if isinstance(nn, ast.Assign) and isinstance(nn.value, ast.Call) and
            (dotted(nn.value.func) or "").endswith("Future") and isinstance(nn.targets[0], ast.Name)]
    aw = [nn for nn in walk_local(runc.node) if isinstance(nn, ast.Await) and isinstance(nn.value, ast.Name) and nn.value.id in futs]
    passed = any(isinstance(a, ast.Name) and a.id in futs for c in calls_in(runc.node) if callee_name(c) == ex.name for a in c.args)
    ctx.ob("C20-R5", runc.fq, "the dispatcher awaits the very future it passes to the command coroutine", bool(aw) and passed, node=runc.node,
           construct="dispatcher awaits result future", msg="the dispatcher returns without waiting for the command: later messages overtake earlier ones")


# functions whose mechanical mutants are swept in the thorough tier (coverage evidence, see sa/mutate.py)
MUTATION_SCOPE = ['web/sys_fn_web:eval_sys_fn_create_web_server',
                  'web/sys_fn_web:eval_sys_fn_create_web_server._get',
                  'web/sys_fn_web:eval_sys_fn_create_web_server._post',
                  'web/sys_fn_web:WebServerHandle.shutdown',
                  'web/sys_fn_web:eval_sys_fn_shutdown_web_server',
                  'ws/sys_fn_ws:NetworkClient._listen',
                  'ws/sys_fn_ws:NetworkClient._run',
                  'ws/sys_fn_ws:execute_server_command',
                  'ws/sys_fn_ws:run_command_on_klongloop',
                  'types:KGFnWrapper.__call__']

SEEDS = [
    Seed("ws-decode-memoised", "fault", WS, "def decode_message(data):", "@functools.lru_cache(maxsize=256)\ndef decode_message(data):", rule="C20-R7",
         more=[(WS, "import json\n", "import json\nimport functools\n")]),
    Seed("ws-encode-sort-keys", "fault", WS, "    return json.dumps(msg, cls=NumpyEncoder)", "    return json.dumps(msg, cls=NumpyEncoder, sort_keys=True)", rule="C20-R6"),
    Seed("ws-encode-skipkeys", "fault", WS, "    return json.dumps(msg, cls=NumpyEncoder)", "    return json.dumps(msg, cls=NumpyEncoder, skipkeys=True)", rule="C20-R6"),
    Seed("ws-decode-strips", "fault", WS, "    return json.loads(data)", "    return json.loads(data.strip()[:65536])", rule="C20-R6"),
    Seed("refactor-ws-encode-separators", "refactor", WS, "    return json.dumps(msg, cls=NumpyEncoder)", "    return json.dumps(msg, cls=NumpyEncoder, separators=(',', ':'))"),
    Seed("drop-fn-default-get", "fault", WEB, "async def _get(request: web.Request, fn=fn_wrapped, route=route):\n            try:\n                assert request.method == \"GET\"\n                return web.Response(text=str(fn(",
         "async def _get(request: web.Request, route=route):\n            try:\n                assert request.method == \"GET\"\n                return web.Response(text=str(fn_wrapped(", rule="C20-R1"),
    Seed("drop-route-default-post", "fault", WEB, "async def _post(request: web.Request, fn=fn_wrapped, route=route):", "async def _post(request: web.Request, fn=fn_wrapped):\n            logging.info(route)", rule="C20-R1"),
    Seed("handler-called-twice", "fault", WEB, "                return web.Response(text=str(fn(dict(request.rel_url.query))))",
         "                logging.info(f\"result: {fn(dict(request.rel_url.query))}\")\n                return web.Response(text=str(fn(dict(request.rel_url.query))))", rule="C20-R2"),
    Seed("narrow-except", "fault", WEB, "            except Exception as e:\n                logging.error(e)", "            except ValueError as e:\n                logging.error(e)", rule="C20-R2"),
    Seed("status-500", "fault", WEB, "                logging.error(e)\n                return web.Response(text=\"Invalid request\", status=400)", "                logging.error(e)\n                return web.Response(text=\"Invalid request\", status=500)", rule="C20-R2"),
    Seed("reraise", "fault", WEB, "                logging.info(f\"failed web request: {route} with error {e}\")\n                return web.Response(text=\"Invalid request\", status=400)",
         "                logging.info(f\"failed web request: {route} with error {e}\")\n                raise", rule="C20-R2"),
    Seed("get-registered-as-post", "fault", WEB, "        app.router.add_get(route, _get)", "        app.router.add_post(route, _get)", rule="C20-R3"),
    Seed("post-reads-query", "fault", WEB, "                parameters = dict(await request.post())", "                parameters = dict(request.rel_url.query)", rule="C20-R3"),
    Seed("register-outside-loop", "fault", WEB, "        logging.info(\"adding POST route: \", route)\n\n        app.router.add_post(route, _post)", "        logging.info(\"adding POST route: \", route)\n\n    app.router.add_post(route, _post)", rule="C20-R3"),
    Seed("extra-param", "fault", WEB, "                return web.Response(text=str(fn(parameters)))", "                parameters['_route'] = route\n                return web.Response(text=str(fn(parameters)))", rule="C20-R3", where="_post"),
    Seed("cleanup-not-awaited", "fault", WEB, "        await self.runner.cleanup()", "        asyncio.ensure_future(self.runner.cleanup())", rule="C20-R4"),
    Seed("webc-no-wait", "fault", WEB, "asyncio.run_coroutine_threadsafe(x.shutdown(), klong['.system']['ioloop']).result()", "asyncio.run_coroutine_threadsafe(x.shutdown(), klong['.system']['ioloop'])", rule="C20-R4"),
    Seed("webc-only-unwraps-kgcall", "fault", WEB, "        x = x.a.fn\n    if isinstance(x, WebServerHandle) and x.runner is not None:\n        print(\"shutting down web server\")\n        asyncio.run_coroutine_threadsafe(x.shutdown(), klong['.system']['ioloop']).result()\n        return 1\n    return 0",
         "        x = x.a.fn\n        if isinstance(x, WebServerHandle) and x.runner is not None:\n            print(\"shutting down web server\")\n            asyncio.run_coroutine_threadsafe(x.shutdown(), klong['.system']['ioloop']).result()\n            return 1\n    return 0", rule="C20-R4"),
    Seed("ws-dispatch-spawned", "fault", WS, "            await run_command_on_klongloop(self.klongloop, self.klong, \".ws.m\", msg, self)",
         "            asyncio.create_task(run_command_on_klongloop(self.klongloop, self.klong, \".ws.m\", msg, self))", rule="C20-R5"),
    Seed("ws-dispatch-twice-on-error", "fault", WS, "                except Exception as e:\n                    logging.warning(f\"error while running on_message handler: {e}\")",
         "                except Exception as e:\n                    logging.warning(f\"error while running on_message handler: {e}\")\n                    await run_command_on_klongloop(self.klongloop, self.klong, \".ws.m\", msg, self)", rule="C20-R5"),
    Seed("ws-raw-dispatch", "fault", WS, "            msg = decode_message(msg)\n", "            raw = decode_message(msg)\n", rule="C20-R5"),
    Seed("ws-handler-not-completed", "fault", WS, "    except KeyError as e:\n        future_loop.call_soon_threadsafe(result_future.set_exception, KlongException(f\"symbol not found: {e}\"))\n    except Exception as e:\n        import traceback\n        traceback.print_exception(type(e), e, e.__traceback__)\n        future_loop.call_soon_threadsafe(result_future.set_exception, KlongException(\"internal error\"))\n        logging.error(f\"execute_server_command Klong error {e}\")",
         "    except KeyError as e:\n        logging.error(f\"symbol not found: {e}\")\n    except Exception as e:\n        import traceback\n        traceback.print_exception(type(e), e, e.__traceback__)\n        future_loop.call_soon_threadsafe(result_future.set_exception, KlongException(\"internal error\"))\n        logging.error(f\"execute_server_command Klong error {e}\")", rule="C20-R5"),
    Seed("refactor-result-temp", "refactor", WEB, "                return web.Response(text=str(fn(dict(request.rel_url.query))))",
         "                params = dict(request.rel_url.query)\n                result = fn(params)\n                return web.Response(text=str(result))"),
    Seed("refactor-rename-closure", "refactor", WEB, "        async def _post(request: web.Request, fn=fn_wrapped, route=route):", "        async def _post(request: web.Request, fn=fn_wrapped, route=route, **_kw):"),
    Seed("refactor-handler-var", "refactor", WEB, "        fn_wrapped = KGFnWrapper(klong, fn) if isinstance(fn, KGFn) else fn\n\n        async def _get(request: web.Request, fn=fn_wrapped, route=route):",
         "        handler = KGFnWrapper(klong, fn) if isinstance(fn, KGFn) else fn\n\n        async def _get(request: web.Request, fn=handler, route=route):"),
]
