"""C07 — gradient and Jacobian computation is observationally pure.

Structural clauses decided: every temporary rebinding of a user variable made by the gradient code is
undone on every way out (exceptional exits included) of the function that made it — or, when a closure
leaves it open, of the function that hands that closure out; the saved original is read before the
first temporary store; finite-difference probing never writes into the caller's point; in-place
autograd switches are applied to private tensors only.  That `f()` returns the same *value* afterwards
is NOT decided.
"""
import ast

from ..model import AnalysisError, src, callee_name, dotted, walk_local, calls_in, FUNC, pos
from ..flow import Sem
from ..callgraph import CallGraph
from .. import fresh
from ..selftest import Seed

META = {
    "technique": "open/close obligation dataflow over a CFG with exception edges (two-level: closure and its definer), freshness (ownership) analysis of in-place writes",
    "level_text": "Static proof over every exit (normal and exceptional) of the gradient helpers that each temporary rebinding of a variable is restored, and over every in-place write of the numeric differentiation code that its target is a private copy. Covers the fault positions no test takes (loss function raising at its k-th evaluation, non-scalar result, generator-based context managers); does not decide values.",
    "level_note": "decides the structural clause below from source; does not decide the behaviour. Trusted: frozen NumPy/torch API facts (which calls allocate / alias / mutate), receiver convention `klong` / `klong._context` for the variable store; any call may raise.",
    "explanation": (
        "Static analysis of klongpy/autograd.py, sys_fn_autograd.py, the gradient dyads of dyads.py and the torch compute_* helpers: "
        "(R1) exit-path abstract interpretation with the set of open rebinding keys as state: a store klong[k]=v that is not a restore of a "
        "saved original opens k, a restore closes it, every exit must have nothing open; a closure that leaves keys open hands the "
        "obligation to the statement of its definer that uses it; (R2) flow-sensitive freshness analysis: every subscript store / in-place "
        "method in the probing code targets a value allocated in the same activation; (R3) torch in-place switches (requires_grad_ ...) only "
        "on tensors created in the same activation."),
    "assumptions": ["the variable store is written only through klong[...] / klong._context[...] in the gradient code (checked: no other receiver)",
                    "np.array / .copy() / .flatten() / .astype() copy; np.asarray / reshape / ravel may alias (frozen table in sa/fresh.py)"],
}

GRAD_MODULES = ("autograd", "sys_fn_autograd", "dyads", "backends/torch_backend", "backends/base", "backends/numpy_backend", "monads")
STORE_RECV = ("klong", "klong._context", "self.klong", "self.klong._context")


def _is_store_target(t):
    return isinstance(t, ast.Subscript) and dotted(t.value) in STORE_RECV


def rebinding_functions(repo):
    out = []
    for f in repo.all_funcs(GRAD_MODULES):
        if f.module.name == "dyads" and not _in_grad_dyad(f):
            continue
        for n in walk_local(f.node):
            if isinstance(n, (ast.Assign, ast.AugAssign, ast.Delete)):
                tg = n.targets if not isinstance(n, ast.AugAssign) else [n.target]
                if any(_is_store_target(t) for t in tg):
                    out.append(f)
                    break
    return out


def _in_grad_dyad(f):
    top = f
    while top.parent is not None:
        top = top.parent
    return top.name in ("eval_dyad_grad", "eval_dyad_jacobian", "eval_dyad_autograd")


class KeyClasses:
    """maps a key expression to its class: a loop variable ranging over collection C becomes elem(C)"""

    def __init__(self, fnode):
        self.loopvar = {}
        self.dictkeys = {}
        for n in walk_local(fnode):
            if isinstance(n, ast.Assign) and len(n.targets) == 1 and isinstance(n.targets[0], ast.Name):
                v = n.value
                if isinstance(v, ast.DictComp) and len(v.generators) == 1 and isinstance(v.key, ast.Name) and \
                        isinstance(v.generators[0].target, ast.Name) and v.generators[0].target.id == v.key.id:
                    self.dictkeys[n.targets[0].id] = src(v.generators[0].iter)
        for n in walk_local(fnode):
            if isinstance(n, (ast.For, ast.AsyncFor)):
                self._bind(n.target, n.iter)
            elif isinstance(n, (ast.ListComp, ast.DictComp, ast.SetComp, ast.GeneratorExp)):
                for g in n.generators:
                    self._bind(g.target, g.iter)

    def _bind(self, target, it):
        if isinstance(it, ast.Call) and callee_name(it) == "zip" and isinstance(target, ast.Tuple):
            for t, a in zip(target.elts, it.args):
                if isinstance(t, ast.Name):
                    self.loopvar[t.id] = f"elem({src(a)})"
        elif isinstance(it, ast.Call) and callee_name(it) == "enumerate" and isinstance(target, ast.Tuple) and len(target.elts) == 2 and it.args:
            if isinstance(target.elts[1], ast.Name):
                self.loopvar[target.elts[1].id] = f"elem({src(it.args[0])})"
        elif isinstance(it, ast.Call) and isinstance(it.func, ast.Attribute) and it.func.attr == "items" and isinstance(target, ast.Tuple) and \
                isinstance(it.func.value, ast.Name) and isinstance(target.elts[0], ast.Name):
            coll = self.dictkeys.get(it.func.value.id, f"keys({it.func.value.id})")
            self.loopvar[target.elts[0].id] = f"elem({coll})"
        elif isinstance(target, ast.Name) and isinstance(it, ast.Name) and it.id in self.dictkeys:
            self.loopvar[target.id] = f"elem({self.dictkeys[it.id]})"          # iterating a dictionary walks its keys
        elif isinstance(target, ast.Name) and isinstance(it, ast.Call) and isinstance(it.func, ast.Attribute) and it.func.attr == "keys" and \
                isinstance(it.func.value, ast.Name) and it.func.value.id in self.dictkeys:
            self.loopvar[target.id] = f"elem({self.dictkeys[it.func.value.id]})"
        elif isinstance(target, ast.Name):
            self.loopvar[target.id] = f"elem({src(it)})"

    def cls(self, key):
        if isinstance(key, ast.Name) and key.id in self.loopvar:
            return self.loopvar[key.id]
        return src(key)


def saved_names(f, repo):
    """names that hold a saved original: bound from a read of the variable store (directly, via a container built from
    such reads, via a default argument, or via iteration over such a container), in f or an enclosing function.
    -> {name: line of the save}"""
    saved = {}
    chain = []
    g = f
    while g is not None:
        chain.append(g)
        g = g.parent
    for g in reversed(chain):
        def reads_store(e):
            return any(isinstance(n, ast.Subscript) and isinstance(n.ctx, ast.Load) and dotted(n.value) in STORE_RECV for n in ast.walk(e))
        for n in walk_local(g.node):
            if isinstance(n, ast.Assign) and reads_store(n.value):
                for t in n.targets:
                    if isinstance(t, ast.Name):
                        saved[t.id] = pos(n)
        # defaults of g bound to saved names
        a = g.node.args
        ppos = a.posonlyargs + a.args
        for p, d in zip(ppos[len(ppos) - len(a.defaults):], a.defaults):
            if isinstance(d, ast.Name) and d.id in saved:
                saved[p.arg] = saved[d.id]
        # loop targets iterating containers of saved originals
        for n in walk_local(g.node):
            if isinstance(n, (ast.For, ast.AsyncFor)):
                it = n.iter
                srcs = []
                if isinstance(it, ast.Call) and isinstance(it.func, ast.Attribute) and it.func.attr in ("items", "values") and isinstance(it.func.value, ast.Name):
                    srcs = [(it.func.value.id, -1)]
                elif isinstance(it, ast.Call) and callee_name(it) == "zip":
                    srcs = [(a_.id, i) for i, a_ in enumerate(it.args) if isinstance(a_, ast.Name)]
                for nm, idx in srcs:
                    if nm in saved:
                        tg = n.target
                        if isinstance(tg, ast.Tuple):
                            el = tg.elts[idx] if idx >= 0 else tg.elts[-1]
                            if isinstance(el, ast.Name):
                                saved[el.id] = saved[nm]
                        elif isinstance(tg, ast.Name):
                            saved[tg.id] = saved[nm]
    return saved


class RebindSem(Sem):
    """state: frozenset of open key classes"""

    def __init__(self, fi, saved, kc, leaks):
        self.fi, self.saved, self.kc, self.leaks = fi, saved, kc, leaks
        self.first_temp = {}      # key class -> line of first temporary store
        self.restores = []        # (key class, saved name, line)

    def join2(self, a, b):
        return a | b

    def _store(self, st):
        """-> (key class, is_restore, saved name) for a variable-store statement"""
        if isinstance(st, ast.Assign) and len(st.targets) == 1 and _is_store_target(st.targets[0]):
            k = self.kc.cls(st.targets[0].slice)
            v = st.value
            if isinstance(v, ast.Name) and v.id in self.saved:
                return k, True, v.id
            # saved_container[key] with the same key the store is made under
            if isinstance(v, ast.Subscript) and isinstance(v.value, ast.Name) and v.value.id in self.saved and self.kc.cls(v.slice) == k:
                return k, True, v.value.id
            return k, False, None
        if isinstance(st, ast.Delete) and any(_is_store_target(t) for t in st.targets):
            t = next(t for t in st.targets if _is_store_target(t))
            return self.kc.cls(t.slice), False, None
        if isinstance(st, ast.AugAssign) and _is_store_target(st.target):
            return self.kc.cls(st.target.slice), False, None
        return None

    def atomic(self, st):
        s = self._store(st)
        return s is not None and s[1]      # a restore of a saved name cannot fail half-way in a way that matters

    def _uses_leaky(self, st):
        out = set()
        for n in walk_local(st):
            if isinstance(n, ast.Name) and isinstance(n.ctx, ast.Load) and n.id in self.leaks:
                out |= self.leaks[n.id]
        return out

    def transfer(self, st, state):
        s = self._store(st)
        if s is not None:
            k, restore, nm = s
            if restore:
                self.restores.append((k, nm, st.lineno))
                return state - {k}
            self.first_temp.setdefault(k, pos(st))
            return state | {k}
        if not isinstance(st, FUNC):
            lk = self._uses_leaky(st)
            if lk:
                return state | lk
        return state

    def exc_state(self, st, state):
        if not isinstance(st, FUNC):
            lk = self._uses_leaky(st)
            if lk:
                return state | lk
        return state

    def stmt(self, st, state):
        # a loop whose body only restores saved originals closes the classes it restores
        if isinstance(st, (ast.For, ast.AsyncFor)) and st.body and all(
                (self._store(b) is not None and self._store(b)[1]) for b in st.body) and not st.orelse:
            new = set(state)
            for b in st.body:
                k, _r, nm = self._store(b)
                self.restores.append((k, nm, b.lineno))
                new.discard(k)
            return frozenset(new), []
        return super().stmt(st, state)


def check(ctx):
    repo = ctx.repo
    cg = CallGraph(repo)
    ctx.rule("C07-R1", "PAIR(rebinding): every store klong[k]=v in the gradient code that is not a restore of a saved original opens k; k is closed on every exit (normal and exceptional) of that function, or of the function that hands the closure out; the original is saved before the first temporary store")
    ctx.rule("C07-R2", "FRESH-WRITE: every in-place write in the numeric differentiation code targets an array allocated in the same activation")
    ctx.rule("C07-R4", "saving reads may look at the scope stack, but every (re)binding and every restore goes through klong[k] = v: a restore that stores into klong._context leaves expressions compiled during the probe in the cache")
    from ..common import check_writes_through_interpreter
    check_writes_through_interpreter(ctx, repo, "C07-R4", ("autograd",), "the gradient code")
    ctx.rule("C07-R3", "in-place torch switches (requires_grad_ and other `*_` methods) are applied only to tensors created in the same activation")
    for t in fresh.trusted_facts():
        ctx.trust(t)

    # ---------------- R1
    funcs = rebinding_functions(repo)
    ctx.floor("C07-R1", "gradient functions that rebind variables", len(funcs), 3)
    # bottom-up: nested closures first
    funcs.sort(key=lambda f: -f.qual.count("."))
    leaks_by_parent = {}      # parent fq -> {closure name: set(classes)}
    n_stores = 0
    for f in funcs:
        saved = saved_names(f, repo)
        kc = KeyClasses(f.node)
        # key classes of enclosing functions are visible too (free loop variables)
        g = f.parent
        while g is not None:
            pk = KeyClasses(g.node)
            for k, v in pk.loopvar.items():
                kc.loopvar.setdefault(k, v)
            g = g.parent
        leaks = leaks_by_parent.get(f.fq, {})
        sem = RebindSem(f, saved, kc, leaks)
        exits = sem.run(f.node, frozenset())
        is_gen = any(isinstance(n, (ast.Yield, ast.YieldFrom)) for n in walk_local(f.node))
        ctx.instance("C07-R1", f.fq, f"{len(exits)} exits")
        n_stores += len(sem.first_temp) + len(sem.restores)
        open_exits = [x for x in exits if x.state]
        leak = set()
        for x in open_exits:
            leak |= set(x.state)
        if open_exits and f.parent is not None and not is_gen:
            # hand the obligation to the definer: it must close what this closure may leave open
            leaks_by_parent.setdefault(f.parent.fq, {})[f.name] = leak
            if f.parent not in funcs:
                funcs.append(f.parent)
            ctx.ob("C07-R1", f.fq, f"closure leaves {sorted(leak)} rebound on some exit: obligation handed to {f.parent.fq}", True, node=f.node,
                   construct=f"closure {f.name} leaves keys open")
        else:
            kinds = sorted({("exceptional exit" if x.kind == "exc" else "return") + f"@{x.line}" for x in open_exits})
            where_gen = " (a generator-based context manager: an exception thrown in at `yield` skips the code after it)" if is_gen else ""
            ctx.ob("C07-R1", f.fq, f"nothing is left rebound on any of the {len(exits)} exits", not open_exits,
                   node=(open_exits[0].node if open_exits else f.node), construct=f"rebinding of {sorted(leak)} not restored on every exit",
                   msg=f"variable(s) {sorted(leak)} stay bound to the temporary value on: {', '.join(kinds[:4])}{where_gen}",
                   path=(f"entry {f.fq} -> {kinds[0]}" if kinds else None))
        # save-before-first-store
        for k, nm, line in sem.restores:
            first = sem.first_temp.get(k)
            sline = saved.get(nm)
            if first is None:
                continue
            ok = sline is not None and (sline < first or _defined_outside(f, nm))
            ctx.ob("C07-R1", f.fq, f"the original restored into {k} ({nm}) was read before the first temporary store", ok, node=f.node,
                   construct=f"original of {k} saved before first store",
                   msg=f"`{nm}` is read from the variable store after {k} was already rebound: the 'original' is the temporary value")
    ctx.floor("C07-R1", "rebinding stores and restores examined", n_stores, 6)
    # the variable store is written through no other receiver in the gradient modules
    for f in repo.all_funcs(("autograd", "sys_fn_autograd")):
        for n in walk_local(f.node):
            if isinstance(n, ast.Call) and isinstance(n.func, ast.Attribute) and n.func.attr in ("__setitem__", "__delitem__"):
                ctx.ob("C07-R1", f.fq, "no indirect store to the variable table", False, node=n, construct="indirect store", msg="variable store written through __setitem__: not tracked by the restore analysis")

    # ---------------- R2 / R3
    mods = ["monads", "dyads", "adverbs", "types", "autograd", "backends/base", "backends/numpy_backend", "backends/torch_backend",
            "interpreter", "writer", "sys_fn_autograd"]
    summ = fresh.compute_summaries(repo, cg, mods)
    n2 = n3 = 0
    for f in repo.all_funcs(("autograd",)):
        if f.parent is not None:
            continue
        for fa in fresh.analyse_function(f, cg, summ):
            for node, obj, fr, kind in fa.sinks:
                if fr == "state":
                    continue
                n2 += 1
                ctx.instance("C07-R2", fa.fi.fq, src(node)[:80])
                ctx.ob("C07-R2", fa.fi.fq, f"{kind} on `{src(obj)}` writes into a value allocated in this activation", fr == fresh.FRESH, node=node,
                       construct=f"{kind} on {src(obj)}",
                       msg=f"`{src(obj)}` may alias the caller's point ({fr}): the probe perturbs the user's variable in place (and leaves it perturbed if the function fails)",
                       path=f"{fa.fi.fq} line {node.lineno}")
    ctx.floor("C07-R2", "in-place writes in the numeric differentiation code", n2, 7)
    # R3: torch in-place switches
    old = set(fresh.ALIAS_CALLS)
    try:
        fresh.ALIAS_CALLS.discard("detach")           # detach() returns a new tensor object (flags are per object)
        fresh.ALLOC_CALLS.add("detach")
        for f in repo.all_funcs(("backends/torch_backend", "autograd", "sys_fn_autograd")):
            if f.parent is not None:
                continue
            for fa in fresh.analyse_function(f, cg, summ):
                for node, obj, fr, kind in fa.sinks:
                    if "in-place tensor method" not in kind:
                        continue
                    n3 += 1
                    ctx.instance("C07-R3", fa.fi.fq, src(node)[:80])
                    ctx.ob("C07-R3", fa.fi.fq, f"{kind} on a tensor created in this activation", fr == fresh.FRESH, node=node,
                           construct=f"{kind} on {src(obj)}"[:160],
                           msg=f"an in-place autograd switch is applied to `{src(obj)[:60]}` which may be the user's own tensor ({fr}): the variable becomes a gradient-tracking tensor")
    finally:
        fresh.ALIAS_CALLS.clear(); fresh.ALIAS_CALLS.update(old); fresh.ALLOC_CALLS.discard("detach")
    ctx.floor("C07-R3", "torch in-place switch sites", n3, 4)
    ctx.note("callgraph_resolution", cg.resolution_stats())


def _defined_outside(f, nm):
    """nm is a parameter/default of f (bound at definition) rather than a local assignment"""
    return nm in f.params()


# functions whose mechanical mutants are swept in the thorough tier (coverage evidence, see sa/mutate.py)
MUTATION_SCOPE = ['autograd:numeric_grad',
                  'autograd:numeric_jacobian',
                  'autograd:multi_jacobian_of_fn',
                  'autograd:multi_jacobian_of_fn.single_param_fn',
                  'autograd:multi_grad_of_fn',
                  'autograd:multi_grad_of_fn.call_fn_with_tensors',
                  'dyads:eval_dyad_grad',
                  'dyads:eval_dyad_grad.func']

SEEDS = [
    Seed("restore-bypasses-setitem", "fault", "autograd", "                klong[sym] = orig", "                klong._context[sym] = orig", rule="C07-R4"),
    Seed("restore-out-of-finally-grad", "fault", "dyads",
         "            try:\n                return call_fn(v)\n            finally:\n                klong[a] = orig",
         "            r = call_fn(v)\n            klong[a] = orig\n            return r", rule="C07-R1"),
    Seed("restore-only-on-exception", "fault", "dyads",
         "            finally:\n                klong[a] = orig\n\n        return numeric_grad(func, orig, klong._backend)",
         "            except Exception:\n                klong[a] = orig\n                raise\n\n        grad = numeric_grad(func, orig, klong._backend)\n        klong[a] = orig\n        return grad", rule="C07-R1"),
    Seed("multi-grad-no-finally", "fault", "autograd",
         "        try:\n            for sym, tensor in zip(param_syms, tensors):\n                klong[sym] = tensor\n            return _invoke_fn(klong, fn, [])\n        finally:\n            for sym, orig in originals.items():\n                klong[sym] = orig",
         "        for sym, tensor in zip(param_syms, tensors):\n            klong[sym] = tensor\n        r = _invoke_fn(klong, fn, [])\n        for sym, orig in originals.items():\n            klong[sym] = orig\n        return r", rule="C07-R1"),
    Seed("contextmanager-without-finally", "fault", "autograd",
         "        originals = {sym: klong._context[sym] for sym in param_syms}\n        try:\n            for sym, tensor in zip(param_syms, tensors):\n                klong[sym] = tensor\n            return _invoke_fn(klong, fn, [])\n        finally:\n            for sym, orig in originals.items():\n                klong[sym] = orig",
         "        with _rebound(klong, param_syms, tensors):\n            return _invoke_fn(klong, fn, [])", rule="C07-R1",
         more=[("def multi_grad_of_fn(klong, fn, param_syms):", "@contextmanager\ndef _rebound(klong, syms, values):\n    originals = [klong._context[sym] for sym in syms]\n    for sym, value in zip(syms, values):\n        klong[sym] = value\n    yield\n    for sym, orig in zip(syms, originals):\n        klong[sym] = orig\n\n\ndef multi_grad_of_fn(klong, fn, param_syms):"),
               ("import numpy as np\n", "from contextlib import contextmanager\nimport numpy as np\n")]),
    Seed("refactor-contextmanager-with-finally", "refactor", "autograd",
         "        originals = {sym: klong._context[sym] for sym in param_syms}\n        try:\n            for sym, tensor in zip(param_syms, tensors):\n                klong[sym] = tensor\n            return _invoke_fn(klong, fn, [])\n        finally:\n            for sym, orig in originals.items():\n                klong[sym] = orig",
         "        with _rebound(klong, param_syms, tensors):\n            return _invoke_fn(klong, fn, [])",
         more=[("def multi_grad_of_fn(klong, fn, param_syms):", "@contextmanager\ndef _rebound(klong, syms, values):\n    originals = [klong._context[sym] for sym in syms]\n    try:\n        for sym, value in zip(syms, values):\n            klong[sym] = value\n        yield\n    finally:\n        for sym, orig in zip(syms, originals):\n            klong[sym] = orig\n\n\ndef multi_grad_of_fn(klong, fn, param_syms):"),
               ("import numpy as np\n", "from contextlib import contextmanager\nimport numpy as np\n")]),
    Seed("save-after-store", "fault", "autograd",
         "        def single_param_fn(v, s=sym, orig=original):\n            \"\"\"Wrapper that sets param to v, calls fn, restores param.\"\"\"\n            klong[s] = v\n            try:\n                return call_fn()\n            finally:\n                klong[s] = orig",
         "        def single_param_fn(v, s=sym):\n            \"\"\"Wrapper that sets param to v, calls fn, restores param.\"\"\"\n            klong[s] = v\n            orig = klong[s]\n            try:\n                return call_fn()\n            finally:\n                klong[s] = orig", rule="C07-R1"),
    Seed("jacobian-restore-dropped", "fault", "autograd",
         "            try:\n                return call_fn()\n            finally:\n                klong[s] = orig\n", "            return call_fn()\n", rule="C07-R1"),
    Seed("numeric-grad-asarray", "fault", "autograd", "    x = np.array(x, dtype=float_dtype)\n\n    grad =", "    x = np.asarray(x, dtype=float_dtype)\n\n    grad =", rule="C07-R2"),
    Seed("jacobian-probes-in-place", "fault", "autograd", "    x = np.asarray(x, dtype=float_dtype).flatten()\n\n    # Evaluate function at x", "    x = np.asarray(x, dtype=float_dtype).ravel()\n\n    # Evaluate function at x", rule="C07-R2",
         more=[("        x_plus = x.copy()\n        x_plus[j] += eps", "        x_plus = x\n        x_plus[j] += eps")]),
    Seed("requires-grad-on-user-tensor", "fault", "backends/torch_backend", "            return x.clone().detach().float().requires_grad_(True)", "            return x.float().requires_grad_(True)", rule="C07-R3"),
    Seed("refactor-restore-in-outer-finally", "refactor", "dyads",
         "            try:\n                return call_fn(v)\n            finally:\n                klong[a] = orig\n\n        return numeric_grad(func, orig, klong._backend)",
         "            return call_fn(v)\n\n        try:\n            return numeric_grad(func, orig, klong._backend)\n        finally:\n            klong[a] = orig"),
    Seed("refactor-copy-idiom", "refactor", "autograd", "        x_plus = x.copy()\n        x_plus[j] += eps", "        x_plus = np.array(x)\n        x_plus[j] += eps"),
    Seed("refactor-rename-orig", "refactor", "dyads", "        orig = klong[a]\n\n        def func(v):\n            klong[a] = v\n            try:\n                return call_fn(v)\n            finally:\n                klong[a] = orig\n\n        return numeric_grad(func, orig, klong._backend)",
         "        before = klong[a]\n\n        def func(v):\n            klong[a] = v\n            try:\n                return call_fn(v)\n            finally:\n                klong[a] = before\n\n        return numeric_grad(func, before, klong._backend)"),
]
