"""C11 — readable output reads back to the same value.

One narrow structural clause is decided: no reader entry point hands a *deferred dictionary node*
(the call node the literal reader builds for `:{...}`) to the program as data; and the writer's
dictionary form is the form the reader's dictionary branch accepts.  Round-trip equality over values
(numbers, exponents, quoting, nesting) is NOT decided: it quantifies over runtime values.
"""
import ast

from ..model import AnalysisError, src, callee_name, dotted, walk_local, calls_in, FUNC
from ..callgraph import CallGraph
from ..selftest import Seed

META = {
    "technique": "type-flow of deferred nodes over the resolved call graph (source: literal reader, sanitiser: evaluation, sink: system functions returning reader output as data); writer/reader delimiter table agreement",
    "level_text": "Static decision of one necessary condition of the round trip: which reader-derived values can leave .rs/.r as data without being evaluated. It finds the defect the property text itself reports (a written dictionary reads back as a function-call object) from the code shape; value-level round-tripping is declared out of reach for static analysis.",
    "level_note": "decides the narrow structural clause below from source; does not decide the behaviour (round-trip equality over all values is not decided by any rule here). Trusted: a value is 'deferred' iff it is the KGCall built in the reader's dictionary branch.",
    "explanation": (
        "Static analysis of klongpy/parser.py, sys_fn.py, writer.py: the reader functions that can return the deferred dictionary node are "
        "computed as a fixpoint over return statements (kg_read's ':{' branch -> read_list elements -> kg_read_array); every system function "
        "whose return value is such a reader result, unevaluated, is a sink. The writer's dictionary delimiters ':{' '}' and pair form are "
        "compared with the reader's dictionary branch. Round-trip equality of values is not decided."),
    "assumptions": ["reader results are 'data' when returned from a system function without passing through klong.call/eval"],
}


def deferred_sources(repo, cg):
    """reader functions that may return a deferred dictionary node (KGCall built from a parse-time dict), directly or nested in a list"""
    m = repo.module("parser")
    direct = set()
    for f in m.funcs.values():
        for r in [n for n in walk_local(f.node) if isinstance(n, ast.Return) and n.value is not None]:
            for c in ast.walk(r.value):
                if isinstance(c, ast.Call) and callee_name(c) == "KGCall":
                    direct.add(f.fq)
    may = set(direct)
    changed = True
    while changed:
        changed = False
        for f in list(m.funcs.values()) + [g for g in repo.module("sys_fn").funcs.values()]:
            if f.fq in may or f.module.name != "parser":
                continue
            # returns (a container built from) the result of a may-function
            names = set()
            for n in walk_local(f.node):
                if isinstance(n, ast.Assign) and isinstance(n.value, ast.Call) and any(g.fq in may for g in cg.resolve_call(f, n.value)):
                    for t in n.targets:
                        for x in ast.walk(t):
                            if isinstance(x, ast.Name):
                                names.add(x.id)
            # containers those names are appended to
            for n in walk_local(f.node):
                if isinstance(n, ast.Call) and isinstance(n.func, ast.Attribute) and n.func.attr == "append" and isinstance(n.func.value, ast.Name) and \
                        n.args and isinstance(n.args[0], ast.Name) and n.args[0].id in names:
                    names.add(n.func.value.id)
                if isinstance(n, ast.Assign) and isinstance(n.value, ast.Call) and callee_name(n.value) in ("kg_asarray", "asarray") and n.value.args and \
                        isinstance(n.value.args[0], ast.Name) and n.value.args[0].id in names:
                    for t in n.targets:
                        if isinstance(t, ast.Name):
                            names.add(t.id)
            for r in [n for n in walk_local(f.node) if isinstance(n, ast.Return) and n.value is not None]:
                hit = any(isinstance(x, ast.Name) and x.id in names for x in ast.walk(r.value)) or \
                    any(isinstance(c, ast.Call) and any(g.fq in may for g in cg.resolve_call(f, c)) for c in ast.walk(r.value))
                if hit:
                    may.add(f.fq)
                    changed = True
                    break
    return direct, may


def check(ctx):
    repo = ctx.repo
    cg = CallGraph(repo)
    ctx.rule("C11-R1", "thunk escape: a system function that returns reader output as data must not be able to return the deferred dictionary node unevaluated")
    ctx.rule("C11-R2", "writer/reader agreement on the dictionary form: the writer emits ':{' pairs '}' and the reader's dictionary branch is entered on ':' '{' and closed by '}'")
    direct, may = deferred_sources(repo, cg)
    ctx.note("deferred_node_sources", sorted(direct))
    ctx.note("readers_that_may_return_deferred_nodes", sorted(may))
    ctx.floor("C11-R1", "reader functions that build deferred dictionary nodes", len(direct), 1)
    sysm = repo.module("sys_fn")
    sinks = 0
    for f in sysm.funcs.values():
        if f.parent is not None or not f.name.startswith("eval_sys_"):
            continue
        reader_vars = {}
        for n in walk_local(f.node):
            if isinstance(n, ast.Assign) and isinstance(n.value, ast.Call):
                tg = [g.fq for g in cg.resolve_call(f, n.value) if g.fq in may]
                if tg:
                    for t in n.targets:
                        elts = t.elts if isinstance(t, ast.Tuple) else [t]
                        if elts and isinstance(elts[-1], ast.Name):
                            reader_vars[elts[-1].id] = tg[0]
        if not reader_vars:
            continue
        for r in [n for n in walk_local(f.node) if isinstance(n, ast.Return) and n.value is not None]:
            v = r.value
            if isinstance(v, ast.Name) and v.id in reader_vars:
                sinks += 1
                ctx.instance("C11-R1", f.fq, f"returns {v.id}")
                # sanitised if some statement between the read and the return rebinds the variable through evaluation/unwrapping
                sanitised = any(isinstance(a, ast.Assign) and any(isinstance(t, ast.Name) and t.id == v.id for t in a.targets) and
                                any(isinstance(c, ast.Call) and callee_name(c) in ("call", "eval", "_undefer", "materialize", "resolve_deferred") for c in ast.walk(a.value))
                                for a in walk_local(f.node))
                ctx.ob("C11-R1", f.fq, f"the reader result `{v.id}` (from {reader_vars[v.id]}) is evaluated/unwrapped before it is returned as data", sanitised, node=r,
                       construct="returns reader output unevaluated",
                       msg=f"{f.name} returns what {reader_vars[v.id].split(':')[1]} produced without evaluating deferred nodes: a written dictionary `:{{...}}` reads back as a function-call object (KGCall), not as a dictionary")
    ctx.floor("C11-R1", "system functions returning reader output as data", sinks, 2)
    # ---- R2
    wd = repo.fn("writer:kg_write_dict")
    consts = [c.value for c in ast.walk(wd.node) if isinstance(c, ast.Constant) and isinstance(c.value, str)]
    ctx.instance("C11-R2", wd.fq)
    ctx.ob("C11-R2", wd.fq, "the writer opens a dictionary with ':{' and closes it with '}'", ":{" in consts and "}" in consts, node=wd.node, construct="writer dictionary delimiters")
    kr = repo.fn("parser:kg_read")
    ok = False
    for n in walk_local(kr.node):
        if isinstance(n, ast.If):
            t = src(n.test)
            if t in ("aa == '{'", 'aa == "{"'):
                rl = [c for s in n.body for c in calls_in(s) if callee_name(c) == "read_list"]
                ok = bool(rl) and any(isinstance(a, ast.Constant) and a.value == "}" for c in rl for a in c.args)
    ctx.instance("C11-R2", kr.fq)
    ctx.ob("C11-R2", kr.fq, "the reader's ':{' branch reads pairs up to '}'", ok, node=kr.node, construct="reader dictionary delimiters")


SEEDS = [
    Seed("rs-evaluates-literal", "refactor", "sys_fn", "    _, a = kg_read_array(x, 0, klong._backend, module=klong.current_module(), read_neg=True)\n    return a",
         "    _, a = kg_read_array(x, 0, klong._backend, module=klong.current_module(), read_neg=True)\n    b = a\n    return a"),
    Seed("writer-dict-brace", "fault", "writer", "    return ''.join([':{', ' '.join(", "    return ''.join(['{', ' '.join(", rule="C11-R2"),
    Seed("reader-dict-delim", "fault", "parser", "            i, d = read_list(t, '}', i=i+2, module=module)", "            i, d = read_list(t, ']', i=i+2, module=module)", rule="C11-R2"),
]
