"""C11 — readable output reads back to the same value.

One narrow structural clause is decided: no reader entry point hands a *deferred dictionary node*
(the call node the literal reader builds for `:{...}`) to the program as data; and the writer's
dictionary form is the form the reader's dictionary branch accepts.  Round-trip equality over values
(numbers, exponents, quoting, nesting) is NOT decided: it quantifies over runtime values.
"""
import ast
from ..flow import atoms_at
import re

from ..model import AnalysisError, src, callee_name, dotted, walk_local, calls_in, FUNC
from ..callgraph import CallGraph
from ..selftest import Seed

def ancestors_(node):
    p = getattr(node, "_parent", None)
    while p is not None:
        yield p
        p = getattr(p, "_parent", None)


def _is_new(g):
    """g is not a function of the reviewed inventory (a helper somebody extracted)"""
    from ..normalize import inventory
    inv = inventory()
    return inv is not None and g.fq not in inv


META = {
    "technique": "type-flow of deferred nodes over the resolved call graph (source: literal reader, sanitiser: evaluation, sink: system functions returning reader output as data); writer/reader delimiter table agreement, reader entry-point argument flow, token-form table agreement, format-spec precision rule of the real writer, identity rule of string Form",
    "level_text": "Static decision of one necessary condition of the round trip: which reader-derived values can leave .rs/.r as data without being evaluated. It finds the defect the property text itself reports (a written dictionary reads back as a function-call object) from the code shape; value-level round-tripping is declared out of reach for static analysis.",
    "level_note": "decides the narrow structural clause below from source; does not decide the behaviour (round-trip equality over all values is not decided by any rule here). Trusted: a value is 'deferred' iff it is the KGCall built in the reader's dictionary branch.",
    "explanation": (
        "Static analysis of klongpy/parser.py, sys_fn.py, writer.py: the reader functions that can return the deferred dictionary node are "
        "computed as a fixpoint over return statements (kg_read's ':{' branch -> read_list elements -> kg_read_array); every system function "
        "whose return value is such a reader result, unevaluated, is a sink. The writer's dictionary delimiters ':{' '}' and pair form are "
        "compared with the reader's dictionary branch. Round-trip equality of values is not decided."
        " R3/R4: the reader entry points pass the text unmodified with the same options and the writer's token forms agree with the reader's dispatch; R5: the real writer uses str/repr or >=17 significant digits; R6: every return of the scalar Form reachable for a string target returns the text itself."),
    "assumptions": ["reader results are 'data' when returned from a system function without passing through klong.call/eval"],
}


def deferred_sources(repo, cg):
    """reader functions that may return a deferred dictionary node (KGCall built from a parse-time dict), directly or nested in a list"""
    m = repo.module("parser")
    direct = set()
    for f in m.funcs.values():
        for r in [n for n in walk_local(f.node) if isinstance(n, ast.Return) and n.value is not None]:
            for c in ast.walk(r.value):
                if isinstance(c, ast.Call) and callee_name(c) == "KGCall":
                    direct.add(f.fq)
    may = set(direct)
    changed = True
    while changed:
        changed = False
        for f in list(m.funcs.values()) + [g for g in repo.module("sys_fn").funcs.values()]:
            if f.fq in may or f.module.name != "parser":
                continue
            # returns (a container built from) the result of a may-function
            names = set()
            for n in walk_local(f.node):
                if isinstance(n, ast.Assign) and isinstance(n.value, ast.Call) and any(g.fq in may for g in cg.resolve_call(f, n.value)):
                    for t in n.targets:
                        for x in ast.walk(t):
                            if isinstance(x, ast.Name):
                                names.add(x.id)
            # containers those names are appended to
            for n in walk_local(f.node):
                if isinstance(n, ast.Call) and isinstance(n.func, ast.Attribute) and n.func.attr == "append" and isinstance(n.func.value, ast.Name) and \
                        n.args and isinstance(n.args[0], ast.Name) and n.args[0].id in names:
                    names.add(n.func.value.id)
                if isinstance(n, ast.Assign) and isinstance(n.value, ast.Call) and callee_name(n.value) in ("kg_asarray", "asarray") and n.value.args and \
                        isinstance(n.value.args[0], ast.Name) and n.value.args[0].id in names:
                    for t in n.targets:
                        if isinstance(t, ast.Name):
                            names.add(t.id)
            for r in [n for n in walk_local(f.node) if isinstance(n, ast.Return) and n.value is not None]:
                hit = any(isinstance(x, ast.Name) and x.id in names for x in ast.walk(r.value)) or \
                    any(isinstance(c, ast.Call) and any(g.fq in may for g in cg.resolve_call(f, c)) for c in ast.walk(r.value))
                if hit:
                    may.add(f.fq)
                    changed = True
                    break
    return direct, may


def check(ctx):
    repo = ctx.repo
    cg = CallGraph(repo)
    ctx.rule("C11-R1", "thunk escape: a system function that returns reader output as data must not be able to return the deferred dictionary node unevaluated")
    ctx.rule("C11-R2", "writer/reader agreement on the dictionary form: the writer emits ':{' pairs '}' and the reader's dictionary branch is entered on ':' '{' and closed by '}'")
    direct, may = deferred_sources(repo, cg)
    ctx.note("deferred_node_sources", sorted(direct))
    ctx.note("readers_that_may_return_deferred_nodes", sorted(may))
    ctx.floor("C11-R1", "reader functions that build deferred dictionary nodes", len(direct), 1)
    sysm = repo.module("sys_fn")
    sinks = 0
    for f in sysm.funcs.values():
        if f.parent is not None or not f.name.startswith("eval_sys_"):
            continue
        reader_vars = {}
        for n in walk_local(f.node):
            if isinstance(n, ast.Assign) and isinstance(n.value, ast.Call):
                tg = [g.fq for g in cg.resolve_call(f, n.value) if g.fq in may]
                if tg:
                    for t in n.targets:
                        elts = t.elts if isinstance(t, ast.Tuple) else [t]
                        if elts and isinstance(elts[-1], ast.Name):
                            reader_vars[elts[-1].id] = tg[0]
        if not reader_vars:
            continue
        for r in [n for n in walk_local(f.node) if isinstance(n, ast.Return) and n.value is not None]:
            v = r.value
            if isinstance(v, ast.Name) and v.id in reader_vars:
                sinks += 1
                ctx.instance("C11-R1", f.fq, f"returns {v.id}")
                # sanitised if some statement between the read and the return rebinds the variable through evaluation/unwrapping
                sanitised = any(isinstance(a, ast.Assign) and any(isinstance(t, ast.Name) and t.id == v.id for t in a.targets) and
                                any(isinstance(c, ast.Call) and callee_name(c) in ("call", "eval", "_undefer", "materialize", "resolve_deferred") for c in ast.walk(a.value))
                                for a in walk_local(f.node))
                ctx.ob("C11-R1", f.fq, f"the reader result `{v.id}` (from {reader_vars[v.id]}) is evaluated/unwrapped before it is returned as data", sanitised, node=r,
                       construct="returns reader output unevaluated",
                       msg=f"{f.name} returns what {reader_vars[v.id].split(':')[1]} produced without evaluating deferred nodes: a written dictionary `:{{...}}` reads back as a function-call object (KGCall), not as a dictionary")
    ctx.floor("C11-R1", "system functions returning reader output as data", sinks, 2)
    # ---- R2
    wd = repo.fn("writer:kg_write_dict")
    wd_nodes = [wd.node] + [g.node for c in calls_in(wd.node) for g in [wd.module.funcs.get(callee_name(c) or "")] if g is not None and g.node is not wd.node and _is_new(g)]
    consts = [c.value for nd in wd_nodes for c in ast.walk(nd) if isinstance(c, ast.Constant) and isinstance(c.value, str)]
    ctx.instance("C11-R2", wd.fq)
    ctx.ob("C11-R2", wd.fq, "the writer opens a dictionary with ':{' and closes it with '}'", ":{" in consts and "}" in consts, node=wd.node, construct="writer dictionary delimiters")
    kr = repo.fn("parser:kg_read")
    ok = False
    for c in calls_in(kr.node):
        if callee_name(c) == "read_list" and any(isinstance(a, ast.Constant) and a.value == "}" for a in c.args):
            # ... reached only after the two characters ':' and '{' were seen (whatever the locals are called)
            from ..flow import path_conditions, split_conj
            facts = [x for t_, p_ in path_conditions(c, kr.node, check_kill=False) for x in split_conj(t_, p_)]     # control dependence (the cursor is re-bound by this very statement)
            eqs = {e.comparators[0].value for e, pol in facts if pol and isinstance(e, ast.Compare) and len(e.ops) == 1 and isinstance(e.ops[0], ast.Eq) and
                   isinstance(e.comparators[0], ast.Constant)}
            eqs |= {e.args[1].value for e, pol in facts if pol and isinstance(e, ast.Call) and callee_name(e) == "safe_eq" and len(e.args) == 2 and isinstance(e.args[1], ast.Constant)}
            ok = ok or ({":", "{"} <= eqs)
    ctx.instance("C11-R2", kr.fq)
    ctx.ob("C11-R2", kr.fq, "the reader's ':{' branch reads pairs up to '}'", ok, node=kr.node, construct="reader dictionary delimiters")
    ctx.rule("C11-R3", "the reader entry points (.r, .rs) pass the text unmodified, from offset 0, with the same reader options (negative numbers enabled)")
    ctx.rule("C11-R4", "TABLE-AGREE(token forms): symbol ':x', character '0cx', string with doubled quotes, blank-separated bracketed lists - writer constants versus the reader's dispatch")
    ctx.rule("C11-R5", "real numbers are written with Python's shortest round-trip text (str/repr) or at least 17 significant digits; no fixed-precision format sits between the value and its written form")
    ctx.rule("C11-R6", "Form to a string target is the identity on the text: every return of the form function that a string `a` can reach returns `b` itself")
    _entry_points(ctx, repo, cg)
    _token_forms(ctx, repo)
    _float_writer(ctx, repo)
    _form_identity(ctx, repo)


def _spec_precision(spec):
    """(precision, type) of a format spec / printf conversion, or None"""
    m = re.search(r"\.(\d+)([a-zA-Z%]?)", spec)
    if m:
        return int(m.group(1)), (m.group(2) or "g")
    m = re.search(r"([eEfFgG%])$", spec)
    if m:
        return 6, m.group(1)          # default precision
    return None


def _float_writer(ctx, repo):
    f = repo.fn("writer:kg_write_float")
    ctx.instance("C11-R5", f.fq)
    val = f.params()[0]
    specs = []
    for n in walk_local(f.node):
        if isinstance(n, ast.Call) and callee_name(n) == "format" and isinstance(n.func, ast.Name) and len(n.args) == 2 and isinstance(n.args[1], ast.Constant):
            specs.append((n, str(n.args[1].value)))
        elif isinstance(n, ast.Call) and isinstance(n.func, ast.Attribute) and n.func.attr == "format" and isinstance(n.func.value, ast.Constant) and isinstance(n.func.value.value, str):
            for m in re.finditer(r"\{[^}]*:([^}]*)\}", n.func.value.value):
                specs.append((n, m.group(1)))
        elif isinstance(n, ast.FormattedValue) and n.format_spec is not None:
            specs.append((n, "".join(v.value for v in n.format_spec.values if isinstance(v, ast.Constant))))
        elif isinstance(n, ast.BinOp) and isinstance(n.op, ast.Mod) and isinstance(n.left, ast.Constant) and isinstance(n.left.value, str):
            for m in re.finditer(r"%[-+ #0]*\d*(\.\d+)?[eEfFgG]", n.left.value):
                specs.append((n, m.group(0)[1:]))
        elif isinstance(n, ast.Call) and callee_name(n) in ("round", "format_float_positional", "format_float_scientific", "around"):
            specs.append((n, ".0f"))
    for node, spec in specs:
        pp = _spec_precision(spec)
        ok = pp is None or (pp[1] in "gG" and pp[0] >= 17) or (pp[1] in "eE" and pp[0] >= 16)
        ctx.ob("C11-R5", f.fq, f"format `{spec}` keeps at least 17 significant digits", ok, node=node, construct=f"real written with fixed precision `{spec}`",
               msg=f"reals are written through `{spec}`: doubles that need 17 significant digits (0.1+0.2, the largest double) are written as a neighbouring value (or as inf) and do not read back to the same number")
    conv = [c for c in calls_in(f.node) if callee_name(c) in ("str", "repr") and c.args and any(isinstance(x, ast.Name) and x.id == val for x in ast.walk(c.args[0]))]
    ctx.ob("C11-R5", f.fq, "the written form comes from str()/repr() of the value or from a reviewed >=17-digit format", bool(conv) or bool(specs), node=f.node, construct="real writer uses shortest round-trip text",
           msg="the real writer neither calls str()/repr() on the value nor formats it with a recognised spec")
    ctx.control("C11-R5", "format-spec parsing recognises '.16g' as 16 significant digits", _spec_precision(".16g") == (16, "g") and _spec_precision("{:.6f}") == (6, "f"))


def _form_identity(ctx, repo):
    m = repo.module("dyads")
    f = next((g for g in m.funcs.values() if g.name.endswith("e_dyad_form") and g.name.startswith("__")), None)
    if f is None:
        raise AnalysisError("scalar Form implementation (__e_dyad_form) not found")
    ctx.instance("C11-R6", f.fq)
    a, b = f.params()[0], f.params()[1]

    def type_guards(node):
        """positive facts about the type of `a` that hold at node: set of class/predicate names"""
        out = set()
        for e, pol in atoms_at(node, f.node):
            if not pol or not isinstance(e, ast.Call):
                continue
            if callee_name(e) == "isinstance" and len(e.args) == 2 and src(e.args[0]) == a:
                out.add(src(e.args[1]))
            elif isinstance(e.func, ast.Attribute) and e.func.attr.startswith("is_") and e.args and src(e.args[0]) == a:
                out.add(e.func.attr)
        return out
    n_ret = 0
    from ..flow import return_alts

    def guards_of(facts):
        out = set()
        for e, pol in facts:
            if not pol or not isinstance(e, ast.Call):
                continue
            if callee_name(e) == "isinstance" and len(e.args) == 2 and src(e.args[0]) == a:
                out.add(src(e.args[1]))
            elif isinstance(e.func, ast.Attribute) and e.func.attr.startswith("is_") and e.args and src(e.args[0]) == a:
                out.add(e.func.attr)
        return out
    for facts, v, r in return_alts(f.node):
        g = guards_of(facts)
        if g and not g <= {"str"}:
            continue           # an alternative for a non-string target
        n_ret += 1
        ok = isinstance(v, ast.Name) and v.id == b
        ctx.ob("C11-R6", f.fq, f"the result reachable for a string target is `{b}` itself", ok, node=r, construct=f"string Form returns {src(v)[:40] if v is not None else 'None'}",
               msg=f"Form with a string target returns `{src(v) if v is not None else None}` instead of the text unchanged: x:$$x no longer matches x for strings the transformation touches (surrounding quotes, blanks, ...)")
    ctx.floor("C11-R6", "returns reachable for a string target", n_ret, 1)
    for n in walk_local(f.node):
        if isinstance(n, ast.Assign) and any(isinstance(t, ast.Name) and t.id == b for t in n.targets):
            g = type_guards(n)
            ctx.ob("C11-R6", f.fq, f"`{b}` is only rebound inside an arm for a non-string target", bool(g) and not g <= {"str"}, node=n, construct=f"{b} rebound on the string path",
                   msg=f"`{b}` is modified before the string arm returns it")


def _entry_points(ctx, repo, cg):
    """C11-R3: the reader entry points hand the text to the reader unmodified and agree on the reader options"""
    sysm = repo.module("sys_fn")
    sites = []
    for f in sysm.funcs.values():
        if f.parent is None and f.name.startswith("eval_sys_"):
            for c in calls_in(f.node):
                if callee_name(c) == "kg_read_array":
                    sites.append((f, c))
    ctx.floor("C11-R3", "reader entry points (.r, .rs)", len(sites), 2)
    opts = {}
    for f, c in sites:
        ctx.instance("C11-R3", f.fq, src(c)[:70])
        a0 = c.args[0] if c.args else None
        # the text is the function's parameter, or exactly what was read from the channel (a local bound from .read())
        ok = isinstance(a0, ast.Name)
        if ok and a0.id not in f.params():
            defs = [n for n in walk_local(f.node) if isinstance(n, ast.Assign) and any(isinstance(t, ast.Name) and t.id == a0.id for t in n.targets)]
            ok = len(defs) == 1 and isinstance(defs[0].value, ast.Call) and isinstance(defs[0].value.func, ast.Attribute) and defs[0].value.func.attr == "read" and not defs[0].value.args
        ctx.ob("C11-R3", f.fq, "the reader is given the text exactly as received (no strip/replace/slicing before parsing)", ok, node=c, construct="reader input is the unmodified text",
               msg=f"{f.name} transforms the text before reading it (`{src(a0) if a0 is not None else '?'}`): written forms in which that transformation removes significant characters (a blank or newline character atom `0c `, leading/trailing blanks) no longer read back")
        start = c.args[1] if len(c.args) > 1 else None
        ctx.ob("C11-R3", f.fq, "reading starts at offset 0", isinstance(start, ast.Constant) and start.value == 0, node=c, construct="reader start offset")
        opts[f.name] = {k.arg: src(k.value) for k in c.keywords if k.arg in ("read_neg", "ignore_newline")}
    if len(opts) >= 2:
        vals = list(opts.values())
        ok = all(v == vals[0] for v in vals) and all(v.get("read_neg") == "True" for v in vals)
        ctx.ob("C11-R3", "sys_fn", f"all reader entry points pass the same reader options, negative numbers enabled ({opts})", ok, construct="reader options agree between entry points",
               msg=f"the reader entry points disagree on the reader options ({opts}): the same written text (e.g. a negative number) reads back as a number through one and as the minus operator through the other")


def _token_forms(ctx, repo):
    """C11-R4: the readable form each writer function emits is the form the reader's dispatch recognises"""
    w = repo.module("writer")
    kr = repo.fn("parser:kg_read")
    # what the reader dispatches on (independent of variable names)
    eqc, pairs, called, list_delims = set(), set(), set(), set()
    for n in ast.walk(kr.node):
        if isinstance(n, ast.Compare) and len(n.ops) == 1 and isinstance(n.ops[0], ast.Eq) and isinstance(n.comparators[0], ast.Constant) and isinstance(n.comparators[0].value, str):
            eqc.add(n.comparators[0].value)
        if isinstance(n, ast.Call):
            cn = callee_name(n)
            if cn == "safe_eq" and len(n.args) == 2 and isinstance(n.args[1], ast.Constant):
                eqc.add(n.args[1].value)
            if cn == "cmatch2" and len(n.args) == 4 and all(isinstance(a, ast.Constant) for a in n.args[2:]):
                pairs.add((n.args[2].value, n.args[3].value))
            if cn in ("read_sym", "read_char", "read_string", "read_list", "read_num"):
                called.add(cn)
            if cn == "read_list" and len(n.args) >= 2 and isinstance(n.args[1], ast.Constant):
                list_delims.add(n.args[1].value)

    def consts(fq):
        f = repo.fn(fq)
        out = []
        # the writer function and the NEW helpers it calls directly (an extracted emitter is part of it; reviewed functions such as kg_write are not)
        nodes = [f.node] + [g.node for c in calls_in(f.node) for g in [f.module.funcs.get(callee_name(c) or "")] if g is not None and g.node is not f.node and _is_new(g)]
        for n in [x for nd in nodes for x in ast.walk(nd)]:
            if isinstance(n, ast.JoinedStr):
                out.append("".join(v.value if isinstance(v, ast.Constant) else "{}" for v in n.values))
            elif isinstance(n, ast.Constant) and isinstance(n.value, str) and len(n.value) <= 3:
                out.append(n.value)
        return out
    rows = [
        ("symbol", "writer:kg_write_symbol", lambda c: ":{}" in c, ":" in eqc and "read_sym" in called, "':' then a letter or '.' -> read_sym"),
        ("character", "writer:kg_write_char", lambda c: "0c{}" in c, ("0", "c") in pairs and "read_char" in called, "'0c' -> read_char"),
        ("string", "writer:kg_write_string", lambda c: c.count('"') >= 2, '"' in eqc and "read_string" in called, "'\"' -> read_string"),
        ("list", "writer:kg_write_list", lambda c: "[" in c and "]" in c, "[" in eqc and "]" in list_delims, "'[' -> read_list up to ']'"),
    ]
    for kind, wfq, wtest, rok, rdesc in rows:
        cs = consts(wfq)
        ctx.instance("C11-R4", wfq, kind)
        ctx.ob("C11-R4", wfq, f"{kind}: the writer emits the form the reader dispatches on ({rdesc})", wtest(cs) and rok, node=repo.fn(wfq).node, construct=f"{kind} token form agreement",
               msg=f"the readable form of a {kind} (writer constants {cs}) is not the form kg_read recognises ({rdesc}): written {kind}s do not read back")
    # quote doubling: the writer doubles '"' inside strings, the string reader un-doubles
    ws = repo.fn("writer:kg_write_string")

    def with_callees(f):
        """the function and the same-module functions it calls (one level): helpers extracted from it count as part of it"""
        out = [f.node]
        for c in calls_in(f.node):
            g = f.module.funcs.get(callee_name(c) or "")
            if g is not None and g.node is not f.node:
                out.append(g.node)
        return out

    def quote_fact(node, fnode):
        """True when the code at node runs only for a character known to be the double quote"""
        for e, pol in atoms_at(node, fnode):
            if isinstance(e, ast.Compare) and len(e.ops) == 1 and isinstance(e.comparators[0], ast.Constant) and e.comparators[0].value == '"':
                if (isinstance(e.ops[0], ast.Eq) and pol) or (isinstance(e.ops[0], ast.NotEq) and not pol):
                    return True
        return False
    doubles = False
    for fn_ in with_callees(ws):
        for n in ast.walk(fn_):
            # a second quote is emitted for a quote: append('"') / '""' constant under the quote fact, or str.replace('"', '""')
            if isinstance(n, ast.Call) and callee_name(n) == "append" and n.args and isinstance(n.args[0], ast.Constant) and n.args[0].value == '"' and quote_fact(n, fn_):
                doubles = True
            if isinstance(n, ast.Constant) and n.value == '""' and (quote_fact(n, fn_)):
                doubles = True
            if isinstance(n, ast.Call) and callee_name(n) == "replace" and len(n.args) == 2 and all(isinstance(a, ast.Constant) for a in n.args) and n.args[0].value == '"' and n.args[1].value == '""':
                doubles = True
    rs = repo.fn("parser:read_string")
    # the reader looks at the character after a quote and takes a second quote as a literal one
    undoubles = any(isinstance(c, ast.Call) and callee_name(c) in ("cmatch", "cpeek") and any(isinstance(a, ast.Constant) and a.value == '"' for a in c.args) and quote_fact(c, rs.node)
                    for c in ast.walk(rs.node)) or \
        any(isinstance(c, ast.Compare) and isinstance(c.comparators[0], ast.Constant) and c.comparators[0].value == '"' and quote_fact(c, rs.node) for c in ast.walk(rs.node))
    ctx.instance("C11-R4", ws.fq, "quote doubling")
    ctx.ob("C11-R4", ws.fq, "embedded quotes: the writer doubles them and the string reader accepts a doubled quote as one quote", doubles and undoubles, node=ws.node, construct="quote doubling agreement",
           msg="writer and reader disagree on how a double quote inside a string is represented")
    # list elements are separated by blanks, which the list reader skips
    wl = repo.fn("writer:kg_write_list")
    sep = any(isinstance(c, ast.Call) and callee_name(c) == "join" and isinstance(c.func.value, ast.Constant) and c.func.value.value == " " for fn_ in with_callees(wl) for c in ast.walk(fn_)) or \
        any(isinstance(c, ast.Call) and callee_name(c) in ("append", "write") and len(c.args) == 1 and isinstance(c.args[0], ast.Constant) and c.args[0].value == " " and
            any(isinstance(p_, (ast.For, ast.While)) for p_ in ancestors_(c)) for fn_ in with_callees(wl) for c in ast.walk(fn_))      # pieces pushed one by one: a blank between elements
    rl = repo.fn("parser:read_list")
    skips = sum(1 for c in calls_in(rl.node) if callee_name(c) == "skip") >= 2
    ctx.ob("C11-R4", wl.fq, "list elements are written blank-separated and the list reader skips blanks between elements", sep and skips, node=wl.node, construct="list separator agreement")


# functions whose mechanical mutants are swept in the thorough tier (coverage evidence, see sa/mutate.py)
MUTATION_SCOPE = ['sys_fn:eval_sys_read',
                  'sys_fn:eval_sys_read_string',
                  'writer:kg_write_symbol',
                  'writer:kg_write_char',
                  'writer:kg_write_string',
                  'writer:kg_write_dict',
                  'writer:kg_write_list',
                  'parser:read_string',
                  'parser:kg_read_array']

SEEDS = [
    Seed("float-16g", "fault", "writer", "def kg_write_float(x, display=False):\n    return str(x)", "def kg_write_float(x, display=False):\n    s = format(float(x), '.16g')\n    return s if any(c in s for c in '.en') else s + '.0'", rule="C11-R5"),
    Seed("float-fixed-6", "fault", "writer", "def kg_write_float(x, display=False):\n    return str(x)", "def kg_write_float(x, display=False):\n    return f'{x:.6f}'", rule="C11-R5"),
    Seed("refactor-float-repr", "refactor", "writer", "def kg_write_float(x, display=False):\n    return str(x)", "def kg_write_float(x, display=False):\n    s = repr(float(x))\n    return s"),
    Seed("refactor-float-17g", "refactor", "writer", "def kg_write_float(x, display=False):\n    return str(x)", "def kg_write_float(x, display=False):\n    return str(x) if display else format(x, '.17g')"),
    Seed("form-strips-quotes", "fault", "dyads", "        return KGChar(str(b)[0])\n    return b", "        return KGChar(str(b)[0])\n    if isinstance(a,str) and len(b) > 1 and b[0] == b[-1] == '\"':\n        return b[1:-1]\n    return b", rule="C11-R6"),
    Seed("form-strips-blanks", "fault", "dyads", "        return KGChar(str(b)[0])\n    return b", "        return KGChar(str(b)[0])\n    return b.strip()", rule="C11-R6"),
    Seed("rs-evaluates-literal", "refactor", "sys_fn", "    _, a = kg_read_array(x, 0, klong._backend, module=klong.current_module(), read_neg=True)\n    return a",
         "    _, a = kg_read_array(x, 0, klong._backend, module=klong.current_module(), read_neg=True)\n    b = a\n    return a"),
    Seed("rs-strips-text", "fault", "sys_fn", "    _, a = kg_read_array(x, 0, klong._backend, module=klong.current_module(), read_neg=True)\n    return a", "    _, a = kg_read_array(x.strip(), 0, klong._backend, module=klong.current_module(), read_neg=True)\n    return a", rule="C11-R3"),
    Seed("r-without-read-neg", "fault", "sys_fn", "        i,a = kg_read_array(r, 0, klong._backend, module=klong.current_module(), read_neg=True)", "        i,a = kg_read_array(r, 0, klong._backend, module=klong.current_module())", rule="C11-R3"),
    Seed("char-prefix-changed", "fault", "writer", '    return c if display else f"0c{c}"', '    return c if display else f"0C{c}"', rule="C11-R4"),
    Seed("writer-no-quote-doubling", "fault", "writer", "        if c == '\"':\n            arr.append('\"')\n        arr.append(c)", "        arr.append(c)", rule="C11-R4"),
    Seed("list-comma-separated", "fault", "writer", "    return ''.join(['[', ' '.join([kg_write(q, backend, display=display) for q in x]), ']'])", "    return ''.join(['[', ','.join([kg_write(q, backend, display=display) for q in x]), ']'])", rule="C11-R4"),
    Seed("writer-dict-brace", "fault", "writer", "    return ''.join([':{', ' '.join(", "    return ''.join(['{', ' '.join(", rule="C11-R2"),
    Seed("reader-dict-delim", "fault", "parser", "            i, d = read_list(t, '}', i=i+2, module=module)", "            i, d = read_list(t, ']', i=i+2, module=module)", rule="C11-R2"),
]
