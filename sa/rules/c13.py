"""C13 — remote evaluation over IPC equals evaluation on the server.

Structural clauses decided: writer and reader of the frame agree field by field and the reader uses
exact reads only, never under a cancellable timeout; a frame is emitted by a single write; the undefined
marker keeps its identity across pickle/copy; every message kind a client can send has a server-side
handler and only message kinds are special-cased (everything else is evaluated by the interpreter);
messages are processed one at a time in order; remote handles keep no per-symbol cache.
Equality of remote and local *values* is NOT decided.
"""
import ast
import struct

from ..model import AnalysisError, src, callee_name, dotted, walk_local, calls_in, FUNC, pos
from ..flow import path_conditions,  atoms_at, split_conj
from ..callgraph import CallGraph
from .. import effects
from ..common import is_awaited, in_loop, ancestors, resolve_single_assign
from ..selftest import Seed

META = {
    "technique": "writer/reader table agreement on the frame layout, exact-read and no-cancellation rule, singleton-pickle rule, dispatch exhaustiveness, await-ordering, effect analysis of the remote handles, who-may-create and unconditional hand-over of the command coroutine to the interpreter loop, must-pass-through of the function-to-reference translation for every command kind (path-condition inclusion)",
    "level_text": "Static proof of structural necessary conditions of transparent transport: frame layout agreement computed from the struct constants, exact reads that tolerate any fragmentation, no cancellation point inside a frame, identity-preserving pickling of the undefined marker, exhaustive server dispatch, sequential processing. Holds for every fragmentation and message sequence, which mocked streams cannot express; value equality is not decided.",
    "level_note": "decides the structural clause below from source; does not decide the behaviour. Trusted: asyncio.StreamReader.readexactly returns exactly n bytes or raises; uuid.UUID.bytes is 16 bytes; struct semantics; pickle resolves a string __reduce__ as a module global.",
    "explanation": (
        "Static analysis of klongpy/sys_fn_ipc.py, types.py, monads.py, writer.py: the encoder's field sequence (id bytes, struct.pack(F, len), body) "
        "is extracted and compared with the decoder's reads (readexactly(16), readexactly(calcsize(F)), readexactly(len)) and struct.unpack "
        "format; every read in the receive routine is readexactly and every use of the receive routine is a plain await; the sender writes one "
        "concatenated buffer; module-level singletons compared by identity must pickle by reference; client-constructed message classes are a "
        "subset of the classes the server dispatches on and the dispatch special-cases nothing else; the listener awaits each command."
        " R4 also requires that the command coroutine is created only by the dispatcher, never awaited on the io loop, and handed unconditionally to the interpreter loop."),
    "assumptions": ["both peers run the same klongpy version (same pickle classes)"],
}

IPC = "sys_fn_ipc"


def check(ctx):
    repo = ctx.repo
    cg = CallGraph(repo)
    ctx.rule("C13-R1", "TABLE-AGREE(frame): encoder field order/format equals the decoder's exact reads; every read is readexactly; the receive routine is only ever awaited directly (no wait_for/timeout/task around a partial frame); one write per frame with no await between header and body")
    ctx.rule("C13-R2", "identity-tested module-level singletons survive pickling/copying by reference (__reduce__ returning the global's name)")
    ctx.rule("C13-R6", "the server applies remote dictionary sets with klong[k] = v, exactly as a local assignment would: no store into the scope stack past the interpreter (the compiled-expression cache must see the rebinding)")
    from ..common import check_writes_through_interpreter
    check_writes_through_interpreter(ctx, repo, "C13-R6", (IPC,), "the IPC server and client")
    ctx.rule("C13-R3", "dispatch exhaustiveness: message classes constructed by clients are handled by the server; the server special-cases only message classes, everything else is evaluated as program text")
    ctx.rule("C13-R4", "ordering: the run loop awaits the listener, the listener awaits the command and sends exactly one reply per command with the request's id")
    ctx.rule("C13-R5", "remote handles are stateless per call: a function proxy is built from the response of this call and nothing is cached on the handle")
    ctx.trust("StreamReader.readexactly(n) returns exactly n bytes or raises IncompleteReadError", "uuid.UUID.bytes has 16 bytes", "pickle: __reduce__ returning a str pickles the object as that module global")
    m = repo.module(IPC)
    _frame(ctx, repo, m)
    _singletons(ctx, repo)
    _dispatch(ctx, repo, cg, m)
    _ordering(ctx, repo, m)
    _handles(ctx, repo, m)
    _translation(ctx, repo, m)


def _translation(ctx, repo, m):
    """C13-R7: whatever kind of command produced the response, a function result is replaced by a remote reference before the
       reply is handed over - the translation tests are implied, as far as the command kind goes, by the conditions of every
       assignment that produces a response."""
    ctx.rule("C13-R7", "every command kind's result passes the function-to-reference translation (isinstance(response, KGFn|KGLambda) -> KGRemoteFnRef) before it is handed to the reply future: the translation is not conditional on the command kind unless each producing branch has its own")
    srv = repo.fn(f"{IPC}:execute_server_command")
    params = srv.params()
    cmd = next((p for p in params if p == "command"), params[-2] if len(params) >= 2 else None)
    # the response variable: what is handed to <future>.set_result
    resp = None
    for c in calls_in(srv.node):
        for i, a in enumerate(c.args):
            if isinstance(a, ast.Attribute) and a.attr == "set_result" and i + 1 < len(c.args) and isinstance(c.args[i + 1], ast.Name):
                resp = c.args[i + 1].id
        if isinstance(c.func, ast.Attribute) and c.func.attr == "set_result" and c.args and isinstance(c.args[0], ast.Name):
            resp = c.args[0].id
    if resp is None:
        raise AnalysisError("C13-R7: the hand-over of the response to the reply future was not found in execute_server_command")

    def cmd_atoms(node):
        out = set()
        for t, pol in atoms_at(node, srv.node):
            if cmd in {n.id for n in ast.walk(t) if isinstance(n, ast.Name)}:
                out.add((src(t), pol))
        return out

    trans, prods = [], []
    assigns = [n for n in walk_local(srv.node) if isinstance(n, ast.Assign) and len(n.targets) == 1 and isinstance(n.targets[0], ast.Name)]
    # the response may travel through copies (pre-translation name -> reply name)
    aliases, grew = {resp}, True
    while grew:
        grew = False
        for n in assigns:
            if n.targets[0].id in aliases and isinstance(n.value, ast.Name) and n.value.id not in aliases:
                aliases.add(n.value.id)
                grew = True
    for n in assigns:
        if n.targets[0].id in aliases:
            v = n.value
            if isinstance(v, ast.Name) and v.id in aliases:
                continue
            if isinstance(v, ast.Call) and callee_name(v) == "KGRemoteFnRef":
                kinds = set()
                for t, pol in atoms_at(n, srv.node):
                    if pol and isinstance(t, ast.Call) and callee_name(t) == "isinstance" and len(t.args) == 2 and src(t.args[0]) in aliases:
                        tt = t.args[1]
                        kinds |= {dotted(e) for e in (tt.elts if isinstance(tt, ast.Tuple) else [tt])}
                trans.append((n, kinds, cmd_atoms(n)))
            elif isinstance(v, ast.Constant):
                continue
            else:
                prods.append(n)
    kinds_all = set().union(*[k for _, k, _ in trans]) if trans else set()
    ctx.floor("C13-R7", "function classes translated to a remote reference", len(kinds_all & {"KGFn", "KGLambda"}), 2)
    ctx.floor("C13-R7", "assignments producing a response", len(prods), 3)
    for a in prods:
        sa = cmd_atoms(a)
        ctx.instance("C13-R7", srv.fq, src(a)[:80])
        for kind in sorted(kinds_all & {"KGFn", "KGLambda"}):
            ok = any(kind in k and st <= sa and pos(t) > pos(a) for t, k, st in trans)
            ctx.ob("C13-R7", srv.fq, f"a {kind} produced by `{src(a)[:60]}` is translated to KGRemoteFnRef before the reply", ok, node=a, construct=f"{kind} translation reaches `{src(a.value)[:40]}`",
                   msg=f"the response assigned here can be a {kind}, but every translation to KGRemoteFnRef is guarded by a condition on the command kind that this branch does not satisfy: the function object itself is pickled into the reply, so the client gets something other than what local evaluation shows (or the reply fails to pickle)")


def _frame(ctx, repo, m):
    enc = repo.fn(f"{IPC}:encode_message")
    recv = repo.fn(f"{IPC}:stream_recv_msg")
    send = repo.fn(f"{IPC}:stream_send_msg")
    declen = repo.fn(f"{IPC}:decode_message_len")
    ctx.instance("C13-R1", enc.fq)
    # encoder: return a + b + c
    rets = [n for n in walk_local(enc.node) if isinstance(n, ast.Return)]
    fields = []
    if len(rets) == 1:
        def flat(e):
            if isinstance(e, ast.BinOp) and isinstance(e.op, ast.Add):
                return flat(e.left) + flat(e.right)
            return [e]
        fields = [resolve_single_assign(x, enc.node) for x in flat(rets[0].value)]
    kinds = []
    pack_fmt = None
    for e in fields:
        if isinstance(e, ast.Attribute) and e.attr == "bytes":
            kinds.append("id")
        elif _struct_call(m, e) and _struct_call(m, e)[0] == "pack":
            pack_fmt = _struct_call(m, e)[1]
            # packs len(<body>)
            kinds.append("len")
        elif isinstance(e, ast.Call) and dotted(e.func) == "pickle.dumps":
            kinds.append("body")
        else:
            kinds.append("?" + src(e)[:30])
    ctx.ob("C13-R1", enc.fq, f"encoder emits the fields id, length, body in this order (found {kinds})", kinds == ["id", "len", "body"], node=enc.node, construct="encoder field order")
    # the packed length is the length of the very body that follows
    ok = False
    for e in fields:
        sc = _struct_call(m, e)
        if sc and sc[0] == "pack" and len(sc[2]) == 1:
            a = sc[2][0]
            body = next((x for x in (rets[0].value.right,) if True), None)
            bname = src(rets[0].value.right)
            ok = isinstance(a, ast.Call) and callee_name(a) == "len" and src(a.args[0]) == bname
    ctx.ob("C13-R1", enc.fq, "the length field is len() of the body that is appended", ok, node=enc.node, construct="length field counts the body")
    # decoder
    ctx.instance("C13-R1", recv.fq)
    reads = [c for c in calls_in(recv.node) if isinstance(c.func, ast.Attribute) and c.func.attr.startswith("read")]
    reads.sort(key=lambda c: pos(c))
    ctx.ob("C13-R1", recv.fq, "every read of the receive routine is readexactly (a bare read(n) may return short)", bool(reads) and all(c.func.attr == "readexactly" for c in reads),
           node=recv.node, construct="exact reads only", msg="the receive routine uses a read that may return fewer bytes than asked: a frame split across network reads is misparsed")
    ctx.ob("C13-R1", recv.fq, "every read is awaited and there are exactly three (id, length, body)", len(reads) == 3 and all(is_awaited(c) for c in reads), node=recv.node, construct="three awaited reads")
    unpack_fmt = None
    for c in calls_in(declen.node):
        sc = _struct_call(m, c)
        if sc and sc[0] == "unpack":
            unpack_fmt = sc[1]
    ctx.ob("C13-R1", declen.fq, f"struct format agrees: pack {pack_fmt!r} / unpack {unpack_fmt!r}", pack_fmt is not None and pack_fmt == unpack_fmt, node=declen.node, construct="length format agreement",
           msg=f"the length field is written with {pack_fmt!r} but read with {unpack_fmt!r}")
    if len(reads) == 3 and pack_fmt:
        n1 = _int_const(m, reads[0].args[0]) if reads[0].args else None
        n2 = _int_const(m, reads[1].args[0]) if reads[1].args else None
        try:
            want = struct.calcsize(pack_fmt)
        except struct.error:
            want = None
        ctx.ob("C13-R1", recv.fq, f"id read is 16 bytes (uuid) and the length read is calcsize({pack_fmt!r}) = {want} bytes (found {n1}, {n2})", n1 == 16 and n2 == want and want is not None,
               node=recv.node, construct="field widths")
        # third read uses the decoded length of the second; decode gets the first and the third
        a3 = reads[2].args[0] if reads[2].args else None
        d3 = resolve_single_assign(a3, recv.node) if a3 is not None else None
        v2 = _target_of(reads[1])
        ok = isinstance(d3, ast.Call) and callee_name(d3) == declen.name and d3.args and src(d3.args[0]) == v2
        ctx.ob("C13-R1", recv.fq, "the body read length is the decoded length field", ok, node=reads[2], construct="body length from the length field")
        dm = [c for c in calls_in(recv.node) if callee_name(c) == "decode_message"]
        ok = len(dm) == 1 and [src(a) for a in dm[0].args] == [_target_of(reads[0]), _target_of(reads[2])]
        ctx.ob("C13-R1", recv.fq, "decode receives (id bytes, body bytes) of the same frame", ok, node=recv.node, construct="decode arguments")
    # no cancellation point around a partial frame: the receive routine is only awaited directly
    uses = []
    for f in repo.all_funcs((IPC,)):
        for c in calls_in(f.node):
            if callee_name(c) == recv.name:
                uses.append((f, c))
    ctx.floor("C13-R1", "uses of the receive routine", len(uses), 1)
    for f, c in uses:
        ctx.instance("C13-R1", f.fq, src(c))
        ctx.ob("C13-R1", f.fq, "the frame receive is awaited directly (no wait_for / timeout / task wrapper that could cancel it after part of a frame was consumed)", is_awaited(c), node=c,
               construct="receive awaited directly", msg="the receive routine runs under a cancellable wrapper: a timeout after the id (or length) was consumed loses those bytes and the stream desynchronises")
        tmo = [p for p in ancestors(c, f.node) if isinstance(p, (ast.AsyncWith, ast.With)) and any("timeout" in src(i.context_expr) for i in p.items)]
        ctx.ob("C13-R1", f.fq, "no timeout context manager around the frame receive", not tmo, node=c, construct="no timeout block around receive")
    # sender: one write of the concatenated buffer, nothing awaited before it
    ctx.instance("C13-R1", send.fq)
    writes = [c for c in calls_in(send.node) if isinstance(c.func, ast.Attribute) and c.func.attr in ("write", "writelines")]
    wa = resolve_single_assign(writes[0].args[0], send.node) if len(writes) == 1 and writes[0].args else None          # the buffer may be named first
    ok = len(writes) == 1 and isinstance(wa, ast.Call) and callee_name(wa) == enc.name
    ctx.ob("C13-R1", send.fq, "a frame is emitted by exactly one write of the encoder's result", ok, node=send.node, construct="single write per frame",
           msg="a frame is written in several pieces: concurrent senders share one writer, so another frame can interleave between header and body")
    aw = [n for n in walk_local(send.node) if isinstance(n, ast.Await)]
    ok = all(pos(a) > pos(writes[0]) for a in aw) if writes else False
    ctx.ob("C13-R1", send.fq, "no suspension point before the frame is completely handed to the writer", ok, node=send.node, construct="no await before the write")


def _target_of(call):
    p = call._parent
    if isinstance(p, ast.Await):
        p = p._parent
    if isinstance(p, ast.Assign) and isinstance(p.targets[0], ast.Name):
        return p.targets[0].id
    return None


def _singletons(ctx, repo):
    # module-level X = Cls() with Cls defined in the same module
    singles = {}
    for mn, mod in repo.modules.items():
        for n in mod.tree.body:
            if isinstance(n, ast.Assign) and isinstance(n.value, ast.Call) and isinstance(n.value.func, ast.Name) and not n.value.args and \
                    n.value.func.id in mod.classes and len(n.targets) == 1 and isinstance(n.targets[0], ast.Name) and n.targets[0].id.isupper():
                singles[n.targets[0].id] = (mn, n.value.func.id)
    tested = {}
    for mn, mod in repo.modules.items():
        for n in ast.walk(mod.tree):
            if isinstance(n, ast.Compare) and any(isinstance(o, (ast.Is, ast.IsNot)) for o in n.ops):
                for e in [n.left] + n.comparators:
                    if isinstance(e, ast.Name) and e.id in singles:
                        tested.setdefault(e.id, []).append((mn, n))
    ctx.floor("C13-R2", "identity tests against module-level singletons", sum(len(v) for v in tested.values()), 2)
    for name, sites in tested.items():
        mn, cls = singles[name]
        c = repo.cls(mn, cls)
        ctx.instance("C13-R2", f"{mn}:{cls}", f"{len(sites)} identity tests")
        red = [f for f in c.body if isinstance(f, FUNC) and f.name in ("__reduce__", "__reduce_ex__")]
        ok = False
        if red:
            rets = [r for r in walk_local(red[0]) if isinstance(r, ast.Return)]
            ok = bool(rets) and all(isinstance(r.value, ast.Constant) and r.value.value == name for r in rets)
        new = [f for f in c.body if isinstance(f, FUNC) and f.name == "__new__"]
        if new and any(isinstance(r, ast.Return) and isinstance(r.value, ast.Name) and r.value.id == name for r in walk_local(new[0])):
            ok = True
        where = ", ".join(sorted({s[0] for s in sites}))
        ctx.ob("C13-R2", f"{mn}:{cls}", f"{name} (tested with `is` in {where}) pickles/copies as a reference to the global", ok, node=c, construct=f"{name} identity under pickle",
               msg=f"{name} is compared by identity but a pickled/unpickled or deep-copied copy is a different object: after IPC transport (or a dictionary-literal copy) the undefined marker no longer tests as undefined")


def _dispatch(ctx, repo, cg, m):
    srv = repo.fn(f"{IPC}:execute_server_command")
    # classes constructed as the argument of a client-side call(...)
    sent = set()
    for f in m.funcs.values():
        for c in calls_in(f.node):
            if isinstance(c.func, ast.Attribute) and c.func.attr == "call" and c.args:
                a = c.args[0]
                a = resolve_single_assign(a, f.node) if isinstance(a, ast.Name) else a
                for x in ast.walk(a):
                    if isinstance(x, ast.Call) and isinstance(x.func, ast.Name) and x.func.id in m.classes:
                        sent.add(x.func.id)
    handled = set()
    others = []
    params = srv.params()
    cmd = next((p for p in params if p == "command"), params[-2] if len(params) >= 2 else None)
    lst = repo.fn(f"{IPC}:NetworkClient._listen")
    for f in (srv, lst):
        for n in walk_local(f.node):
            if isinstance(n, ast.Call) and callee_name(n) == "isinstance" and len(n.args) == 2:
                subj = src(n.args[0])
                if subj not in (cmd, "msg"):
                    continue
                t = n.args[1]
                for e in (t.elts if isinstance(t, ast.Tuple) else [t]):
                    nm = dotted(e)
                    if nm in m.classes and nm.startswith("KGRemote"):
                        handled.add(nm)
                    else:
                        others.append((f, n, nm))
    ctx.floor("C13-R3", "message classes sent by clients", len(sent), 4)
    ctx.instance("C13-R3", srv.fq, f"sent={sorted(sent)} handled={sorted(handled)}")
    for cname in sorted(sent):
        ctx.ob("C13-R3", srv.fq, f"message class {cname} constructed by a client has a server-side branch", cname in handled, node=srv.node, construct=f"handler for {cname}",
               msg=f"clients send {cname} but the server never tests for it: the message is stringified and evaluated as program text")
        c = m.classes[cname]
        ctx.ob("C13-R3", f"{IPC}:{cname}", f"{cname} is a module-level class (picklable by reference)", True, node=c, construct=f"{cname} module-level")
    for f, n, nm in others:
        ctx.ob("C13-R3", f.fq, "the command dispatch special-cases message classes only", False, node=n, construct=f"dispatch on non-message type {nm}",
               msg=f"a command of type {nm} is handled by a dedicated branch instead of being evaluated by the interpreter: remote evaluation of such values no longer equals local evaluation (e.g. an unbound symbol)")
    # the fallback branch evaluates the command text with the interpreter
    ev = [c for c in calls_in(srv.node) if isinstance(c.func, ast.Name) and c.func.id == "klong" and c.args and callee_name(c.args[0]) == "str" and src(c.args[0].args[0]) == cmd]
    ok = len(ev) == 1 and all(not (isinstance(e, ast.Call) and callee_name(e) == "isinstance" and pol) for e, pol in atoms_at(ev[0], srv.node)) if ev else False
    ctx.ob("C13-R3", srv.fq, "every other command is evaluated as klong(str(command)) in the final else branch", ok, node=srv.node, construct="fallback evaluates the text")


def _ordering(ctx, repo, m):
    run = repo.fn(f"{IPC}:NetworkClient._run")
    lst = repo.fn(f"{IPC}:NetworkClient._listen")
    ctx.instance("C13-R4", run.fq)
    calls = [c for c in calls_in(run.node) if isinstance(c.func, ast.Attribute) and c.func.attr == lst.name and dotted(c.func.value) == "self"]
    ctx.ob("C13-R4", run.fq, "the run loop awaits each listener invocation", bool(calls) and all(is_awaited(c) for c in calls), node=run.node, construct="await self._listen()",
           msg="listener invocations are not awaited: two frames can be processed concurrently and replies overtake each other")
    ctx.instance("C13-R4", lst.fq)
    disp = [c for c in calls_in(lst.node) if callee_name(c) == "run_command_on_klongloop"]
    ctx.ob("C13-R4", lst.fq, "the listener awaits the command's completion (no task fan-out between receive and reply)", len(disp) == 1 and is_awaited(disp[0]) and
           not any(callee_name(c) in ("create_task", "ensure_future", "gather") for c in calls_in(lst.node)), node=lst.node, construct="command awaited in the listener")
    sends = [c for c in calls_in(lst.node) if callee_name(c) == "stream_send_msg"]
    recvs = [c for c in calls_in(lst.node) if callee_name(c) == "stream_recv_msg"]
    idv = msgv = None
    if recvs:
        st = recvs[0]._parent._parent if isinstance(recvs[0]._parent, ast.Await) else recvs[0]._parent
        if isinstance(st, ast.Assign) and isinstance(st.targets[0], ast.Tuple) and len(st.targets[0].elts) == 2:
            idv, msgv = (e.id if isinstance(e, ast.Name) else None for e in st.targets[0].elts)
    ctx.ob("C13-R4", lst.fq, "one receive per listener invocation, bound to (id, message)", len(recvs) == 1 and idv and msgv, node=lst.node, construct="one receive per invocation")
    for s in sends:
        ok = len(s.args) >= 3 and isinstance(s.args[1], ast.Name) and s.args[1].id == idv and all(is_awaited(x) for x in [s])
        ctx.ob("C13-R4", lst.fq, "a reply carries the id of the frame just received", ok, node=s, construct="reply id is the request id",
               msg="the reply is sent under a different id than the request it answers: the caller waits forever / another caller gets this answer")
    if disp:
        ok = any(isinstance(a, ast.Name) and a.id == msgv for a in disp[0].args)
        ctx.ob("C13-R4", lst.fq, "the command executed is the message just received", ok, node=disp[0], construct="executes the received message")
        tgt = _target_of(disp[0])
        rs = [s for s in sends if len(s.args) >= 3 and isinstance(s.args[2], ast.Name) and s.args[2].id == tgt]
        ctx.ob("C13-R4", lst.fq, "exactly one reply carries the command's result", len(rs) == 1 and not in_loop(rs[0], lst.node), node=lst.node, construct="one reply per command")
    rc = repo.fn(f"{IPC}:run_command_on_klongloop")
    ctx.instance("C13-R4", rc.fq)
    futs = [n.targets[0].id for n in walk_local(rc.node) if isinstance(n, ast.Assign) and isinstance(n.value, ast.Call) and (dotted(n.value.func) or "").endswith("Future") and isinstance(n.targets[0], ast.Name)]
    aw = [n for n in walk_local(rc.node) if isinstance(n, ast.Await) and isinstance(n.value, ast.Name) and n.value.id in futs]
    ctx.ob("C13-R4", rc.fq, "the dispatcher awaits the result future it hands to the command coroutine", bool(aw), node=rc.node, construct="dispatcher awaits the result")
    # every command is evaluated on the interpreter's loop, in arrival order: the command coroutine is created only by the
    # dispatcher and handed, unconditionally, to <interpreter loop>.call_soon_threadsafe / run_coroutine_threadsafe; it is never awaited on the io loop
    srvname = "execute_server_command"
    loopp = rc.params()[0] if rc.params() else None
    creators = [(f, c) for f in repo.all_funcs() for c in calls_in(f.node) if callee_name(c) == srvname and f.module.name == IPC]
    ctx.floor("C13-R4", "creation sites of the command coroutine", len(creators), 1)
    for f, c in creators:
        ctx.ob("C13-R4", f.fq, "the command coroutine is created only by the dispatcher", f is rc, node=c, construct=f"{srvname} called outside the dispatcher",
               msg=f"{f.fq} runs a server command itself: it is evaluated on the caller's thread/loop, concurrently with whatever the interpreter is doing, and out of arrival order")
        if f is not rc:
            continue
        par = getattr(c, "_parent", None)
        cov = par.targets[0].id if isinstance(par, ast.Assign) and isinstance(par.targets[0], ast.Name) else None
        ctx.ob("C13-R4", rc.fq, "the command coroutine is bound to a local and not awaited where it is created", cov is not None and not isinstance(par, ast.Await), node=c, construct="command coroutine not awaited in place",
               msg="the dispatcher awaits the command coroutine on the io loop instead of scheduling it on the interpreter's loop")
        if cov is None:
            continue
        uses = [n for n in walk_local(rc.node) if isinstance(n, ast.Name) and n.id == cov and isinstance(n.ctx, ast.Load)]
        hand = []
        for u in uses:
            up = getattr(u, "_parent", None)
            okk = isinstance(up, ast.Call) and isinstance(up.func, ast.Attribute) and (
                (up.func.attr == "call_soon_threadsafe" and dotted(up.func.value) == loopp and len(up.args) == 2 and up.args[1] is u and (dotted(up.args[0]) or "").endswith("create_task")) or
                (up.func.attr == "run_coroutine_threadsafe" and len(up.args) == 2 and up.args[0] is u and dotted(up.args[1]) == loopp))
            if okk:
                hand.append(up)
            else:
                ctx.ob("C13-R4", rc.fq, "the command coroutine is only handed to the interpreter's loop", False, node=u, construct=f"command coroutine used outside the hand-over ({type(up).__name__})",
                       msg=f"the command coroutine is {'awaited on the io loop' if isinstance(up, ast.Await) else 'used'} at line {u.lineno}: some commands are evaluated while the interpreter is in the middle of another one (they see its local frames) and overtake commands queued earlier")
        ctx.ob("C13-R4", rc.fq, "exactly one hand-over of the command coroutine to the interpreter's loop", len(hand) == 1, node=c, construct="one hand-over to the interpreter loop")
        for h in hand:
            conds = [(t, pl) for t, pl in path_conditions(h, rc.node) if not isinstance(getattr(t, "_parent", None), ast.Assert)]
            ctx.ob("C13-R4", rc.fq, "the hand-over is unconditional (every command kind takes the same route)", not conds, node=h, construct="hand-over unconditional",
                   msg=f"only commands with `{src(conds[0][0]) if conds else ''}` = {conds[0][1] if conds else ''} go through the interpreter's loop")


def _module_const(m, name, depth=4):
    """the expression a module-level name is bound to (single binding), else None"""
    defs = [n for n in m.tree.body if isinstance(n, ast.Assign) and any(isinstance(t, ast.Name) and t.id == name for t in n.targets)]
    return defs[0].value if len(defs) == 1 else None


def _struct_fmt(m, e, depth=4):
    """format string of a struct.Struct object expression (directly or through a module-level name), else None"""
    while depth and isinstance(e, ast.Name):
        e = _module_const(m, e.id)
        depth -= 1
    if isinstance(e, ast.Call) and dotted(e.func) in ("struct.Struct", "Struct") and e.args and isinstance(e.args[0], ast.Constant):
        return e.args[0].value
    return None


def _struct_call(m, e):
    """('pack'|'unpack', fmt, value args) for struct.pack(fmt, ...)/struct.unpack(fmt, ...) or <Struct>.pack(...)/<Struct>.unpack(...)"""
    if not isinstance(e, ast.Call):
        return None
    d = dotted(e.func)
    if d in ("struct.pack", "struct.unpack") and e.args and isinstance(e.args[0], ast.Constant):
        return d.split(".")[1], e.args[0].value, e.args[1:]
    if isinstance(e.func, ast.Attribute) and e.func.attr in ("pack", "unpack"):
        fmt = _struct_fmt(m, e.func.value)
        if fmt is not None:
            return e.func.attr, fmt, e.args
    return None


def _int_const(m, e, depth=4):
    """integer value of a constant expression: literal, module-level name, <Struct>.size, struct.calcsize(fmt)"""
    while depth:
        depth -= 1
        if isinstance(e, ast.Constant) and isinstance(e.value, int):
            return e.value
        if isinstance(e, ast.Name):
            e = _module_const(m, e.id)
            continue
        if isinstance(e, ast.Attribute) and e.attr == "size":
            fmt = _struct_fmt(m, e.value)
            try:
                return struct.calcsize(fmt) if fmt is not None else None
            except struct.error:
                return None
        if isinstance(e, ast.Call) and dotted(e.func) == "struct.calcsize" and e.args and isinstance(e.args[0], ast.Constant):
            try:
                return struct.calcsize(e.args[0].value)
            except struct.error:
                return None
        return None
    return None


def _handles(ctx, repo, m):
    sites = []
    for fq in (f"{IPC}:NetworkClient.__call__", f"{IPC}:NetworkClientDictHandle.get", f"{IPC}:NetworkClientDictHandle.set", f"{IPC}:KGRemoteFnProxy.__call__"):
        f = repo.fn(fq)
        ctx.instance("C13-R5", fq)
        w = effects.attr_writes(f)
        ctx.ob("C13-R5", fq, "the remote operation stores nothing on the handle (no per-symbol cache)", not w, node=(w[0][1] if w else f.node), construct="handle keeps no state per call",
               msg=f"{f.name} stores {[a for a, _n, _k in w]} on the connection handle: a cached proxy/value goes stale when the server redefines the name")
        for c in calls_in(f.node):
            if callee_name(c) == "KGRemoteFnProxy":
                sites.append((f, c))
    ctx.floor("C13-R5", "function proxy construction sites", len(sites), 2)
    for f, c in sites:
        ar = c.args[2] if len(c.args) >= 3 else None
        resp = None
        for n in walk_local(f.node):
            if isinstance(n, ast.Assign) and isinstance(n.value, ast.Call) and isinstance(n.value.func, ast.Attribute) and n.value.func.attr == "call" and isinstance(n.targets[0], ast.Name):
                resp = n.targets[0].id
        ok = isinstance(ar, ast.Attribute) and ar.attr == "arity" and isinstance(ar.value, ast.Name) and ar.value.id == resp
        ctx.ob("C13-R5", f.fq, "the proxy takes its arity from the response of this very call", ok, node=c, construct="proxy arity from this response")
        st = c._parent
        ok = isinstance(st, ast.Assign) and all(isinstance(t, ast.Name) for t in st.targets) or isinstance(st, ast.Return)
        ctx.ob("C13-R5", f.fq, "the proxy is returned to the caller, not stored", ok, node=c, construct="proxy not cached")


# functions whose mechanical mutants are swept in the thorough tier (coverage evidence, see sa/mutate.py)
MUTATION_SCOPE = ['sys_fn_ipc:encode_message',
                  'sys_fn_ipc:decode_message_len',
                  'sys_fn_ipc:decode_message',
                  'sys_fn_ipc:stream_send_msg',
                  'sys_fn_ipc:stream_recv_msg',
                  'sys_fn_ipc:execute_server_command',
                  'sys_fn_ipc:run_command_on_klongloop',
                  'sys_fn_ipc:NetworkClient._listen',
                  'sys_fn_ipc:NetworkClient._run',
                  'sys_fn_ipc:NetworkClient.__call__',
                  'sys_fn_ipc:NetworkClientDictHandle.get',
                  'types:KGUndefined.__reduce__']

SEEDS = [
    Seed("translation-under-else", "fault", IPC, "        if isinstance(response, KGFn):\n            response = KGRemoteFnRef(response.arity)\n        elif isinstance(response, KGLambda):\n            # TODO: move to using .arity for KGLambda\n            response = KGRemoteFnRef(response.get_arity())\n",
         "            if isinstance(response, KGFn):\n                response = KGRemoteFnRef(response.arity)\n            elif isinstance(response, KGLambda):\n                response = KGRemoteFnRef(response.get_arity())\n", rule="C13-R7"),
    Seed("remote-dict-set-bypasses-setitem", "fault", IPC, "            klong[command.key] = command.value", "            klong._context[command.key] = command.value", rule="C13-R6"),
    Seed("dict-get-bypasses-interpreter-loop", "fault", IPC, "    klongloop.call_soon_threadsafe(asyncio.create_task, coroutine)\n",
         "    if isinstance(command, KGRemoteDictGetCall):\n        await coroutine\n    else:\n        klongloop.call_soon_threadsafe(asyncio.create_task, coroutine)\n", rule="C13-R4"),
    Seed("command-task-on-io-loop", "fault", IPC, "    klongloop.call_soon_threadsafe(asyncio.create_task, coroutine)\n", "    asyncio.create_task(coroutine)\n", rule="C13-R4"),
    Seed("refactor-run-coroutine-threadsafe", "refactor", IPC, "    klongloop.call_soon_threadsafe(asyncio.create_task, coroutine)\n", "    asyncio.run_coroutine_threadsafe(coroutine, klongloop)\n"),
    Seed("little-endian-length", "fault", IPC, "    length_bytes = struct.pack(\"!I\", len(data))", "    length_bytes = struct.pack(\"<I\", len(data))", rule="C13-R1"),
    Seed("short-read", "fault", IPC, "    raw_msglen = await reader.readexactly(4)", "    raw_msglen = await reader.read(4)", rule="C13-R1"),
    Seed("length-width", "fault", IPC, "    length_bytes = struct.pack(\"!I\", len(data))", "    length_bytes = struct.pack(\"!Q\", len(data))", rule="C13-R1",
         more=[("    return struct.unpack('!I', raw_msglen)[0]", "    return struct.unpack('!Q', raw_msglen)[0]")]),
    Seed("header-then-body-with-drain", "fault", IPC, "    writer.write(encode_message(msg_id, msg))\n    await writer.drain()",
         "    frame = encode_message(msg_id, msg)\n    writer.write(frame[:20])\n    await writer.drain()\n    writer.write(frame[20:])\n    await writer.drain()", rule="C13-R1"),
    Seed("recv-under-wait-for", "fault", IPC, "            msg_id, msg = await stream_recv_msg(self.reader)",
         "            try:\n                msg_id, msg = await asyncio.wait_for(stream_recv_msg(self.reader), timeout=1.0)\n            except asyncio.TimeoutError:\n                return", rule="C13-R1"),
    Seed("field-order-swapped", "fault", IPC, "    return msg_id.bytes + length_bytes + data", "    return length_bytes + msg_id.bytes + data", rule="C13-R1"),
    Seed("undefined-loses-reduce", "fault", "types", "    def __reduce__(self):\n        # pickle/copy by reference to the module-level singleton so that\n        # identity tests (x is KLONG_UNDEFINED) survive IPC transport\n        return \"KLONG_UNDEFINED\"\n", "", rule="C13-R2"),
    Seed("new-message-without-handler", "fault", IPC, "class KGRemoteDictGetCall:\n    def __init__(self, key):\n        self.key = key\n",
         "class KGRemoteDictGetCall:\n    def __init__(self, key):\n        self.key = key\n\n\nclass KGRemoteDictDelCall:\n    def __init__(self, key):\n        self.key = key\n", rule="C13-R3",
         more=[("    def close(self):\n        return self.nc.close()", "    def delete(self, x):\n        return self.nc.call(KGRemoteDictDelCall(x))\n\n    def close(self):\n        return self.nc.close()")]),
    Seed("symbol-served-by-lookup", "fault", IPC, "        elif isinstance(command, KGRemoteDictGetCall):\n            response = klong[command.key]",
         "        elif isinstance(command, (KGRemoteDictGetCall, KGSym)):\n            response = klong[command.key if isinstance(command, KGRemoteDictGetCall) else command]", rule="C13-R3"),
    Seed("command-as-task", "fault", IPC, "                response = await run_command_on_klongloop(self.klongloop, self.klong, msg, self)\n                await stream_send_msg(self.writer, msg_id, response)",
         "                async def _serve(mid=msg_id, m=msg):\n                    response = await run_command_on_klongloop(self.klongloop, self.klong, m, self)\n                    await stream_send_msg(self.writer, mid, response)\n                asyncio.create_task(_serve())", rule="C13-R4"),
    Seed("proxy-cache", "fault", IPC, "            if isinstance(x,KGSym) and isinstance(response, KGRemoteFnRef):\n                response = KGRemoteFnProxy(self, x, response.arity)\n            return response\n        except Exception as e:\n            import traceback\n            traceback.print_exception(type(e), e, e.__traceback__)\n            raise e\n\n    def _stop(self):",
         "            if isinstance(x,KGSym) and isinstance(response, KGRemoteFnRef):\n                if x not in self.fn_proxies:\n                    self.fn_proxies[x] = KGRemoteFnProxy(self, x, response.arity)\n                response = self.fn_proxies[x]\n            return response\n        except Exception as e:\n            import traceback\n            traceback.print_exception(type(e), e, e.__traceback__)\n            raise e\n\n    def _stop(self):", rule="C13-R5"),
    Seed("refactor-frame-temp", "refactor", IPC, "    writer.write(encode_message(msg_id, msg))\n    await writer.drain()", "    writer.write(encode_message(msg_id, msg))\n    await writer.drain()\n    return None"),
    Seed("refactor-recv-names", "refactor", IPC, "    raw_msg_id = await reader.readexactly(16)\n    raw_msglen = await reader.readexactly(4)\n    msglen = decode_message_len(raw_msglen)\n    data = await reader.readexactly(msglen)\n    return decode_message(raw_msg_id, data)",
         "    hdr_id = await reader.readexactly(16)\n    hdr_len = await reader.readexactly(4)\n    n = decode_message_len(hdr_len)\n    body = await reader.readexactly(n)\n    return decode_message(hdr_id, body)"),
]
