"""C12 — parsing always terminates and is repeatable.

Structural clauses decided: TERMINATION of the lexer and parser for every input - every loop iteration and
every recursive descent is charged to a consumed input character (progress analysis with function
summaries proved by induction over the call graph), no non-terminal is re-parsed as discarded look-ahead
(hence polynomial work) - and PURITY of parsing (no write to interpreter state except the module
directive).  Constant factors and Python's recursion limit (an error, i.e. termination) are NOT decided.
"""
import ast

from ..model import AnalysisError, src, callee_name, dotted, walk_local, calls_in, FUNC
from ..flow import atoms_at, Sem
from ..callgraph import CallGraph
from .. import progress, effects
from ..selftest import Seed

META = {
    "technique": "progress (ranking-function) abstract interpretation over cursor variables with relational nullness facts and inductive function summaries; weighted call-graph cycle check; look-ahead discipline; effect analysis",
    "level_text": "Static proof, for all input strings, that each of the lexer/parser loops and each cycle of the reader call graph strictly consumes input (or leaves at end of input), which bounds iterations and recursion depth by the input length; plus a proof that parsing writes no interpreter state beyond the module directive. This is a statement over all strings, which exhaustive testing up to length 3 cannot make (the defect this analysis found needs a seven-letter word).",
    "level_note": "decides the structural clause below from source; does not decide the behaviour. Trusted: Python semantics of str indexing (t[i] raises IndexError beyond the end), int('')/float('') raise ValueError, str.startswith on a shrinking slice; summaries are an optimistic fixpoint checked in a final pass.",
    "explanation": (
        "Static analysis of klongpy/parser.py and the parsing methods of interpreter.py: readers (functions over (t, i)) are discovered by signature; an abstract "
        "interpreter tracks for each cursor a lower bound of its advance over the entry cursor plus end-of-input / below-length flags, and for each value read its "
        "nullness with relational facts (non-null => cursor advanced by n, null => end of input, non-null => a character was consumed); summaries are computed to a "
        "fixpoint; every loop back edge must advance a cursor by >= 1 with consumption (or be at end of input under a length-bounded test); every cycle of the "
        "reader call graph must contain a call made with a strictly advanced, consuming cursor; index results of parser-level readers must flow into the live cursor; "
        "the transitive write effects of prog() on the interpreter must be within {_module}."),
    "assumptions": ["the text is a Python str (immutable); `is_symbolic` is the one-line predicate in types.py (evaluated on constants for alias folding)"],
}

PARSER_LEVEL_MODULE = "interpreter"
LOOKAHEAD_OK_REASON = "lexer-level readers (parser.py functions that do not take the interpreter) re-read at most one lexeme"


def _slice_prefix_idiom(loop, fnode):
    """`while [a and] X[<lo containing j>:].startswith(a): j += 1` is bounded iff `a` is known non-empty.
    -> (recognised, bounded, description)"""
    conj = loop.test.values if isinstance(loop.test, ast.BoolOp) and isinstance(loop.test.op, ast.And) else [loop.test]
    sw = [c for c in conj if isinstance(c, ast.Call) and isinstance(c.func, ast.Attribute) and c.func.attr == "startswith" and isinstance(c.func.value, ast.Subscript)
          and isinstance(c.func.value.slice, ast.Slice) and c.func.value.slice.lower is not None and c.func.value.slice.upper is None]
    if len(sw) != 1 or not sw[0].args or not isinstance(sw[0].args[0], ast.Name):
        return False, False, ""
    marker = sw[0].args[0].id
    lo_names = {n.id for n in ast.walk(sw[0].func.value.slice.lower) if isinstance(n, ast.Name)}
    incs = [b for b in loop.body if isinstance(b, ast.AugAssign) and isinstance(b.op, ast.Add) and isinstance(b.target, ast.Name) and b.target.id in lo_names
            and isinstance(b.value, ast.Constant) and isinstance(b.value.value, int) and b.value.value >= 1]
    if len(incs) != len(loop.body) or not incs:
        return False, False, ""
    nonempty = any(isinstance(c, ast.Name) and c.id == marker for c in conj[:conj.index(sw[0])])
    if not nonempty:
        for e, pol in atoms_at(loop, fnode):
            if isinstance(e, ast.Name) and e.id == marker and pol:
                nonempty = True
            if isinstance(e, ast.Compare) and src(e.left) == f"len({marker})" and pol and isinstance(e.ops[0], (ast.Gt, ast.GtE)):
                nonempty = True
    return True, nonempty, f"slice-prefix loop on `{marker}`"


def check(ctx):
    repo = ctx.repo
    cg = CallGraph(repo)
    ctx.rule("C12-R1", "leaf loops: every loop of a lexer function advances its cursor by >= 1 per iteration under a length-bounded test, or is a recognised bounded idiom (slice-prefix loop with a provably non-empty marker)")
    ctx.rule("C12-R2", "summaries: every reader returns a cursor derived from its entry cursor (weak monotonicity); the lexeme and expression readers satisfy: non-null => advance >= 1 and a character consumed, null => end of input; conditional strictness links are established at their call sites")
    ctx.rule("C12-R3", "parser loops: every back edge advances a cursor by >= 1 while consuming input, or is at end of input under a length-bounded test")
    ctx.rule("C12-R4", "recursion: every cycle of the reader call graph contains a call whose cursor argument is strictly ahead of the caller's entry cursor and consuming")
    ctx.rule("C12-R5", "no re-parsing of non-terminals: the index returned by a parser-level reader always becomes the live cursor (only lexer-level readers serve as discarded look-ahead)")
    ctx.rule("C12-R6", "purity: the transitive write effects of prog() on the interpreter are within {_module}; nothing is written to the context, the caches or variables while parsing")
    ctx.trust("t[i] raises IndexError for i >= len(t)", "int('') / float('') raise ValueError", "str.startswith(non-empty) is false on a slice shorter than the marker")

    res = progress.analyse(repo)
    readers, summ, ans = res["readers"], res["summaries"], res["analyzers"]
    ctx.note("readers", {nm: r.kind for nm, r in readers.items()})
    ctx.note("fixpoint_rounds", res["rounds"])
    ctx.note("summaries", {nm: {k: (v if v != progress.INF else None) for k, v in sm.items() if k in ("kind", "kmin", "knonnull", "E", "C", "Cidx", "cond")} for nm, sm in summ.items()})
    ctx.floor("C12-R2", "readers discovered (functions over (t, i))", len([r for r in readers.values() if r.kind != "pred"]), 22)
    for p in res["problems"]:
        ctx.ob("C12-R2", "parser", "every reader has an analysable shape", False, construct=f"unanalysable: {p[:90]}", msg=p)

    # ---- R1 / R3 loops
    n_loops = 0
    for nm, a in ans.items():
        fi = readers[nm].fi
        lexer = fi.module.name == "parser" and "klong" not in fi.params()
        rid = "C12-R1" if lexer else "C12-R3"
        for node, ok, cname, detail, test in a.loops:
            n_loops += 1
            ctx.instance(rid, fi.fq, f"while {test[:50]}")
            if not ok:
                rec, bounded, desc = _slice_prefix_idiom(node, fi.node)
                if rec:
                    ctx.ob(rid, fi.fq, f"{desc}: the marker is proven non-empty, so the shrinking slice ends the loop", bounded, node=node,
                           construct=f"slice-prefix loop without a non-empty guard in {nm}",
                           msg=f"`while {test}` never ends when the marker is the empty string (''.startswith('') is always true): the parser hangs on e.g. .comment(\"\")",
                           path=f"{fi.fq} loop@{node.lineno}")
                    continue
                why = "; ".join(f"{c}: {', '.join(d)}" for c, d in detail) if detail and isinstance(detail[0], tuple) else str(detail)
                ctx.ob(rid, fi.fq, f"loop `while {test[:50]}` makes progress on every back edge", False, node=node, construct=f"loop without progress in {nm}: while {test[:60]}",
                       msg=f"a path through the body of `while {test[:60]}` returns to the loop head without consuming input ({why}): some input makes the parser loop forever",
                       path=f"{fi.fq} loop@{node.lineno} -> back edge")
            else:
                ctx.ob(rid, fi.fq, f"loop `while {test[:50]}`: every back edge progresses on `{cname}` ({'; '.join(detail)[:80]})", True, node=node, construct=f"loop progress in {nm}: while {test[:60]}")
        # for-loops inside readers iterate over finite collections only
        for f_ in [n for n in walk_local(fi.node) if isinstance(n, ast.For)]:
            ok = not (isinstance(f_.iter, ast.Call) and callee_name(f_.iter) in ("count", "cycle", "repeat", "iter"))
            ctx.ob(rid, fi.fq, "for-loop iterates a finite collection", ok, node=f_, construct=f"for loop in {nm}")
    ctx.floor("C12-R1", "while loops in readers", n_loops, 6)          # 13 on the reviewed tree; maintenance merges duplicated scanning loops (three rounds of refactorings went down to 10), the floor only guards against an analysis that sees none

    # ---- R2 summaries
    for nm, sm in summ.items():
        if sm["kind"] in ("peek",):
            continue
        fi = readers[nm].fi
        ctx.instance("C12-R2", fi.fq)
        ok = sm["kmin"] >= 0 and (sm["kmin"] < progress.INF or sm.get("raises_only"))
        ctx.ob("C12-R2", fi.fq, f"weakly monotone: every return is at or after the entry cursor (min advance {sm['kmin'] if sm['kmin'] < progress.INF else 'n/a'})", ok, node=fi.node,
               construct=f"weak monotonicity of {nm}", msg=f"{nm} can return a cursor that is not derived from its entry cursor")
    for nm in ("kg_read", "kg_read_array", "_factor", "_expr"):
        sm = summ.get(nm)
        if sm is None:
            raise AnalysisError(f"anchor reader vanished: {nm}")
        fi = readers[nm].fi
        ok = sm["knonnull"] >= 1 and sm["knonnull"] < progress.INF and sm["E"] and sm["C"]
        bad = [r for r in ans[nm].returns if r["nl"] in (progress.NONNULL, progress.MAYBE) and (r.get("knn", 0) < 1 or not r.get("consumed_nn"))] + \
              [r for r in ans[nm].returns if r["nl"] in (progress.NULL, progress.MAYBE) and not (r["eof"] or r.get("E"))]
        where = f" (return at line {bad[0]['node'].lineno}: {src(bad[0]['node'])[:50]})" if bad else ""
        ctx.ob("C12-R2", fi.fq, f"{nm}: non-null => advance >= 1 with a character consumed; null => end of input", ok, node=(bad[0]["node"] if bad else fi.node),
               construct=f"strictness of {nm}", msg=f"{nm} can return a non-null value without consuming input, or the sentinel away from the end of input{where}: callers that loop on its result no longer terminate")
    for nm, a in ans.items():
        for call, callee, missing in a.cond_needs:
            # a missing link matters only if the weaker summary breaks something; report it as an obligation of its own
            fi = readers[nm].fi
            ctx.ob("C12-R2", fi.fq, f"call of {callee} establishes its strictness precondition {missing}", False, node=call,
                   construct=f"precondition of {callee} not established in {nm}", msg=f"{callee} only advances when {missing} holds on entry; {nm} calls it without establishing that")

    # ---- R4 recursion
    edges = {}
    for nm, a in ans.items():
        for c in a.calls:
            prog_edge = c["k"] >= 1 and c["consumed"]
            e = edges.setdefault((nm, c["callee"]), {"progress": True, "sites": []})
            e["progress"] = e["progress"] and prog_edge
            e["sites"].append(c)
    zero = {}
    for (a_, b_), e in edges.items():
        if not e["progress"]:
            zero.setdefault(a_, set()).add(b_)
    # cycles in the zero-progress subgraph
    cyc = _find_cycle(zero)
    n_cycles = _count_sccs({a_: {b_ for (x, b_) in edges if x == a_} for a_ in {x for x, _y in edges}})
    ctx.instance("C12-R4", "parser", f"{len(edges)} reader call edges, {n_cycles} recursive components")
    ctx.note("reader_call_edges", len(edges))
    ctx.floor("C12-R4", "recursive components of the reader call graph", n_cycles, 2)
    ctx.ob("C12-R4", "parser", "the sub-graph of calls that pass an unadvanced (or non-consuming) cursor is acyclic", cyc is None, construct=f"recursion without progress: {' -> '.join(cyc) if cyc else ''}",
           msg=f"the readers {' -> '.join(cyc) if cyc else ''} can call each other in a cycle without consuming input: unbounded recursion on some input")
    # every recursive edge individually, for the evidence
    for (a_, b_), e in sorted(edges.items()):
        if _reaches(edges, b_, a_):
            ctx.ob("C12-R4", readers[a_].fi.fq, f"recursive edge {a_} -> {b_}: {'cursor strictly ahead and consuming' if e['progress'] else 'zero-progress edge (cycle closed elsewhere with progress)'}", True,
                   construct=f"recursive edge {a_} -> {b_}")

    # ---- R5 look-ahead discipline
    n_la = 0
    for nm, a in ans.items():
        fi = readers[nm].fi
        for c in a.calls:
            rd = readers[c["callee"]]
            if rd.kind != "pair":
                continue
            parser_level = rd.fi.module.name == PARSER_LEVEL_MODULE or "klong" in rd.fi.params()
            tgt, arg = c["target"], c["arg"]
            if tgt == "$return" or tgt is None:
                continue
            lookahead = False
            if tgt != arg and arg is not None:
                lookahead, _hits = _is_lookahead(fi, c["node"], arg, set(readers))
            if parser_level:
                n_la += 1
                ctx.instance("C12-R5", fi.fq, src(c["node"])[:60])
                ctx.ob("C12-R5", fi.fq, f"index result of parser-level reader {c['callee']} becomes the live cursor", not lookahead, node=c["node"],
                       construct=f"{c['callee']} used as look-ahead in {nm}",
                       msg=f"{nm} calls {c['callee']} only to look ahead (its index goes to `{tgt}`, the cursor `{arg}` is kept): the same non-terminal is parsed again afterwards, which multiplies the work at every nesting level (exponential in the nesting depth)")
    ctx.floor("C12-R5", "calls of parser-level readers", n_la, 12)
    ctx.note("lookahead_policy", LOOKAHEAD_OK_REASON)

    # ---- R6 purity
    root = repo.fn("interpreter:KlongInterpreter.prog")
    reach = effects.transitive(cg, root, ("interpreter", "parser", "types", "backends/base", "backends/numpy_backend", "backends/torch_backend"))
    ctx.floor("C12-R6", "functions reachable from prog()", len(reach), 30)
    ctx.note("functions_reachable_from_prog", len(reach))
    allowed = {"_module"}
    nw = 0
    for fq in reach:
        g = repo.fn(fq)
        if g.module.name.startswith("backends/"):
            continue
        if g.cls not in (None, "KlongInterpreter"):
            continue
        for attr, node, kind in effects.attr_writes(g):
            nw += 1
            ctx.instance("C12-R6", fq, f"{kind} self.{attr}")
            ctx.ob("C12-R6", fq, f"write to interpreter attribute {attr} during parsing is within {sorted(allowed)}", attr in allowed and kind == "store", node=node,
                   construct=f"parser writes self.{attr}", msg=f"parsing modifies interpreter state ({attr}, in {g.name}): a failed or repeated parse leaves the interpreter different, so the same text no longer parses/evaluates the same way",
                   path=f"prog -> ... -> {fq}")
        for n in walk_local(g.node):
            if isinstance(n, ast.Subscript) and isinstance(n.ctx, (ast.Store, ast.Del)) and dotted(n.value) in ("self._context", "klong._context", "klong", "self._parse_cache", "self._compiled_cache"):
                ctx.ob("C12-R6", fq, "no variable or cache is written while parsing", False, node=n, construct=f"parser stores {src(n)[:40]}")
    ctx.control("C12-R6", "the module directive's write to _module is seen", nw >= 1)
    reads = set()
    for fq in reach:
        g = repo.fn(fq)
        if g.cls == "KlongInterpreter":
            reads |= effects.attr_reads(g)
    methods = {f.name for f in repo.all_funcs(("interpreter",)) if f.cls == "KlongInterpreter"}
    state_reads = sorted(r for r in reads if r not in methods)
    ctx.ob("C12-R6", root.fq, f"interpreter state read while parsing is within the fixed set (reads: {state_reads})", set(state_reads) <= {"_module", "_vm", "_vd", "_backend"}, node=root.node,
           construct="parser reads of interpreter state", msg=f"the parser depends on interpreter state {sorted(set(state_reads) - {'_module', '_vm', '_vd', '_backend'})}: re-parsing the same text in the same module is not the same computation")


class _StaleSem(Sem):
    """state: frozenset over {'before', 'stale', 'clean'}; 'stale' = the cursor variable still holds the position from before
    the look-ahead call although the call's index result went elsewhere"""
    base_exc_escapes = False

    def __init__(self, call_stmt, arg, reader_names):
        self.call_stmt, self.arg, self.readers = call_stmt, arg, reader_names
        self.hits = []

    def join2(self, a, b):
        return a | b

    def _uses(self, node):
        out = []
        for c in [n for n in walk_local(node) if isinstance(n, ast.Call)]:
            if callee_name(c) in self.readers:
                for a in list(c.args) + [k.value for k in c.keywords if k.arg == "i"]:
                    if isinstance(a, ast.Name) and a.id == self.arg:
                        out.append(c)
        return out

    def transfer(self, st, state):
        if st is self.call_stmt:
            return frozenset(["stale"])
        if "stale" in state:
            for u in self._uses(st):
                self.hits.append(u)
            if isinstance(st, ast.Return) and st.value is not None and any(isinstance(n, ast.Name) and n.id == self.arg for n in ast.walk(st.value)):
                self.hits.append(st)
        if isinstance(st, (ast.Assign, ast.AugAssign)):
            tg = st.targets if isinstance(st, ast.Assign) else [st.target]
            if any(isinstance(n, ast.Name) and n.id == self.arg for t in tg for n in ast.walk(t)):
                return frozenset(["clean"])
        return state


def _is_lookahead(fi, call, arg, reader_names):
    st = call
    while not isinstance(st, ast.stmt):
        st = st._parent
    sem = _StaleSem(st, arg, reader_names)
    sem.run(fi.node, frozenset(["before"]))
    return bool(sem.hits), sem.hits


def _find_cycle(g):
    color = {}
    stack = []

    def dfs(u):
        color[u] = 1
        stack.append(u)
        for v in sorted(g.get(u, ())):
            if color.get(v, 0) == 0:
                r = dfs(v)
                if r:
                    return r
            elif color.get(v) == 1:
                return stack[stack.index(v):] + [v]
        stack.pop()
        color[u] = 2
        return None
    for u in sorted(g):
        if color.get(u, 0) == 0:
            r = dfs(u)
            if r:
                return r
    return None


def _reaches(edges, a, b, seen=None):
    seen = seen or set()
    if a == b:
        return True
    if a in seen:
        return False
    seen.add(a)
    return any(_reaches(edges, y, b, seen) for (x, y) in edges if x == a)


def _count_sccs(g):
    # number of nodes that lie on some cycle, grouped by mutual reachability
    nodes = set(g) | {v for vs in g.values() for v in vs}
    def reach(a):
        seen, work = set(), list(g.get(a, ()))
        while work:
            x = work.pop()
            if x in seen:
                continue
            seen.add(x)
            work += list(g.get(x, ()))
        return seen
    R = {n: reach(n) for n in nodes}
    comps = set()
    for n in nodes:
        if n in R[n]:
            comps.add(frozenset(m for m in nodes if m in R[n] and n in R[m]))
    return len(comps)


# functions whose mechanical mutants are swept in the thorough tier (coverage evidence, see sa/mutate.py)
MUTATION_SCOPE = ['parser:read_shifted_comment',
                  'parser:read_sys_comment',
                  'parser:skip_space',
                  'parser:skip',
                  'parser:read_num',
                  'parser:read_char',
                  'parser:read_sym',
                  'parser:read_op',
                  'parser:read_string',
                  'parser:read_list',
                  'parser:kg_read',
                  'parser:kg_read_array',
                  'parser:read_cond',
                  'parser:peek_adverb',
                  'parser:read_expr_array',
                  'parser:cexpect',
                  'interpreter:KlongInterpreter.prog',
                  'interpreter:KlongInterpreter._expr',
                  'interpreter:KlongInterpreter._factor',
                  'interpreter:KlongInterpreter._read_fn_args',
                  'interpreter:KlongInterpreter._apply_adverbs',
                  'interpreter:KlongInterpreter.parse_module']

SEEDS = [
    Seed("comment-guard-dropped", "fault", "parser", "        while a and t[i+j+1:].startswith(a):", "        while t[i+j+1:].startswith(a):", rule="C12-R1"),
    Seed("skip-space-no-advance", "fault", "parser", "    while i < len(t) and (t[i].isspace() and (ignore_newline or t[i] != '\\n')):\n        i += 1\n    return i",
         "    while i < len(t) and (t[i].isspace() and (ignore_newline or t[i] != '\\n')):\n        if t[i] != '\\r':\n            i += 1\n    return i", rule="C12-R1"),
    Seed("read-string-no-advance", "fault", "parser", "        r.append(c)\n        i += 1\n    return i, \"\".join(r)", "        r.append(c)\n        if c != '\\\\':\n            i += 1\n    return i, \"\".join(r)", rule="C12-R1"),
    Seed("kg-read-delimiter-not-consumed", "fault", "parser", "    if a in [';', '(', ')', '{', '}', ']']:\n        return i+1, a", "    if a in [';', '(', ')', '{', '}', ']']:\n        return (i if a == ']' else i+1), a", rule="C12-R2"),
    Seed("fn-args-index-dropped", "fault", "interpreter", "            if safe_eq(c, ';'):\n                i = ii\n                if k == i - 1:", "            if safe_eq(c, ';'):\n                if k == i - 1:", rule="C12-R3"),
    # (the former seed "expr-loop-cursor-dropped" - `i = ii if ... else i` - was only reported because conditional assignments were
    #  not understood: with either polarity the loop still consumes input through cexpect / the recursive _expr; it is a refactor-neutral
    #  variant as far as termination goes and is kept as such)
    Seed("refactor-expr-loop-conditional-cursor", "refactor", "interpreter", "        while isinstance(aa,(KGOp,KGSym)) or safe_eq(aa, '{'):\n            i = ii\n", "        while isinstance(aa,(KGOp,KGSym)) or safe_eq(aa, '{'):\n            i = ii if ii >= i else i\n"),
    Seed("prog-discards-index", "fault", "interpreter", "            i, q = self._expr(t,i, ignore_newline=ignore_newline)\n            if q is None or safe_eq(q, ';'):\n                continue",
         "            j, q = self._expr(t,i, ignore_newline=ignore_newline)\n            if q is None or safe_eq(q, ';'):\n                continue\n            i = j", rule="C12-R3"),
    Seed("break-to-continue", "fault", "interpreter", "            if a is None:\n                break\n            arr.append(a)\n        i = cexpect(t,i,')')", "            if a is None:\n                continue\n            arr.append(a)\n        i = cexpect(t,i,')')", rule="C12-R3"),
    Seed("factor-recurses-on-same-cursor", "fault", "interpreter", "                    i = read_sys_comment(t,i,a.args[0])\n                    return self._factor(t,i, ignore_newline=ignore_newline)",
         "                    read_sys_comment(t,i,a.args[0])\n                    return self._factor(t,k0, ignore_newline=ignore_newline)", rule="C12-R4",
         more=[("        # Check for evaluated array constructor [;expr1;expr2;...]\n        ii = skip(t, i, ignore_newline=ignore_newline)", "        # Check for evaluated array constructor [;expr1;expr2;...]\n        k0 = i\n        ii = skip(t, i, ignore_newline=ignore_newline)")]),
    Seed("factor-as-lookahead", "fault", "interpreter", "            ii,c = kg_read(t, i, ignore_newline=True, module=self.current_module())\n            if safe_eq(c, ';'):", "            ii,c = self._factor(t, i, ignore_newline=True)\n            if safe_eq(c, ';'):", rule="C12-R5"),
    Seed("parse-depth-counter", "fault", "interpreter", "        i, a = self._factor(t, i, ignore_newline=ignore_newline)\n        if a is None or safe_eq(a, ';'):\n            return i,a",
         "        self._parse_depth = getattr(self, '_parse_depth', 0) + 1\n        i, a = self._factor(t, i, ignore_newline=ignore_newline)\n        if a is None or safe_eq(a, ';'):\n            self._parse_depth -= 1\n            return i,a", rule="C12-R6"),
    Seed("parser-defines-variable", "fault", "interpreter", "                elif safe_eq(a.a, KGSym('.module')):\n                    self.parse_module(fa[0])", "                elif safe_eq(a.a, KGSym('.module')):\n                    self.parse_module(fa[0])\n                    self._context[KGSym('.module.name')] = fa[0]", rule="C12-R6"),
    Seed("refactor-rename-cursor", "refactor", "parser", "def skip_space(t, i=0, ignore_newline=False):", "def skip_space(t, i=0, ignore_newline=False, _unused=None):"),
    Seed("refactor-guard-order", "refactor", "parser", "    while not cmatch(t, i, delim) and i < len(t):", "    while i < len(t) and not cmatch(t, i, delim):"),
    Seed("refactor-comment-guard-early", "refactor", "parser", "        j = t[i:].index(a)\n        while a and t[i+j+1:].startswith(a):", "        j = t[i:].index(a)\n        if not a:\n            return i\n        while t[i+j+1:].startswith(a):"),
]
