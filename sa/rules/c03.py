"""C03 — function application, projection, locals and conditionals follow substitution.

Structural clauses decided: the context stack and temporary system bindings are restored on every way
out (exceptional exits included) of every function that changes them; the callee frame is built
completely - arguments evaluated, locals and .f stored in the frame dictionary - before it is pushed; a
conditional evaluates its test once and exactly one branch; there are at least as many projection
flattening passes as reserved arguments.  Substitution semantics of bodies is NOT decided.
"""
import ast

from ..model import AnalysisError, src, callee_name, dotted, walk_local, calls_in, FUNC, names_in, pos
from ..flow import Sem, path_conditions, split_conj, atoms_at
from ..callgraph import CallGraph
from ..common import resolve_single_assign, ancestors, in_loop
from ..selftest import Seed

META = {
    "technique": "open/close obligation dataflow on a CFG with exception edges (context-stack depth, temporary symbol), ordering typestate in the call path, branch-exclusivity check of the conditional",
    "level_text": "Static proof over every exit - including the exceptional ones no test takes - of every function that pushes or pops the context stack that the net stack effect is zero, that the temporary .cli.h binding is deleted, that the frame is complete before the push, and that a conditional evaluates one branch. Does not decide what a body evaluates to.",
    "level_note": "decides the structural clause below from source; does not decide the behaviour. Trusted: KlongContext.push/pop are deque.appendleft/popleft on the same end (checked), these two calls do not raise; any other call may raise; `except Exception` does not catch BaseException.",
    "explanation": (
        "Static analysis of klongpy/interpreter.py, sys_fn.py, sys_fn_ipc.py, ws/sys_fn_ws.py: exit-path abstract interpretation with the net "
        "context-stack depth as state in every function that calls push/pop on the interpreter context (all exits must be at depth 0; "
        "start_module/stop_module are the two documented net +1 operations), the same for the temporary '.cli.h' binding, a typestate "
        "over _eval_fn (everything that fills the frame or evaluates arguments happens before the push; after it only the body is "
        "evaluated), the shape of the KGCond arm of eval, and a count of projection-flattening passes."),
    "assumptions": ["deque.appendleft / popleft and the guarded pop do not raise", "the interpreter context is reached as klong._context / self._context (receiver convention)"],
}

CTX_RECV = ("klong._context", "self._context", "self.klong._context")
DOCUMENTED_NET = {"interpreter:KlongContext.start_module": 1, "interpreter:KlongContext.stop_module": 1,
                  "interpreter:KlongContext.push": 1, "interpreter:KlongContext.pop": -1}


def _ctx_op(call):
    f = call.func
    if isinstance(f, ast.Attribute) and f.attr in ("push", "pop") and dotted(f.value) in CTX_RECV:
        return 1 if f.attr == "push" else -1
    return 0


class StackSem(Sem):
    def join2(self, a, b):
        return a | b

    def _net(self, st):
        return sum(_ctx_op(c) for c in calls_in(st))

    def atomic(self, st):
        # a statement that is just the push/pop (possibly binding its result) does not raise
        cs = calls_in(st)
        return bool(cs) and self._net(st) != 0 and all(_ctx_op(c) != 0 or callee_name(c) in ("KGSym", "dict") for c in cs)

    def transfer(self, st, state):
        n = self._net(st)
        return frozenset(x + n for x in state) if n else state

    def test_transfer(self, test, state):
        n = sum(_ctx_op(c) for c in calls_in(test))
        return frozenset(x + n for x in state) if n else state


class TempSymSem(Sem):
    """state: frozenset of booleans: the temporary symbol is currently bound"""

    def __init__(self, is_bind, is_unbind):
        self.is_bind, self.is_unbind = is_bind, is_unbind

    def join2(self, a, b):
        return a | b

    def atomic(self, st):
        return self.is_unbind(st)

    def transfer(self, st, state):
        if self.is_bind(st):
            return frozenset([True])
        if self.is_unbind(st):
            return frozenset([False])
        return state


def check(ctx):
    repo = ctx.repo
    cg = CallGraph(repo)
    ctx.rule("C03-R1", "PAIR(stack): in every function that pushes/pops the interpreter context the net stack effect is 0 on every path to every exit, exceptional exits included")
    ctx.rule("C03-R2", "PAIR(temporary symbol): the IPC server binds .cli.h for one command and deletes it on every exit")
    ctx.rule("C03-R3", "frame completeness: in the call path every argument evaluation and every store into the frame dictionary precedes the push; after the push only the function body is evaluated; no write-through to the context while building the frame")
    ctx.rule("C03-R4", "conditional: test evaluated once, truth computed from the test value only, the two branch evaluations sit in opposite arms of one conditional")
    ctx.rule("C03-R5", "projection flattening: at least len(reserved_fn_args) resolution passes")
    ctx.trust("deque.appendleft/popleft do not raise", "except Exception does not catch BaseException (KeyboardInterrupt, CancelledError): restoring needs finally")

    # ---------------- R1
    funcs = []
    for f in repo.all_funcs():
        if any(_ctx_op(c) for c in calls_in(f.node)):
            funcs.append(f)
    ctx.floor("C03-R1", "functions that push/pop the interpreter context", len(funcs), 5)
    nsites = 0
    for f in funcs:
        sites = [c for c in calls_in(f.node) if _ctx_op(c)]
        nsites += len(sites)
        exits = StackSem().run(f.node, frozenset([0]))
        ctx.instance("C03-R1", f.fq, f"{len(sites)} push/pop sites, {len(exits)} exits")
        want = DOCUMENTED_NET.get(f.fq, 0)
        bad = [x for x in exits if x.state != frozenset([want])]
        desc = sorted({("exceptional exit" if x.kind == "exc" else "return") + f"@{x.line} depth {sorted(x.state)}" for x in bad})
        ctx.ob("C03-R1", f.fq, f"net context-stack effect is {want} on all {len(exits)} exits", not bad, node=(bad[0].node if bad else f.node),
               construct="context stack balanced on every exit",
               msg=f"the context stack is left unbalanced on: {', '.join(desc[:4])}: after a call that fails part-way later programs run in the wrong scope",
               path=(f"entry {f.fq} -> {desc[0]}" if desc else None))
    ctx.floor("C03-R1", "push/pop call sites", nsites, 9)
    # primitives: push and pop work on the same end of the deque
    kc_push = repo.fn("interpreter:KlongContext.push")
    kc_pop = repo.fn("interpreter:KlongContext.pop")
    ends = lambda f, names: [c.func.attr for c in calls_in(f.node) if isinstance(c.func, ast.Attribute) and c.func.attr in names]
    pu, po = ends(kc_push, ("appendleft", "append")), ends(kc_pop, ("popleft", "pop"))
    ctx.instance("C03-R1", "interpreter:KlongContext", "primitives")
    ctx.ob("C03-R1", kc_pop.fq, "push and pop operate on the same end of the scope deque", (pu == ["appendleft"] and po == ["popleft"]) or (pu == ["append"] and po == ["pop"]),
           node=kc_pop.node, construct="push/pop same end", msg=f"push uses {pu}, pop uses {po}: pop would remove a different scope than the one pushed")
    # lookups scan from the end that push uses (the frame shadows globals)
    # callers of the documented +1 operations
    for fq in ("interpreter:KlongContext.start_module", "interpreter:KlongContext.stop_module"):
        f = repo.fn(fq)
        n = sum(1 for c in calls_in(f.node) if isinstance(c.func, ast.Attribute) and c.func.attr == "push" and dotted(c.func.value) == "self")
        ctx.ob("C03-R1", fq, "documented net +1 operation pushes exactly one scope", n == 1 and not any(
            isinstance(c.func, ast.Attribute) and c.func.attr == "pop" for c in calls_in(f.node)), node=f.node, construct="module scope push")

    # ---------------- R2
    srv = repo.fn("sys_fn_ipc:execute_server_command")
    binds = [n for n in walk_local(srv.node) if isinstance(n, ast.Assign) and any(isinstance(t, ast.Subscript) and dotted(t.value) in CTX_RECV for t in n.targets)]
    ctx.floor("C03-R2", "temporary bindings in the IPC server command", len(binds), 1)
    for b in binds:
        key = src(b.targets[0].slice)
        ctx.instance("C03-R2", srv.fq, key)
        is_bind = lambda st, b=b: st is b
        is_unbind = lambda st, key=key: isinstance(st, ast.Delete) and any(isinstance(t, ast.Subscript) and dotted(t.value) in CTX_RECV and src(t.slice) == key for t in st.targets)
        exits = TempSymSem(is_bind, is_unbind).run(srv.node, frozenset([False]))
        bad = [x for x in exits if True in x.state]
        ctx.ob("C03-R2", srv.fq, f"the temporary binding {key} is deleted on all {len(exits)} exits", not bad, node=(bad[0].node if bad else b),
               construct=f"temporary {key} unbound on every exit",
               msg=f"{key} stays bound after the command on: " + ", ".join(sorted({x.kind + '@' + str(x.line) for x in bad})[:4]),
               path=(f"entry {srv.fq} -> {bad[0].kind}@{bad[0].line}" if bad else None))

    _check_eval_fn(ctx, repo)
    _check_cond(ctx, repo)
    _check_param_store(ctx, repo)
    from . import c04 as _c04
    _c04._state_inventory(ctx, repo, "C03-R8")
    # ---------------- R6: projection flattening and call evaluation do not write into shared structures
    ctx.rule("C03-R6", "projection flattening never writes into the stored projection layers (FRESH-WRITE on types.py and the call path), and call() evaluates every function node through a fresh wrapper")
    from .. import fresh
    from . import c04, c05
    summ = fresh.compute_summaries(repo, cg, c04.SUMMARY_MODULES)
    n, _seen = c04.fresh_write_scan(ctx, repo, cg, summ, "C03-R6", ("types",), ("interpreter:KlongInterpreter._eval_fn", "interpreter:KlongInterpreter._resolve_fn"))
    ctx.floor("C03-R6", "in-place writes in the projection/call path", n, 3)
    c05.check_rewrap(ctx, repo, "C03-R6")


def _check_param_store(ctx, repo):
    """C03-R7: parameters are private to the call that bound them.  A store to x / y / z must land in the innermost frame; only
    other names may be looked for (and overwritten) in enclosing scopes."""
    ctx.rule("C03-R7", "a store to a parameter name (x, y, z) never walks the scope stack: in KlongContext.__setitem__ every store into a scope other than the innermost one is dominated by `k not in reserved_fn_symbols`")
    f = repo.fn("interpreter:KlongContext.__setitem__")
    ctx.instance("C03-R7", f.fq)
    kparam = f.params()[1]
    from ..common import value_alternatives, says_not_none
    from ..model import enclosing_stmt

    def innermost(e):
        return isinstance(e, ast.Subscript) and dotted(e.value) == "self._context" and isinstance(e.slice, ast.Constant) and e.slice.value == 0
    # every store into a scope: `<scope>[k] = v` or set_context_var(<scope>, k, v); the scope is the innermost one or one found some other way
    walks = []
    for n in walk_local(f.node):
        if isinstance(n, ast.Subscript) and isinstance(n.ctx, (ast.Store, ast.Del)) and not innermost(n.value) and src(n.slice) == kparam:
            walks.append((n, n.value))
        if isinstance(n, ast.Call) and callee_name(n) == "set_context_var" and n.args and not innermost(n.args[0]):
            walks.append((n, n.args[0]))
    # ... or a call of another method of the context class that does such a store for the same key
    kcls_methods = {g.name: g for g in repo.module("interpreter").funcs.values() if g.cls == f.cls and g.parent is None and g.name != f.name}
    for c in calls_in(f.node):
        if isinstance(c.func, ast.Attribute) and dotted(c.func.value) == "self" and c.func.attr in kcls_methods and any(isinstance(a, ast.Name) and a.id == kparam for a in c.args):
            g = kcls_methods[c.func.attr]
            if any(isinstance(n, ast.Subscript) and isinstance(n.ctx, (ast.Store, ast.Del)) and not innermost(n.value) and isinstance(n.slice, ast.Name) and n.slice.id in g.params()
                   for n in walk_local(g.node)):
                walks.append((c, c))
    ctx.floor("C03-R7", "stores into a scope other than the innermost one", len(walks), 1)

    def not_reserved(e, pol):
        return isinstance(e, ast.Compare) and len(e.ops) == 1 and src(e.left) == kparam and "reserved_fn_symbols" in src(e.comparators[0]) and \
            ((isinstance(e.ops[0], ast.NotIn) and pol) or (isinstance(e.ops[0], ast.In) and not pol))
    for n, scope in walks:
        facts = list(atoms_at(n, f.node))
        # operands of an enclosing `A and B` that precede the site hold when it is evaluated
        q = n
        while q is not None and not isinstance(q, ast.stmt):
            p_ = getattr(q, "_parent", None)
            if isinstance(p_, ast.BoolOp) and isinstance(p_.op, ast.And):
                for v_ in p_.values:
                    if v_ is q:
                        break
                    facts += split_conj(v_, True)
            q = p_
        ok = any(not_reserved(e, pol) for e, pol in facts)
        if not ok and isinstance(scope, ast.Name):
            # the scope was chosen earlier: every way of choosing it that is compatible with the guards here must have excluded parameter names
            alts = value_alternatives(scope, f.node, enclosing_stmt(n))
            known_not_none = any(says_not_none(e, pol, scope.id) for e, pol in facts)
            live = [(v, cs) for v, cs in alts if not (known_not_none and isinstance(v, ast.Constant) and v.value is None)]

            def excluded(v, cs):
                if any(not_reserved(a, ap) for t, pl in cs for a, ap in split_conj(t, pl)):
                    return True
                # the scope is what another method of the class returns for this key: every non-None result of that method must
                # have excluded parameter names
                if isinstance(v, ast.Call) and isinstance(v.func, ast.Attribute) and dotted(v.func.value) == "self" and v.func.attr in kcls_methods:
                    g = kcls_methods[v.func.attr]
                    gp = [p_ for p_ in g.params() if p_ != "self"]
                    kidx = next((i_ for i_, a_ in enumerate(v.args) if isinstance(a_, ast.Name) and a_.id == kparam), None)
                    if kidx is None or kidx >= len(gp):
                        return False
                    gk = gp[kidx]
                    from ..flow import return_alts
                    res = [(facts_, val_) for facts_, val_, _r in return_alts(g.node) if not (known_not_none and (val_ is None or (isinstance(val_, ast.Constant) and val_.value is None)))]

                    def nr(e, pol):
                        return isinstance(e, ast.Compare) and len(e.ops) == 1 and src(e.left) == gk and "reserved_fn_symbols" in src(e.comparators[0]) and \
                            ((isinstance(e.ops[0], ast.NotIn) and pol) or (isinstance(e.ops[0], ast.In) and not pol))
                    return bool(res) and all(any(nr(e, pol) for e, pol in facts_) for facts_, _v in res)
                return False
            ok = bool(live) and all(excluded(v, cs) for v, cs in live)
        ctx.ob("C03-R7", f.fq, f"the store `{src(n)[:40]}` into an enclosing scope happens only for names that are not parameter names", ok, node=n, construct="scope walk for a parameter name",
               msg="a store to x, y or z searches the enclosing scopes first: a callee that assigns to a parameter name it did not receive overwrites its CALLER's argument (or a global of that name) instead of creating its own")


def lp_iter(loop):
    it = loop.iter
    while isinstance(it, ast.Call) and it.args and callee_name(it) in ("reversed", "list", "iter", "enumerate"):
        it = it.args[0]
    return it


def _check_eval_fn(ctx, repo):
    f = repo.fn("interpreter:KlongInterpreter._eval_fn")
    pushes = [c for c in calls_in(f.node) if _ctx_op(c) == 1]
    ctx.floor("C03-R3", "push sites in _eval_fn", len(pushes), 1)
    if not pushes:
        return
    push = pushes[0]
    frame = push.args[0] if push.args else None
    ctx.instance("C03-R3", f.fq, "frame construction")
    ctx.ob("C03-R3", f.fq, "the pushed frame is a local dictionary variable", isinstance(frame, ast.Name), node=push, construct="pushed frame is a local")
    if not isinstance(frame, ast.Name):
        return
    fv = frame.id
    pline = pos(push)
    # the statements of the pushed region: the try whose finally pops
    body_var = None
    for n in walk_local(f.node):
        if isinstance(n, ast.Assign) and any(isinstance(t, ast.Subscript) and isinstance(t.value, ast.Name) and t.value.id == fv and
                                             "dot_f" in src(t.slice) for t in n.targets):
            body_var = n.value.id if isinstance(n.value, ast.Name) else None
    ctx.ob("C03-R3", f.fq, ".f is stored in the frame dictionary before the push", body_var is not None, node=push, construct=".f stored in frame",
           msg="the function is not bound to .f in the frame that is pushed: recursion through .f breaks")
    for n in walk_local(f.node):
        npos = pos(n)
        # stores into the frame after the push
        if isinstance(n, ast.Subscript) and isinstance(n.ctx, (ast.Store, ast.Del)) and isinstance(n.value, ast.Name) and n.value.id == fv:
            ctx.ob("C03-R3", f.fq, f"store into the frame `{src(n)}` precedes the push", npos < pline, node=n, construct=f"frame store {src(n.slice)}",
                   msg="the frame is modified after it became visible: evaluation of the value can see a half-built frame")
        # write-through to the context while building the frame
        if isinstance(n, ast.Subscript) and isinstance(n.ctx, (ast.Store, ast.Del)) and dotted(n.value) in CTX_RECV:
            ctx.ob("C03-R3", f.fq, "no store through the context in the call path", False, node=n, construct=f"context store {src(n)}",
                   msg="a parameter/local is written through the context stack instead of into the new frame: it lands in (and survives in) an outer scope")
        # evaluations after the push: only the body
        if isinstance(n, ast.Call) and isinstance(n.func, ast.Attribute) and n.func.attr in ("call", "eval") and dotted(n.func.value) == "self":
            if npos > pline:
                a0 = n.args[0] if n.args else None
                ctx.ob("C03-R3", f.fq, "the only evaluation after the push is that of the function body", isinstance(a0, ast.Name) and a0.id == body_var,
                       node=n, construct=f"evaluation after push: {src(n)[:60]}", msg="an argument expression is evaluated after the callee frame was pushed: it sees the callee's x/y/z instead of the caller's")
            else:
                a0 = n.args[0] if n.args else None
                is_body = isinstance(a0, ast.Name) and a0.id == body_var
                ctx.ob("C03-R3", f.fq, "what is evaluated before the push is an argument, never the function body", not is_body, node=n,
                       construct=("function body evaluated without its own frame" if is_body else f"evaluation before push: {src(n)[:60]}"),
                       msg="the function body is evaluated on a path that has not pushed a frame for it: names it creates land in the caller's scope (or become globals) and survive the call, "
                           ".f is not bound, and a failure part-way leaves those names behind")
        # the callable form of the body (a Python function stored in a variable) is likewise only applied inside the frame
        if isinstance(n, ast.Call) and isinstance(n.func, ast.Name) and n.func.id == body_var and npos < pline:
            ctx.ob("C03-R3", f.fq, "the function is applied only after its frame was pushed", False, node=n, construct="function applied without its own frame",
                   msg="the function is applied on a path that has not pushed a frame for it")
    # the push is immediately followed by the try/finally that pops (no statement in between can raise)
    st = push
    while not isinstance(st, ast.stmt):
        st = st._parent
    blk = st._parent
    lst = next((l for l in (getattr(blk, "body", []), getattr(blk, "orelse", []), getattr(blk, "finalbody", [])) if st in l), None)
    nxt = lst[lst.index(st) + 1] if lst and lst.index(st) + 1 < len(lst) else None
    # ... in a `finally`, or in an `except BaseException: pop; raise` handler together with a pop on the normal path (C03-R1 proves that
    # every exit, exceptional ones included, is balanced; this clause only says that nothing can fail between push and protection)
    in_finally = isinstance(nxt, ast.Try) and any(_ctx_op(c) == -1 for s in nxt.finalbody for c in calls_in(s))
    in_handler = isinstance(nxt, ast.Try) and any(h.type is not None and src(h.type) == "BaseException" and any(_ctx_op(c) == -1 for s in h.body for c in calls_in(s)) and
                                                  isinstance(h.body[-1], ast.Raise) and h.body[-1].exc is None for h in nxt.handlers)
    ctx.ob("C03-R3", f.fq, "the push is directly followed by the try statement whose finally (or catch-all handler) pops", in_finally or in_handler, node=st, construct="push; try/finally pop")

    # ---------------- R5
    passes = [c for c in calls_in(f.node) if isinstance(c.func, ast.Attribute) and c.func.attr == "_resolve_fn"]
    need = None
    for n in repo.module("types").tree.body:
        if isinstance(n, ast.Assign) and any(isinstance(t, ast.Name) and t.id == "reserved_fn_args" for t in n.targets) and isinstance(n.value, (ast.List, ast.Tuple)):
            need = len(n.value.elts)
    if need is None:
        raise AnalysisError("reserved_fn_args literal not found in types.py")
    static = [c for c in passes if not in_loop(c, f.node)]
    looped = [c for c in passes if in_loop(c, f.node)]
    enough = len(static) >= need
    for c in looped:
        loop = next(p for p in ancestors(c, f.node) if isinstance(p, (ast.For, ast.While)))
        if isinstance(loop, ast.For):
            it = loop.iter
            if isinstance(it, ast.Name) and it.id == "reserved_fn_args":
                enough = True
            if isinstance(it, ast.Call) and callee_name(it) == "range" and it.args:
                a = it.args[-1] if len(it.args) <= 2 else it.args[1]
                if isinstance(a, ast.Constant) and isinstance(a.value, int) and a.value >= need:
                    enough = True
                if isinstance(a, ast.Call) and callee_name(a) == "len" and src(a.args[0]) == "reserved_fn_args":
                    enough = True
    ctx.instance("C03-R5", f.fq, f"{len(passes)} resolution passes")
    ctx.ob("C03-R5", f.fq, f"at least {need} projection-flattening passes (found {len(static)} static{' + loop' if looped else ''})", enough, node=f.node,
           construct="projection flattening passes", msg=f"only {len(static)} resolution passes for {need} reserved arguments: projections filled in {need} steps are not flattened")
    # each pass threads all three results back
    prev_targets = None
    for c in sorted(passes, key=pos):
        st = c._parent
        is_tuple_assign = isinstance(st, ast.Assign) and isinstance(st.targets[0], ast.Tuple) and len(st.targets[0].elts) == len(c.args)
        targets = [src(e) for e in st.targets[0].elts] if is_tuple_assign else None
        args = [src(a) for a in c.args]
        # a pass inside a loop feeds itself; a straight-line pass is fed by the one before it (the first one by the call being evaluated)
        ok = is_tuple_assign and (targets == args if (in_loop(c, f.node) or prev_targets is None and targets == args) else (prev_targets is None or args == prev_targets))
        ctx.ob("C03-R5", f.fq, "each pass feeds its (f, args, arity) result into the next", ok, node=c, construct="resolution pass threads its results")
        prev_targets = targets


def _check_cond(ctx, repo):
    f = repo.fn("interpreter:KlongInterpreter.eval")
    arm = None
    for n in walk_local(f.node):
        if isinstance(n, ast.If):
            for e, pol in split_conj(n.test, True):
                if isinstance(e, ast.Call) and callee_name(e) == "isinstance" and len(e.args) == 2 and src(e.args[1]) == "KGCond":
                    arm = n
    if arm is None:
        raise AnalysisError("KGCond arm of eval not found")
    node = arm.test.args[0].id if isinstance(arm.test, ast.Call) and isinstance(arm.test.args[0], ast.Name) else "x"
    ctx.instance("C03-R4", f.fq, "KGCond arm")

    def evals_of(i):
        out = []
        for st in arm.body:
            for c in walk_local(st):
                if isinstance(c, ast.Call) and isinstance(c.func, ast.Attribute) and c.func.attr in ("call", "eval") and c.args and \
                        isinstance(c.args[0], ast.Subscript) and isinstance(c.args[0].value, ast.Name) and c.args[0].value.id == node and \
                        isinstance(c.args[0].slice, ast.Constant) and c.args[0].slice.value == i:
                    out.append(c)
        return out
    e0, e1, e2 = evals_of(0), evals_of(1), evals_of(2)
    ctx.ob("C03-R4", f.fq, "the test expression is evaluated exactly once", len(e0) == 1, node=arm, construct="condition evaluated once",
           msg=f"the condition is evaluated {len(e0)} times")
    ctx.ob("C03-R4", f.fq, "each branch has exactly one evaluation site", len(e1) == 1 and len(e2) == 1, node=arm, construct="one evaluation site per branch",
           msg=f"then-branch evaluated at {len(e1)} sites, else-branch at {len(e2)} sites")
    if len(e0) != 1 or len(e1) != 1 or len(e2) != 1:
        return
    fake = ast.FunctionDef(name="arm", args=f.node.args, body=arm.body, decorator_list=[], lineno=arm.lineno, col_offset=0)
    c1 = path_conditions(e1[0], f.node)
    c2 = path_conditions(e2[0], f.node)
    inner1 = [(t, p) for t, p in c1 if t is not arm.test and any(t is x for x in ast.walk(arm))]
    inner2 = [(t, p) for t, p in c2 if t is not arm.test and any(t is x for x in ast.walk(arm))]
    excl = any(t1 is t2 and p1 != p2 for t1, p1 in inner1 for t2, p2 in inner2)
    ctx.ob("C03-R4", f.fq, "the two branch evaluations are in opposite arms of one conditional", excl, node=e1[0], construct="branches mutually exclusive",
           msg="both branches of a conditional can be evaluated (evaluate-both-then-select): side effects of the unselected branch happen")
    if not excl:
        return
    t = next(t1 for t1, p1 in inner1 for t2, p2 in inner2 if t1 is t2 and p1 != p2)
    pol1 = next(p1 for t1, p1 in inner1 if t1 is t)
    # the truth value derives from the value of x[0] only
    te = resolve_single_assign(t, _armfn(arm, f), depth=3) if isinstance(t, ast.Name) else t
    # the deciding test may be spelled as Klong truth (`not (zero or empty)`) or as falsity (`zero or empty`): the then-branch sits on the true side
    kind = _truth_kind(te)
    want = {"T": True, "F": False}.get(kind)
    ctx.ob("C03-R4", f.fq, "the then-branch is the arm taken when the truth value holds", want is not None and pol1 is want, node=e1[0], construct="then-branch on true",
           msg=f"the deciding test `{src(te)[:80]}` is {'Klong truth' if kind == 'T' else 'Klong falsity' if kind == 'F' else 'not recognised as truth/falsity of the test value'} and the then-branch is evaluated when it is {pol1}")
    qnames = set()
    st0 = e0[0]._parent
    if isinstance(st0, ast.Assign) and isinstance(st0.targets[0], ast.Name):
        qnames.add(st0.targets[0].id)
    used = names_in(te) - {"self", "is_empty", "is_number", "is_list", "is_iterable", "safe_eq", "kg_truth", "bool", "len", "isinstance", "str"}
    ok = bool(qnames) and used <= qnames and not any(isinstance(s, ast.Subscript) and isinstance(s.value, ast.Name) and s.value.id == node for s in ast.walk(te))
    ctx.ob("C03-R4", f.fq, f"truth is computed from the evaluated test value only (uses {sorted(used)})", ok, node=t, construct="truth from test value only")
    # Klong truth: 0 and empty are false
    has_zero = any(isinstance(c, ast.Compare) and any(isinstance(k, ast.Constant) and k.value == 0 for k in c.comparators) for c in ast.walk(te))
    has_empty = any(isinstance(c, ast.Call) and callee_name(c) == "is_empty" for c in ast.walk(te))
    ctx.ob("C03-R4", f.fq, "truth tests both `== 0` and emptiness of the test value", has_zero and has_empty, node=t, construct="klong truth: 0 and empty are false",
           msg="the truth computation no longer treats both 0 and the empty list/string as false")


def _truth_kind(e):
    """'T' if e holds exactly when the tested value is Klong-true, 'F' if exactly when it is Klong-false (number 0 or empty);
    partial results: 'Z' zero test, 'E' empty test, 'NZ'/'NE' their negations; None when not recognised"""
    flip = {"F": "T", "T": "F", "Z": "NZ", "E": "NE", "NZ": "Z", "NE": "E"}
    if isinstance(e, ast.UnaryOp) and isinstance(e.op, ast.Not):
        return flip.get(_truth_kind(e.operand))
    if isinstance(e, ast.Compare) and len(e.ops) == 1 and isinstance(e.comparators[0], ast.Constant) and e.comparators[0].value == 0:
        return "Z" if isinstance(e.ops[0], ast.Eq) else "NZ" if isinstance(e.ops[0], ast.NotEq) else None
    if isinstance(e, ast.Call) and callee_name(e) == "is_empty":
        return "E"
    if isinstance(e, ast.Call) and callee_name(e) in ("is_number", "is_integer", "is_float"):
        return "num"
    if isinstance(e, ast.BoolOp):
        ks = [_truth_kind(v) for v in e.values]
        if isinstance(e.op, ast.And):
            if set(ks) <= {"num", "Z"} and "Z" in ks:
                return "Z"             # is_number(q) and q == 0
            if set(ks) <= {"NZ", "NE", "T"} and ("T" in ks or {"NZ", "NE"} <= set(ks)):
                return "T"
        else:
            if set(ks) <= {"Z", "E", "F"} and ("F" in ks or {"Z", "E"} <= set(ks)):
                return "F"
            if set(ks) <= {"NZ", "nnum"} and "NZ" in ks:
                return "NZ"
    return None


def _armfn(arm, f):
    return f.node


# functions whose mechanical mutants are swept in the thorough tier (coverage evidence, see sa/mutate.py)
MUTATION_SCOPE = ['interpreter:KlongInterpreter._eval_fn',
                  'interpreter:KlongInterpreter._resolve_fn',
                  'interpreter:KlongInterpreter.call',
                  'interpreter:KlongContext.push',
                  'interpreter:KlongContext.pop',
                  'sys_fn:eval_sys_load',
                  'sys_fn:_import_module',
                  'sys_fn:eval_sys_backend_fn',
                  'ws/sys_fn_ws:execute_server_command',
                  'sys_fn_ipc:execute_server_command',
                  'types:merge_projections']

SEEDS = [
    Seed("nilad-fast-path-without-frame", "fault", "interpreter", "        ctx[reserved_dot_f_symbol] = f\n\n        self._context.push(ctx)",
         "        if not ctx and not issubclass(type(f), KGLambda):\n            return self.call(f)\n\n        ctx[reserved_dot_f_symbol] = f\n\n        self._context.push(ctx)", rule="C03-R3"),
    Seed("parameter-store-walks-scopes", "fault", "interpreter", "        if k not in reserved_fn_symbols:\n            # Check if variable exists in any scope\n            for d in self._context:",
         "        if True:\n            # Check if variable exists in any scope\n            for d in self._context:", rule="C03-R7"),
    Seed("pop-after-try", "fault", "interpreter",
         "        try:\n            return f(self, self._context) if issubclass(type(f), KGLambda) else self.call(f)\n        finally:\n            self._context.pop()",
         "        r = f(self, self._context) if issubclass(type(f), KGLambda) else self.call(f)\n        self._context.pop()\n        return r", rule="C03-R1"),
    Seed("pop-only-on-exception-class", "fault", "interpreter",
         "        finally:\n            self._context.pop()\n\n    def call(self, x):",
         "        except KlongException:\n            self._context.pop()\n            raise\n\n    def call(self, x):", rule="C03-R1"),
    Seed("load-no-finally", "fault", "sys_fn",
         "            ctx = klong._context.pop()\n            try:\n                r = klong(f.read())\n            finally:\n                klong._context.push(ctx)\n            return r",
         "            ctx = klong._context.pop()\n            r = klong(f.read())\n            klong._context.push(ctx)\n            return r", rule="C03-R1"),
    Seed("bkf-early-return", "fault", "sys_fn",
         "            else:\n                raise RuntimeError(f\"Backend does not have function: {fn_name}\")\n    finally:\n        klong._context.push(ctx)\n    return None",
         "            else:\n                raise RuntimeError(f\"Backend does not have function: {fn_name}\")\n    except AttributeError:\n        return None\n    klong._context.push(ctx)\n    return None", rule="C03-R1"),
    Seed("ws-push-without-pop-on-keyerror", "fault", "ws/sys_fn_ws",
         "    finally:\n        klong._context.pop()", "    else:\n        klong._context.pop()", rule="C03-R1"),
    Seed("pop-from-other-end", "fault", "interpreter", "        return self._context.popleft() if len(self._context) > self._min_ctx_count else None",
         "        return self._context.pop() if len(self._context) > self._min_ctx_count else None", rule="C03-R1"),
    Seed("cli-h-not-deleted-on-error", "fault", "sys_fn_ipc",
         "        logging.error(f\"TcpClientHandler::handle_client: Klong error {e}\")\n    finally:\n        del klong._context[handle_sym]",
         "        logging.error(f\"TcpClientHandler::handle_client: Klong error {e}\")\n    else:\n        del klong._context[handle_sym]", rule="C03-R2"),
    Seed("args-evaluated-after-push", "fault", "interpreter",
         "        ctx = {} if f_args is None else {reserved_fn_symbol_map[p]: self.call(q) for p,q in zip(reserved_fn_args,f_args)}\n",
         "        ctx = {}\n        pending = [] if f_args is None else list(zip(reserved_fn_args,f_args))\n", rule="C03-R3",
         more=[("        self._context.push(ctx)\n        try:\n            return f(self", "        self._context.push(ctx)\n        try:\n            for p, q in pending:\n                ctx[reserved_fn_symbol_map[p]] = self.call(q)\n            return f(self")]),
    Seed("locals-through-context", "fault", "interpreter", "                    if q not in ctx:\n                        ctx[q] = q", "                    if q not in ctx:\n                        self._context[q] = q", rule="C03-R3"),
    Seed("cond-evaluates-both", "fault", "interpreter", "            return self.call(x[1]) if p else self.call(x[2])", "            a, b = self.call(x[1]), self.call(x[2])\n            return a if p else b", rule="C03-R4"),
    Seed("cond-swapped", "fault", "interpreter", "            return self.call(x[1]) if p else self.call(x[2])", "            return self.call(x[2]) if p else self.call(x[1])", rule="C03-R4"),
    Seed("cond-truth-drops-empty", "fault", "interpreter", "            p = not ((self._backend.is_number(q) and q == 0) or is_empty(q))", "            p = not (self._backend.is_number(q) and q == 0)", rule="C03-R4"),
    Seed("two-resolution-passes", "fault", "interpreter",
         "        f, f_args, f_arity = self._resolve_fn(f, f_args, f_arity)\n        f, f_args, f_arity = self._resolve_fn(f, f_args, f_arity)\n        f, f_args, f_arity = self._resolve_fn(f, f_args, f_arity)\n",
         "        f, f_args, f_arity = self._resolve_fn(f, f_args, f_arity)\n        f, f_args, f_arity = self._resolve_fn(f, f_args, f_arity)\n", rule="C03-R5"),
    Seed("projection-layer-filled-in-place", "fault", "types", "    sparse_fa = np.copy(arr[0])", "    sparse_fa = arr[0]", rule="C03-R6"),
    Seed("call-skips-op-nodes", "fault", "interpreter", "        return self.eval(KGCall(x.a, x.args, x.arity) if isinstance(x, KGFn) else x)", "        return self.eval(KGCall(x.a, x.args, x.arity) if isinstance(x, KGFn) and not x.is_op() else x)", rule="C03-R6"),
    Seed("refactor-return-temp", "refactor", "interpreter",
         "        try:\n            return f(self, self._context) if issubclass(type(f), KGLambda) else self.call(f)\n        finally:\n            self._context.pop()",
         "        try:\n            result = f(self, self._context) if issubclass(type(f), KGLambda) else self.call(f)\n            return result\n        finally:\n            self._context.pop()"),
    Seed("refactor-resolution-loop", "refactor", "interpreter",
         "        f, f_args, f_arity = self._resolve_fn(f, f_args, f_arity)\n        f, f_args, f_arity = self._resolve_fn(f, f_args, f_arity)\n        f, f_args, f_arity = self._resolve_fn(f, f_args, f_arity)\n",
         "        for _ in reserved_fn_args:\n            f, f_args, f_arity = self._resolve_fn(f, f_args, f_arity)\n"),
    Seed("refactor-cond-if-statement", "refactor", "interpreter", "            return self.call(x[1]) if p else self.call(x[2])",
         "            if p:\n                return self.call(x[1])\n            else:\n                return self.call(x[2])"),
]
