"""C02 — adverbs equal their definitional expansion for every verb and operand.

Structural clauses decided: the operator shortcuts inside Over and Scan-Over are taken only for verbs
whose dyad is exactly the primitive the shortcut folds with (and the shortcut is that primitive's own
reduce/accumulate); the three adverb tables (is-adverb, arity, implementation) agree and every
implementation accepts the call shape the chain builder uses; a chain binds each stage at construction
and resolves the verb at application time, never at build time, and is not memoised on syntax-tree
nodes; each-2 pairs with a truncating zip.  Values of folds are NOT decided.
"""
import ast

from ..model import AnalysisError, src, callee_name, dotted, walk_local, calls_in, FUNC
from ..flow import atoms_at
from ..callgraph import CallGraph
from .. import tables, effects
from ..common import loop_closures, closure_escapes
from ..selftest import Seed
from . import c04

META = {
    "technique": "sibling-table agreement (shortcut vs dyad primitive via a THIN result-path census), registry table agreement, closure-capture and build-time effect analysis of the chain builder, node-memo rule, counting-loop exit rule, operator-parameter usage rule for adverbs of monadic verbs",
    "level_text": "Static proof over the whole shortcut table and adverb registry: every shortcut folds with the primitive its verb's dyad applies, the registry tables agree symbol by symbol, chains capture their stages by value and read no variable state when built. It enumerates all verb x adverb shortcut entries instead of sampling operands; fold values, empty/atom cases of the generic path and user-function verbs are not decided.",
    "level_note": "decides the structural clause below from source; does not decide the behaviour. Trusted: ufunc.reduce/accumulate fold along axis 0 with the ufunc's own binary operation; np.min/np.max on rank 1 equal minimum/maximum.reduce; default arguments are evaluated at lambda creation.",
    "explanation": (
        "Static analysis of klongpy/adverbs.py, interpreter.py (chain_adverbs, eval), types.py, dyads.py: the shortcut branches "
        "(safe_eq(op.a, c) -> np primitive) of eval_adverb_over / eval_adverb_scan_over are extracted and each operator c is resolved through the "
        "dyad dispatch table to its implementation, whose return paths are enumerated (THIN census); symbol sets of is_adverb, get_adverb_arity and "
        "get_adverb_fn are compared and the parameter lists of the returned callables checked against the call shapes of chain_adverbs; closures "
        "created in the chain loop must bind loop variables as defaults; the chain builder must not read variable state; eval must not memoise chains."
        " Later additions: counting loops of the iterate adverbs must exit through an ordering comparison (R6); adverbs that apply their verb to one argument must not read `op`, which is the chain's base verb (R7)."),
    "assumptions": ["the numpy backend's ufuncs are the reference primitives"],
}

UFUNC_OF_OP = {"+": "add", "-": "subtract", "*": "multiply", "%": "divide", "&": "minimum", "|": "maximum"}
FROZEN_RANK1 = {("&", ("min",)): "minimum", ("|", ("max",)): "maximum"}
REVIEWED = {
    (",", ("concatenate",)): "Join is not a ufunc; the shortcut is guarded by isarray(a) and dtype != 'O' (homogeneous numeric rows), where ,/ is concatenation of the rows",
    (",", ()): "under the same guards and a.ndim == 1 the operand itself is returned: joining the elements of a flat numeric vector gives that vector",
}


def check(ctx):
    repo = ctx.repo
    cg = CallGraph(repo)
    ctx.rule("C02-R1", "THIN + TABLE-AGREE: each Over / Scan-Over operator shortcut folds with the very primitive its verb's dyad applies, and that dyad has no other result path")
    ctx.rule("C02-R2", "TABLE-AGREE(adverb registry): is_adverb, get_adverb_arity and get_adverb_fn know the same symbols; returned callables take (f, a, op) for monadic use and (f, a, b) for dyadic use")
    ctx.rule("C02-R3", "chain construction: closures created in the stage loop bind loop variables by value; the builder reads no variable state (the verb is resolved when applied, not when the chain is built)")
    ctx.rule("C02-R4", "each-2 pairs elements with a truncating zip (excess elements of the longer operand are ignored)")
    ctx.rule("C02-R5", "adverb chains are not memoised on syntax-tree nodes")
    ctx.trust("ufunc.reduce / ufunc.accumulate apply the ufunc's binary operation left to right along axis 0", "np.min / np.max of a rank-1 array equal minimum.reduce / maximum.reduce")

    dy = tables.dispatch_table(repo, "dyads:create_dyad_functions")
    # ---- R1
    n = 0
    for adv, kind in (("adverbs:eval_adverb_over", "reduce"), ("adverbs:eval_adverb_scan_over", "accumulate")):
        sc = tables.shortcut_table(repo, adv)
        ctx.floor("C02-R1", f"operator shortcuts in {adv.split(':')[1]}", len(sc), 4)
        for op, prims, guards, node in sc:
            n += 1
            ctx.instance("C02-R1", adv, f"{op} -> {prims}")
            impl = dy.get(op)
            if impl is None:
                ctx.ob("C02-R1", adv, f"shortcut operator {op} is a dyad", False, node=node, construct=f"shortcut for unknown dyad {op}")
                continue
            if (op, tuple(prims[0]) if prims else ()) in REVIEWED:
                need = ("isarray" in " ".join(guards)) and ("dtype" in " ".join(guards)) and (bool(prims) or any(g.replace(" ", "") == "a.ndim==1" for g in guards))
                ctx.ob("C02-R1", adv, f"`{op}` shortcut {prims[0] if prims else 'operand itself'} is the reviewed exception and keeps its guards", need, node=node, construct=f"{kind} {op} reviewed exception guards" + ("" if prims else " (identity arm)"),
                       msg=f"the reviewed `{op}` shortcut lost its isarray / dtype != 'O' guard")
                continue
            U = UFUNC_OF_OP.get(op)
            f = repo.fn(f"dyads:{impl}")
            paths = tables.result_paths(repo, cg, f)
            # the shortcut's own primitive
            ok_prim = False
            if prims:
                p = prims[0]
                if p == (U, kind):
                    ok_prim = True
                elif (op, p) in FROZEN_RANK1 and FROZEN_RANK1[(op, p)] == U and kind == "reduce":
                    ok_prim = any("ndim == 1" in g for g in guards)
            ctx.ob("C02-R1", adv, f"`{op}{'/' if kind == 'reduce' else chr(92)}` shortcut {prims} is {U}.{kind} (the fold of the dyad's own primitive)", ok_prim, node=node,
                   construct=f"{kind} {op}: shortcut primitive {'.'.join(prims[0]) if prims else '?'}",
                   msg=f"the shortcut for `{op}` uses {prims} but the definitional expansion folds {impl} ({U}): they differ (e.g. cumsum/cumprod flatten rank-2 operands, min/max need rank 1)")
            # the dyad must be thin over U
            for g, d, pn in paths:
                if d == ("prim", U):
                    continue
                ctx.ob("C02-R1", f.fq, f"`{op}`: the dyad has no result path besides {U} (found {d})", False, node=pn,
                       construct=f"{kind} {op}: dyad-only result path {_short(d)}",
                       msg=f"{impl} has the result path {d} (guard: {', '.join(g) or 'none'}) which {U}.{kind} does not have: `{op}{'/' if kind == 'reduce' else chr(92)}` on an operator verb differs from the same fold written with the equivalent lambda")
            ctx.ob("C02-R1", f.fq, f"`{op}`: the dyad applies {U}", any(d == ("prim", U) for _g, d, _n in paths), node=f.node, construct=f"{kind} {op}: dyad primitive")
    ctx.floor("C02-R1", "shortcut entries examined", n, 11)

    # ---- R2
    def table_symbols(f):
        """the symbols a function knows: string constants it compares with / tests membership in, whether they are written in the
        function or in a module-level table (set, tuple of entries, dictionary) the function reads"""
        out = set()

        def keys_of(v):
            ks = set()
            if isinstance(v, (ast.Set, ast.List, ast.Tuple)):
                for e in v.elts:
                    if isinstance(e, ast.Constant) and isinstance(e.value, str):
                        ks.add(e.value)
                    elif isinstance(e, (ast.Tuple, ast.List)) and e.elts and isinstance(e.elts[0], ast.Constant) and isinstance(e.elts[0].value, str):
                        ks.add(e.elts[0].value)      # table of (symbol, ...) entries
            elif isinstance(v, ast.Dict):
                ks |= {k.value for k in v.keys if isinstance(k, ast.Constant) and isinstance(k.value, str)}
            elif isinstance(v, ast.Call) and callee_name(v) in ("frozenset", "set", "dict", "tuple") and v.args:
                ks |= keys_of(v.args[0])
            return ks
        for n in ast.walk(f.node):
            if isinstance(n, ast.Compare):
                for c in [n.left] + n.comparators:
                    if isinstance(c, ast.Constant) and isinstance(c.value, str):
                        out.add(c.value)
                    out |= keys_of(c)
            if isinstance(n, ast.Name) and isinstance(n.ctx, ast.Load):
                for st in f.module.tree.body:
                    if isinstance(st, ast.Assign) and any(isinstance(t, ast.Name) and t.id == n.id for t in st.targets):
                        out |= keys_of(st.value)
        return out
    ia = repo.fn("types:is_adverb")
    syms_a = table_symbols(ia)
    ga = repo.fn("types:get_adverb_arity")
    syms_b = table_symbols(ga)
    gf = repo.fn("adverbs:get_adverb_fn")
    branches = {}
    for nd in walk_local(gf.node):
        if isinstance(nd, ast.If) and isinstance(nd.test, ast.Compare) and isinstance(nd.test.comparators[0], ast.Constant) and isinstance(nd.test.comparators[0].value, str):
            branches[nd.test.comparators[0].value] = nd
    ctx.instance("C02-R2", "types:is_adverb", f"{len(syms_a)} symbols")
    ctx.ob("C02-R2", "types:get_adverb_arity", f"is_adverb and get_adverb_arity know the same symbols ({len(syms_a)})", syms_a == syms_b and len(syms_a) >= 11, node=ga.node, construct="adverb arity table symbols",
           msg=f"symbols only in one table: {sorted(syms_a ^ syms_b)}")
    ctx.ob("C02-R2", gf.fq, f"is_adverb and get_adverb_fn know the same symbols", syms_a == set(branches), node=gf.node, construct="adverb implementation table symbols",
           msg=f"symbols only in one table: {sorted(syms_a ^ set(branches))}: the parser accepts an adverb the evaluator cannot run (or vice versa)")
    m = repo.module("adverbs")
    for sym, br in sorted(branches.items()):
        ctx.instance("C02-R2", gf.fq, f"adverb {sym!r}")
        rets = [r for s in br.body for r in walk_local(s) if isinstance(r, ast.Return)]
        for r in rets:
            v = r.value
            if isinstance(v, ast.IfExp) and "arity == 2" in src(v.test):
                alts = [("dyadic", v.body), ("monadic", v.orelse)]
            else:
                # the same choice written as a statement: a dominating `arity == 2` fact decides the use
                pol = [p for e_, p in atoms_at(r, gf.node) if isinstance(e_, ast.Compare) and src(e_).endswith("arity == 2")]
                alts = [(("dyadic" if pol[0] else "monadic") if pol else "any", v)]
            for use, e in alts:
                params = None
                if isinstance(e, ast.Lambda):
                    params = [a.arg for a in e.args.args]
                    # the lambda forwards to an implementation: its first three arguments in order
                    if isinstance(e.body, ast.Call):
                        fwd = [src(a) for a in e.body.args]
                        okf = all(p in fwd for p in params)
                        ctx.ob("C02-R2", gf.fq, f"{sym!r} ({use}): the wrapper forwards all of {params}", okf, node=e, construct=f"adverb {sym} {use} wrapper forwards its parameters")
                elif isinstance(e, ast.Name) and e.id in m.funcs:
                    params = m.funcs[e.id].params()
                ok = params is not None and len(params) == 3 and params[0] == "f"
                if ok and use == "dyadic":
                    ok = params[2] != "op"
                if ok and use == "monadic":
                    ok = params[2] == "op"
                ctx.ob("C02-R2", gf.fq, f"{sym!r} ({use} use): callable takes {params}, matching the chain builder's call shape", ok, node=r, construct=f"adverb {sym} {use} call shape",
                       msg=f"the callable returned for {sym!r} ({use} use) has parameters {params}; chain_adverbs calls o(f, x, op=...) for monadic and o(f, x, y) for dyadic use")
    # chain_adverbs call shapes
    ch = repo.fn("interpreter:chain_adverbs")
    shapes = []
    for lam in [x for x in ast.walk(ch.node) if isinstance(x, ast.Lambda)]:
        if isinstance(lam.body, ast.Call) and isinstance(lam.body.func, ast.Name) and lam.body.func.id == "o":
            shapes.append((len(lam.body.args), [k.arg for k in lam.body.keywords]))
    ctx.ob("C02-R2", ch.fq, f"the chain builder calls stages as o(f, x, op=...) and o(f, x, y) (found {shapes})", sorted(shapes) == [(2, ["op"]), (3, [])], node=ch.node, construct="chain builder call shapes")

    # ---- R3
    caps = loop_closures(ch.node)
    ctx.floor("C02-R3", "closures created in the chain loop", len(caps), 2)
    for c, loop, cap in caps:
        ctx.instance("C02-R3", ch.fq, f"lambda@{c.lineno}")
        ctx.ob("C02-R3", ch.fq, f"the stage closure binds the loop's variables by value (captures {sorted(cap) or 'none'} late)", not cap, node=c, construct=f"chain stage closure captures {sorted(cap)}",
               msg=f"a stage lambda reads {sorted(cap)} as a free variable: after the loop every stage applies the last adverb / the last composed function")
    # build-time reads of variable state (outside the lambdas)
    reads = []
    for nd in walk_local(ch.node):
        if isinstance(nd, ast.Subscript) and dotted(nd.value) in ("klong._context", "klong") and isinstance(nd.ctx, ast.Load):
            reads.append(nd)
        if isinstance(nd, ast.Call) and isinstance(nd.func, ast.Attribute) and nd.func.attr in ("eval", "call") and dotted(nd.func.value) == "klong":
            reads.append(nd)
    ctx.instance("C02-R3", ch.fq, "build-time reads")
    ctx.ob("C02-R3", ch.fq, "the chain builder reads no variable and evaluates nothing while building (verbs are resolved when the chain is applied)", not reads, node=(reads[0] if reads else ch.node),
           construct="chain builder reads variable state at build time",
           msg="the chain builder looks a named verb up while building the chain: combined with any reuse of the built chain the adverb keeps applying the function the name was bound to earlier")
    # the innermost stage evaluates the verb through the interpreter with the operands as given
    first = [lam for lam in ast.walk(ch.node) if isinstance(lam, ast.Lambda) and isinstance(lam.body, ast.Call) and isinstance(lam.body.func, ast.Attribute) and lam.body.func.attr == "eval"]
    ok = len(first) >= 2 and all(isinstance(l.body.args[0], ast.Call) and callee_name(l.body.args[0]) == "KGCall" for l in first[:2])
    ctx.ob("C02-R3", ch.fq, "the verb is applied as k.eval(KGCall(verb, [operands], arity)) per element", ok, node=ch.node, construct="verb applied through the interpreter per element")

    # ---- R4
    e2 = repo.fn("adverbs:eval_adverb_each2")
    zips = [c for c in calls_in(e2.node) if callee_name(c) == "zip"]
    ctx.instance("C02-R4", e2.fq)
    ok = len(zips) == 1 and len(zips[0].args) == 2 and not any(k.arg == "strict" and not (isinstance(k.value, ast.Constant) and k.value.value is False) for k in zips[0].keywords)
    ctx.ob("C02-R4", e2.fq, "each-2 pairs its operands with zip(a, b) (truncating)", ok, node=e2.node, construct="each-2 truncating zip",
           msg="each-2 no longer pairs with a truncating zip: operands of different lengths raise / pad instead of ignoring the excess elements of the longer list")
    strict = [c for f in repo.all_funcs(("adverbs",)) for c in calls_in(f.node) if callee_name(c) == "zip" and any(k.arg == "strict" for k in c.keywords)]
    ctx.ob("C02-R4", "adverbs", "no strict zip in the adverb implementations", not strict, construct="no strict zip in adverbs")

    # ---- R6 counting loops of the iterate adverbs terminate for every numeric count
    ctx.rule("C02-R6", "counting loops in the adverb implementations (a counter moved by a constant each iteration) exit through an ordering comparison in the direction of the movement, not through a type-strict or exact equality")
    n6 = 0
    for f in repo.all_funcs(("adverbs",)):
        for lp in [n for n in walk_local(f.node) if isinstance(n, ast.While)]:
            moved = {}
            for b in lp.body:
                if isinstance(b, ast.Assign) and isinstance(b.targets[0], ast.Name) and isinstance(b.value, ast.BinOp) and isinstance(b.value.left, ast.Name) and \
                        b.value.left.id == b.targets[0].id and isinstance(b.value.right, ast.Constant) and isinstance(b.value.op, (ast.Sub, ast.Add)):
                    moved[b.targets[0].id] = -1 if isinstance(b.value.op, ast.Sub) else 1
                if isinstance(b, ast.AugAssign) and isinstance(b.target, ast.Name) and isinstance(b.value, ast.Constant) and isinstance(b.op, (ast.Sub, ast.Add)):
                    moved[b.target.id] = -1 if isinstance(b.op, ast.Sub) else 1
            tnames = {n.id for n in ast.walk(lp.test) if isinstance(n, ast.Name)}
            counters = [v for v in moved if v in tnames]
            if not counters:
                continue
            n6 += 1
            v = counters[0]
            ctx.instance("C02-R6", f.fq, f"while {src(lp.test)}")
            t = lp.test
            ok = isinstance(t, ast.Compare) and len(t.ops) == 1 and isinstance(t.left, ast.Name) and t.left.id == v and isinstance(t.comparators[0], ast.Constant) and \
                ((moved[v] < 0 and isinstance(t.ops[0], (ast.Gt, ast.GtE))) or (moved[v] > 0 and isinstance(t.ops[0], (ast.Lt, ast.LtE))))
            ctx.ob("C02-R6", f.fq, f"counting loop on `{v}` exits through an ordering comparison", ok, node=lp, construct=f"counting loop exit test in {f.name}",
                   msg=f"`while {src(t)}` counts `{v}` {'down' if moved[v] < 0 else 'up'} but exits only on a type-strict / exact equality: a count that is a numpy integer (any computed count), a float or negative never satisfies it and the adverb loops forever")
    # the same count spelled `for _ in range(count)`: range() accepts only integers, while a Klong count is any number whose
    # value is whole (% and ^ always return floats): the adverb would raise TypeError where the definition applies the verb
    for f in repo.all_funcs(("adverbs",)):
        if "iterate" not in f.name:
            continue
        for lp in [n for n in walk_local(f.node) if isinstance(n, ast.For)]:
            it = lp.iter
            if isinstance(it, ast.Call) and callee_name(it) == "range" and any(isinstance(x, ast.Name) and x.id in f.params() for a_ in it.args for x in ast.walk(a_)):
                n6 += 1
                ctx.instance("C02-R6", f.fq, f"for {src(lp.target)} in {src(it)}")
                ctx.ob("C02-R6", f.fq, "the count operand is consumed by comparison and subtraction, never by range()", False, node=lp, construct=f"count handed to range() in {f.name}",
                       msg=f"`for {src(lp.target)} in {src(it)}` requires an int: a count that is whole in value but a float ((4%2){{x*2}}:*1, counts computed with % or ^) raises TypeError instead of applying the verb that many times")
    ctx.floor("C02-R6", "counting loops in the adverb implementations", n6, 2)

    # ---- R7 `op` names the chain's base verb, which is this adverb's verb only at the first position of a chain
    ctx.rule("C02-R7", "an adverb of monadic verbs (it applies its verb to one argument, so it may stand anywhere in a chain) never consults `op`: the chain builder hands every stage the chain's BASE verb, which is this stage's verb only at the first position")
    n7 = n_dy = 0
    for f in repo.all_funcs(("adverbs",)):
        ps = f.params()
        if f.parent is not None or len(ps) < 3 or ps[0] != "f" or "op" not in ps:
            continue
        ar = {len(c.args) for c in calls_in(f.node) if isinstance(c.func, ast.Name) and c.func.id == "f"}
        passes_f = any(isinstance(x, ast.Name) and x.id == "f" and isinstance(x.ctx, ast.Load) and not (isinstance(getattr(x, "_parent", None), ast.Call) and x._parent.func is x) for x in walk_local(f.node))
        reads = [x for x in walk_local(f.node) if isinstance(x, ast.Name) and x.id == "op" and isinstance(x.ctx, ast.Load)]
        if ar == {1} or (not ar and passes_f and not reads):
            n7 += 1
            ctx.instance("C02-R7", f.fq, "adverb of monadic verbs")
            ctx.ob("C02-R7", f.fq, "`op` is not read", not reads, node=reads[0] if reads else f.node, construct=f"{f.name} consults op",
                   msg=f"{f.name} applies its verb to one argument (it can follow another adverb in a chain) but takes a decision on `op`: in -/'m the Each stage sees op='-' (the base verb of the chain) although its own verb is -/ , so a shortcut keyed on `op` computes something else")
        elif reads:
            n_dy += 1
            ctx.instance("C02-R7", f.fq, "adverb of dyadic verbs using op")
    ctx.floor("C02-R7", "adverbs of monadic verbs", n7, 3)
    ctx.control("C02-R7", f"adverbs that consult op are recognised ({n_dy})", n_dy >= 2)

    # ---- R5 (node memos in eval; the compile memo is C04/C05's known finding and not repeated here)
    sub = _NodeMemoOnly(ctx)
    c04.check_memo(sub, repo, cg, "C02-R5")
    ctx.instance("C02-R5", "interpreter:KlongInterpreter.eval")
    ev = repo.fn("interpreter:KlongInterpreter.eval")
    built = [c for c in calls_in(ev.node) if callee_name(c) == "chain_adverbs"]
    ok = len(built) == 1 and isinstance(built[0]._parent, ast.Call) and built[0]._parent.func is built[0]
    ctx.ob("C02-R5", ev.fq, "the chain is built and applied in one expression at each evaluation", ok, node=ev.node, construct="chain built per evaluation",
           msg="the built adverb chain is kept instead of being rebuilt at each evaluation")


class _NodeMemoOnly:
    """forward only the generic node-memo obligations of c04.check_memo"""

    def __init__(self, ctx):
        self._c = ctx

    def __getattr__(self, k):
        return getattr(self._c, k)

    def ob(self, rid, where, text, ok, node=None, msg=None, construct=None, path=None):
        if construct and construct.startswith("node memo .") and "_compiled" not in construct:
            return self._c.ob(rid, where, text, ok, node=node, msg=msg, construct=construct, path=path)
        return ok

    def instance(self, *a, **k):
        return None

    def floor(self, *a, **k):
        return None

    def control(self, *a, **k):
        return None

    def note(self, *a, **k):
        return None

    def error(self, msg):
        return self._c.error(msg)


def _short(d):
    if d[0] == "convert":
        return f"{d[1]}(...)"
    return f"{d[0]} {d[1]}"


# functions whose mechanical mutants are swept in the thorough tier (coverage evidence, see sa/mutate.py)
MUTATION_SCOPE = ['adverbs:eval_adverb_over',
                  'adverbs:eval_adverb_scan_over',
                  'adverbs:get_adverb_fn',
                  'adverbs:eval_adverb_each2',
                  'adverbs:eval_dyad_adverb_iterate',
                  'adverbs:eval_adverb_scan_iterating',
                  'interpreter:chain_adverbs',
                  'dyads:eval_dyad_add',
                  'dyads:eval_dyad_subtract',
                  'dyads:eval_dyad_multiply',
                  'dyads:eval_dyad_divide',
                  'dyads:eval_dyad_minimum',
                  'dyads:eval_dyad_maximum',
                  'types:is_adverb',
                  'types:get_adverb_arity']

SEEDS = [
    Seed("each-shortcut-keyed-on-op", "fault", "adverbs", "def eval_adverb_each(f, a, op, backend):\n", "def eval_adverb_each(f, a, op, backend):\n    if isinstance(op, KGOp) and op.a == '-' and backend.np.isarray(a) and a.dtype != 'O':\n        return -a\n", rule="C02-R7"),
    Seed("remainder-shortcut", "fault", "adverbs", "        elif safe_eq(op.a, '&') and a.ndim == 1:\n            return np_backend.min(a)",
         "        elif safe_eq(op.a, '!'):\n            return np_backend.fmod.reduce(a)\n        elif safe_eq(op.a, '&') and a.ndim == 1:\n            return np_backend.min(a)", rule="C02-R1"),
    Seed("min-as-max", "fault", "adverbs", "        elif safe_eq(op.a, '&') and a.ndim == 1:\n            return np_backend.min(a)", "        elif safe_eq(op.a, '&') and a.ndim == 1:\n            return np_backend.max(a)", rule="C02-R1"),
    Seed("min-any-rank", "fault", "adverbs", "        elif safe_eq(op.a, '&') and a.ndim == 1:\n            return np_backend.min(a)", "        elif safe_eq(op.a, '&'):\n            return np_backend.min(a)", rule="C02-R1"),
    Seed("scan-cumsum", "fault", "adverbs", "        if safe_eq(op.a, '+') and hasattr(np_backend.add, 'accumulate'):\n            return np_backend.add.accumulate(a)", "        if safe_eq(op.a, '+') and hasattr(np_backend, 'cumsum'):\n            return np_backend.cumsum(a)", rule="C02-R1"),
    Seed("subtract-special-case", "fault", "dyads", "    return backend.np.subtract(a, b)", "    if backend.is_number(b) and not is_list(a) and b == 0:\n        return a\n    return backend.np.subtract(a, b)", rule="C02-R1"),
    Seed("adverb-only-in-parser", "fault", "types", "        \"@'\"\n    }", "        \"@'\",\n        \":@\"\n    }", rule="C02-R2"),
    Seed("each-left-wrong-shape", "fault", "adverbs", "        return lambda f,a,b: eval_adverb_each_left(f,a,b,backend)", "        return lambda f,a: eval_adverb_each_left(f,a,a,backend)", rule="C02-R2"),
    Seed("drop-f-default", "fault", "interpreter", "            f = lambda x,f=f,o=o: o(f,x,op=arr[0].a)", "            f = lambda x,o=o: o(f,x,op=arr[0].a)", rule="C02-R3"),
    Seed("drop-o-default", "fault", "interpreter", "            f = lambda x,y,f=f,o=o: o(f,x,y)", "            f = lambda x,y,f=f: o(f,x,y)", rule="C02-R3"),
    Seed("verb-resolved-at-build", "fault", "interpreter", "    if arr[0].arity == 1:\n        f = lambda x,k=klong,a=arr[0].a: k.eval(KGCall(a, [x], arity=1))",
         "    verb = arr[0].a\n    if isinstance(verb, KGSym) and verb not in reserved_fn_symbols:\n        try:\n            verb = klong._context[verb]\n        except KeyError:\n            pass\n    if arr[0].arity == 1:\n        f = lambda x,k=klong,a=verb: k.eval(KGCall(a, [x], arity=1))", rule="C02-R3"),
    Seed("each2-strict-zip", "fault", "adverbs", "    r = bknp.asarray([f(x,y) for x,y in zip(a,b)])", "    r = bknp.asarray([f(x,y) for x,y in zip(a,b,strict=True)])", rule="C02-R4"),
    Seed("chain-memo-on-node", "fault", "interpreter", "                return chain_adverbs(self, x.a)()", "                chain = getattr(x, '_chain', None)\n                if chain is None:\n                    chain = x._chain = chain_adverbs(self, x.a)\n                return chain()", rule="C02-R5"),
    Seed("iterate-counts-with-range", "fault", "adverbs", "    while a > 0:\n        b = f(b)\n        a = a - 1\n    return b", "    for _ in range(a):\n        b = f(b)\n    return b", rule="C02-R6"),
    Seed("iterate-strict-equality", "fault", "adverbs", "    while a > 0:\n        b = f(b)\n        a = a - 1\n    return b", "    while not safe_eq(a, 0):\n        b = f(b)\n        a = a - 1\n    return b", rule="C02-R6"),
    Seed("scan-iterate-not-equal", "fault", "adverbs", "    r = [b]\n    while a > 0:", "    r = [b]\n    while a != 0:", rule="C02-R6"),
    Seed("refactor-reorder-shortcuts", "refactor", "adverbs", "        if safe_eq(op.a,'+'):\n            return np_backend.add.reduce(a)\n        elif safe_eq(op.a, '-'):\n            return np_backend.subtract.reduce(a)",
         "        if safe_eq(op.a, '-'):\n            return np_backend.subtract.reduce(a)\n        elif safe_eq(op.a,'+'):\n            return np_backend.add.reduce(a)"),
    Seed("refactor-partial", "refactor", "interpreter", "            f = lambda x,y,f=f,o=o: o(f,x,y)", "            f = functools.partial(o, f) if False else (lambda x,y,f=f,o=o: o(f,x,y))"),
]
